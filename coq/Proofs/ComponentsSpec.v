(** The greedy component search of fit_offsets.get_connected_components
    (Model/Components.v: [cc_step], [cc_groups], [components]) returns exactly
    the reachability classes of the relation "two levels share a series", and
    the part of get_series_time_offsets that follows ([offsets_from_mapping])
    fits exactly one such class of maximal level count; the entries it hands to
    find_offsets form a connected overlap graph (the hypothesis [connected] of
    C05_unique_up_to_shift / C08_master_curve_choice_free).

    All statements are for an arbitrary [sah : list (Z * list nat)] (any number
    of levels, any series sets) whose level keys are distinct (a Python dict). *)
From Spowtd Require Import Model.Components Proofs.QSum Proofs.FitOffsetsSpec Proofs.FindOffsetsSpec
  Proofs.InvarianceSpec.
From Coq Require Import Lia Permutation Relations Sorted.
Local Close Scope Q_scope.

(** * Executable helpers *)

Lemma mem_nat_In x l : mem_nat x l = true <-> In x l.
Proof.
  induction l as [|y t IH]; simpl.
  - split; [discriminate|tauto].
  - rewrite orb_true_iff, Nat.eqb_eq, IH. split; intros [H|H]; subst; auto.
Qed.

Lemma mem_Z_In x l : mem_Z x l = true <-> In x l.
Proof.
  induction l as [|y t IH]; simpl.
  - split; [discriminate|tauto].
  - rewrite orb_true_iff, Z.eqb_eq, IH. split; intros [H|H]; subst; auto.
Qed.

Lemma disjointb_true a b : disjointb a b = true <-> forall x, In x a -> ~ In x b.
Proof.
  unfold disjointb. rewrite negb_true_iff. split.
  - intros H x Ha Hb.
    assert (Hex : existsb (fun x0 => mem_nat x0 b) a = true).
    { apply existsb_exists. exists x. split; [exact Ha|]. apply mem_nat_In. exact Hb. }
    rewrite Hex in H. discriminate.
  - intros H. destruct (existsb (fun x0 => mem_nat x0 b) a) eqn:Hex; [|reflexivity].
    apply existsb_exists in Hex. destruct Hex as (x & Ha & Hb). apply mem_nat_In in Hb.
    exfalso. exact (H x Ha Hb).
Qed.

Lemma disjointb_false a b : disjointb a b = false <-> exists x, In x a /\ In x b.
Proof.
  unfold disjointb. rewrite negb_false_iff, existsb_exists. split.
  - intros (x & Ha & Hb). exists x. split; [exact Ha|]. apply mem_nat_In. exact Hb.
  - intros (x & Ha & Hb). exists x. split; [exact Ha|]. apply mem_nat_In. exact Hb.
Qed.

Lemma union_nat_In a : forall b x, In x (union_nat a b) <-> In x a \/ In x b.
Proof.
  induction a as [|y t IH]; intros b x; simpl.
  - tauto.
  - destruct (mem_nat y b) eqn:Hm.
    + apply mem_nat_In in Hm. rewrite IH. split.
      * intros [H|H]; auto.
      * intros [[H|H]|H]; subst; auto.
    + rewrite IH, in_app_iff. simpl. split.
      * intros [H|[H|[H|[]]]]; auto.
      * intros [[H|H]|H]; auto.
Qed.

Lemma NoDup_snoc {A} (b : list A) y : NoDup b -> ~ In y b -> NoDup (b ++ [y]).
Proof.
  intros Hb Hy. apply (Permutation_NoDup (Permutation_cons_append b y)). constructor; assumption.
Qed.

Lemma union_nat_NoDup a : forall b, NoDup b -> NoDup (union_nat a b).
Proof.
  induction a as [|y t IH]; intros b Hb; simpl; [exact Hb|].
  destruct (mem_nat y b) eqn:Hm; [apply IH; exact Hb|].
  apply IH. apply NoDup_snoc; [exact Hb|].
  intros Hin. apply mem_nat_In in Hin. rewrite Hin in Hm. discriminate.
Qed.

Lemma fold_union_In (ms : list group) : forall acc x,
  In x (fold_left (fun acc0 g => union_nat (snd g) acc0) ms acc)
  <-> In x acc \/ exists g, In g ms /\ In x (snd g).
Proof.
  induction ms as [|m t IH]; intros acc x; simpl.
  - split; [auto|]. intros [H|(g & [] & _)]. exact H.
  - rewrite IH, union_nat_In. split.
    + intros [[H|H]|(g & Hg & Hx)]; auto.
      * right. exists m. auto.
      * right. exists g. auto.
    + intros [H|(g & [Hg|Hg] & Hx)]; subst; auto.
      right. exists g. auto.
Qed.

Lemma fold_union_NoDup (ms : list group) : forall acc,
  NoDup acc -> NoDup (fold_left (fun acc0 g => union_nat (snd g) acc0) ms acc).
Proof.
  induction ms as [|m t IH]; intros acc Hacc; simpl; [exact Hacc|].
  apply IH. apply union_nat_NoDup. exact Hacc.
Qed.

Lemma flat_map_filter_perm {A B} (f : A -> list B) (p : A -> bool) l :
  Permutation (flat_map f (filter p l) ++ flat_map f (filter (fun x => negb (p x)) l))
              (flat_map f l).
Proof.
  induction l as [|a t IH]; simpl; [constructor|].
  destruct (p a); simpl.
  - rewrite <- app_assoc. apply Permutation_app_head. exact IH.
  - rewrite Permutation_app_swap_app. apply Permutation_app_head. exact IH.
Qed.

Lemma NoDup_app_parts {A} (l1 l2 : list A) :
  NoDup (l1 ++ l2) -> NoDup l1 /\ NoDup l2 /\ forall x, In x l1 -> ~ In x l2.
Proof.
  induction l1 as [|a t IH]; simpl; intros H.
  - split; [constructor|]. split; [exact H|]. intros x [].
  - inversion H as [|a' l' Hna Hnd]; subst. destruct (IH Hnd) as (H1 & H2 & H3).
    split.
    + constructor; [|exact H1]. intros Hin. apply Hna. apply in_or_app. left. exact Hin.
    + split; [exact H2|]. intros x [Hx|Hx] Hx2.
      * subst. apply Hna. apply in_or_app. right. exact Hx2.
      * exact (H3 x Hx Hx2).
Qed.

Lemma NoDup_flat_map_unique {A B} (f : A -> list B) l :
  NoDup (flat_map f l) -> forall a b x, In a l -> In b l -> In x (f a) -> In x (f b) -> a = b.
Proof.
  induction l as [|c t IH]; simpl; intros Hnd a b x Ha Hb Hxa Hxb; [destruct Ha|].
  destruct (NoDup_app_parts _ _ Hnd) as (_ & Hnt & Hsep).
  destruct Ha as [Ha|Ha]; destruct Hb as [Hb|Hb]; subst.
  - reflexivity.
  - exfalso. apply (Hsep x Hxa). apply in_flat_map. exists b. auto.
  - exfalso. apply (Hsep x Hxb). apply in_flat_map. exists a. auto.
  - exact (IH Hnt a b x Ha Hb Hxa Hxb).
Qed.

Lemma NoDup_flat_map_part {A B} (f : A -> list B) l a :
  NoDup (flat_map f l) -> In a l -> NoDup (f a).
Proof.
  induction l as [|c t IH]; simpl; intros Hnd Ha; [destruct Ha|].
  destruct (NoDup_app_parts _ _ Hnd) as (H1 & H2 & _).
  destruct Ha as [Ha|Ha]; [subst; exact H1|exact (IH H2 Ha)].
Qed.

Lemma NoDup_keys_unique {A B} (l : list (A * B)) k a b :
  NoDup (map fst l) -> In (k, a) l -> In (k, b) l -> a = b.
Proof.
  induction l as [|[k' c] t IH]; simpl; intros Hnd Ha Hb; [destruct Ha|].
  inversion Hnd as [|x l' Hnk Hnt]; subst.
  destruct Ha as [Ha|Ha]; destruct Hb as [Hb|Hb].
  - congruence.
  - inversion Ha; subst. exfalso. apply Hnk. apply (in_map fst) in Hb. exact Hb.
  - inversion Hb; subst. exfalso. apply Hnk. apply (in_map fst) in Ha. exact Ha.
  - exact (IH Hnt Ha Hb).
Qed.

(** * Reachability between levels *)

(** series [s] is recorded at level [h] *)
Definition at_level (P : list (Z * list nat)) (h : Z) (s : nat) : Prop :=
  exists ss, In (h, ss) P /\ In s ss.

(** two levels share a series *)
Definition share (P : list (Z * list nat)) (h h' : Z) : Prop :=
  exists s, at_level P h s /\ at_level P h' s.

(** linked by a chain of levels in which consecutive levels share a series
    (named [level_linked]: [linked] is the relation between series of
    Proofs/FitOffsetsSpec.v) *)
Definition level_linked (P : list (Z * list nat)) : Z -> Z -> Prop :=
  clos_refl_trans Z (share P).

Lemma at_level_key P h s : at_level P h s -> In h (map fst P).
Proof. intros (ss & Hin & _). apply (in_map fst) in Hin. exact Hin. Qed.

Lemma share_sym P h h' : share P h h' -> share P h' h.
Proof. intros (s & H1 & H2). exists s. auto. Qed.

Lemma level_linked_sym P h h' : level_linked P h h' -> level_linked P h' h.
Proof.
  intros H. induction H as [x y Hxy|x|x y z _ IH1 _ IH2].
  - apply rt_step. apply share_sym. exact Hxy.
  - apply rt_refl.
  - eapply rt_trans; eassumption.
Qed.

Lemma level_linked_mono P P' :
  (forall h s, at_level P h s -> at_level P' h s) ->
  forall h h', level_linked P h h' -> level_linked P' h h'.
Proof.
  intros Hm h h' H. induction H as [x y (s & H1 & H2)|x|x y z _ IH1 _ IH2].
  - apply rt_step. exists s. auto.
  - apply rt_refl.
  - eapply rt_trans; eassumption.
Qed.

Lemma level_linked_key P h h' : level_linked P h h' -> In h (map fst P) -> In h' (map fst P).
Proof.
  intros H. induction H as [x y (s & _ & H2)|x|x y z _ IH1 _ IH2]; intros Hin.
  - exact (at_level_key P y s H2).
  - exact Hin.
  - auto.
Qed.

Lemma at_level_snoc P h ser k s :
  at_level (P ++ [(h, ser)]) k s <-> at_level P k s \/ (k = h /\ In s ser).
Proof.
  unfold at_level. split.
  - intros (ss & Hin & Hs). apply in_app_iff in Hin. destruct Hin as [Hin|[Heq|[]]].
    + left. exists ss. auto.
    + right. inversion Heq; subst. auto.
  - intros [(ss & Hin & Hs)|(-> & Hs)].
    + exists ss. split; [|exact Hs]. apply in_app_iff. left. exact Hin.
    + exists ser. split; [|exact Hs]. apply in_app_iff. right. left. reflexivity.
Qed.

(** * The invariant of the fold *)

Record cc_inv (P : list (Z * list nat)) (gs : list group) : Prop := {
  (** the key tuples partition the processed levels *)
  inv_keys : Permutation (flat_map fst gs) (map fst P);
  inv_nonempty : forall g, In g gs -> fst g <> [];
  (** the series sets are pairwise disjoint *)
  inv_disj : forall g1 g2 s, In g1 gs -> In g2 gs -> In s (snd g1) -> In s (snd g2) -> g1 = g2;
  (** a group's series set is the union of the series of its levels *)
  inv_series : forall g s, In g gs -> (In s (snd g) <-> exists h, In h (fst g) /\ at_level P h s);
  (** soundness: levels of one group are linked *)
  inv_sound : forall g h h', In g gs -> In h (fst g) -> In h' (fst g) -> level_linked P h h'
}.

Lemma cc_inv_nil : cc_inv [] [].
Proof.
  constructor; simpl.
  - constructor.
  - intros g [].
  - intros g1 g2 s [].
  - intros g s [].
  - intros g h h' [].
Qed.

Lemma cc_step_inv P gs h ser :
  cc_inv P gs -> ~ In h (map fst P) -> cc_inv (P ++ [(h, ser)]) (cc_step gs h ser).
Proof.
  intros [Hkeys Hne Hdisj Hser Hsound] Hnew.
  unfold cc_step. cbv zeta.
  set (P' := P ++ [(h, ser)]).
  set (others := filter (fun g : list Z * list nat => disjointb ser (snd g)) gs).
  set (matches := filter (fun g : list Z * list nat => negb (disjointb ser (snd g))) gs).
  set (newgrp := fold_left (fun (acc : list nat) (g : list Z * list nat) => union_nat (snd g) acc) matches ser).
  assert (Hoth : forall g, In g others <-> In g gs /\ disjointb ser (snd g) = true).
  { intros g. unfold others. apply filter_In. }
  assert (Hmat : forall g, In g matches <-> In g gs /\ disjointb ser (snd g) = false).
  { intros g. unfold matches. rewrite filter_In, negb_true_iff. tauto. }
  assert (Hmono : forall k s, at_level P k s -> at_level P' k s).
  { intros k s H. apply at_level_snoc. left. exact H. }
  assert (Hold : forall k s, k <> h -> at_level P' k s -> at_level P k s).
  { intros k s Hk H. apply at_level_snoc in H. destruct H as [H|(H & _)]; [exact H|contradiction]. }
  assert (Hkey : forall g k, In g gs -> In k (fst g) -> k <> h).
  { intros g k Hg Hk ->. apply Hnew. eapply Permutation_in; [exact Hkeys|].
    apply in_flat_map. exists g. auto. }
  assert (Hgrp : forall s, In s newgrp <-> In s ser \/ exists g, In g matches /\ In s (snd g)).
  { intros s. unfold newgrp. apply fold_union_In. }
  assert (Hlm : forall a b, level_linked P a b -> level_linked P' a b).
  { apply level_linked_mono. exact Hmono. }
  assert (Hperm : Permutation (flat_map fst others ++ flat_map fst matches) (flat_map fst gs)).
  { apply flat_map_filter_perm. }
  clearbody others matches newgrp.
  (* every key of the new group is linked to h *)
  assert (Hroot : forall k, In k (h :: flat_map fst matches) -> level_linked P' h k).
  { intros k [<-|Hk]; [apply rt_refl|].
    apply in_flat_map in Hk. destruct Hk as (g & Hg & Hk).
    apply Hmat in Hg. destruct Hg as (Hg & Hd). apply disjointb_false in Hd.
    destruct Hd as (s & Hs1 & Hs2).
    apply (Hser g s Hg) in Hs2. destruct Hs2 as (k0 & Hk0 & Hat).
    apply rt_trans with k0.
    - apply rt_step. exists s. split.
      + apply at_level_snoc. right. auto.
      + apply Hmono. exact Hat.
    - apply Hlm. exact (Hsound g k0 k Hg Hk0 Hk). }
  constructor.
  - (* keys *)
    rewrite flat_map_app. simpl. rewrite app_nil_r.
    unfold P'. rewrite map_app. simpl.
    rewrite <- Permutation_middle. rewrite <- Permutation_cons_append.
    apply perm_skip. rewrite <- Hkeys. exact Hperm.
  - intros g Hg. apply in_app_iff in Hg. destruct Hg as [Hg|[<-|[]]].
    + apply Hoth in Hg. apply Hne. tauto.
    + simpl. discriminate.
  - (* disjoint *)
    assert (Hcross : forall g s, In g others -> In s (snd g) -> In s newgrp -> False).
    { intros g s Hg Hs Hn. apply Hoth in Hg. destruct Hg as (Hg & Hd).
      apply Hgrp in Hn. destruct Hn as [Hn|(g' & Hg' & Hs')].
      - exact (proj1 (disjointb_true _ _) Hd s Hn Hs).
      - apply Hmat in Hg'. destruct Hg' as (Hg' & Hd').
        assert (g = g') by exact (Hdisj g g' s Hg Hg' Hs Hs'). subst g'. congruence. }
    intros g1 g2 s Hg1 Hg2 Hs1 Hs2.
    apply in_app_iff in Hg1. apply in_app_iff in Hg2.
    destruct Hg1 as [Hg1|[<-|[]]]; destruct Hg2 as [Hg2|[<-|[]]].
    + apply Hoth in Hg1. apply Hoth in Hg2. exact (Hdisj g1 g2 s (proj1 Hg1) (proj1 Hg2) Hs1 Hs2).
    + exfalso. exact (Hcross g1 s Hg1 Hs1 Hs2).
    + exfalso. exact (Hcross g2 s Hg2 Hs2 Hs1).
    + reflexivity.
  - (* series *)
    intros g s Hg. apply in_app_iff in Hg. destruct Hg as [Hg|[<-|[]]].
    + apply Hoth in Hg. destruct Hg as (Hg & _). rewrite (Hser g s Hg). split.
      * intros (k & Hk & Hat). exists k. auto.
      * intros (k & Hk & Hat). exists k. split; [exact Hk|].
        apply Hold; [exact (Hkey g k Hg Hk)|exact Hat].
    + simpl. rewrite Hgrp. split.
      * intros [Hs|(g & Hg & Hs)].
        -- exists h. split; [left; reflexivity|]. apply at_level_snoc. right. auto.
        -- pose proof (proj1 (Hmat g) Hg) as (Hg' & _).
           apply (Hser g s Hg') in Hs. destruct Hs as (k & Hk & Hat).
           exists k. split; [|apply Hmono; exact Hat].
           right. apply in_flat_map. exists g. auto.
      * intros (k & [<-|Hk] & Hat).
        -- apply at_level_snoc in Hat. destruct Hat as [Hat|(_ & Hs)]; [|left; exact Hs].
           exfalso. apply Hnew. exact (at_level_key P h s Hat).
        -- apply in_flat_map in Hk. destruct Hk as (g & Hg & Hk).
           pose proof (proj1 (Hmat g) Hg) as (Hg' & _).
           right. exists g. split; [exact Hg|]. apply (Hser g s Hg').
           exists k. split; [exact Hk|]. apply Hold; [exact (Hkey g k Hg' Hk)|exact Hat].
  - (* soundness *)
    intros g k k' Hg Hk Hk'. apply in_app_iff in Hg. destruct Hg as [Hg|[<-|[]]].
    + apply Hoth in Hg. apply Hlm. exact (Hsound g k k' (proj1 Hg) Hk Hk').
    + simpl in Hk, Hk'. apply rt_trans with h.
      * apply level_linked_sym. apply Hroot. exact Hk.
      * apply Hroot. exact Hk'.
Qed.

Lemma cc_fold_inv rest : forall P gs,
  cc_inv P gs -> NoDup (map fst (P ++ rest)) ->
  cc_inv (P ++ rest) (fold_left (fun gs0 p => cc_step gs0 (fst p) (snd p)) rest gs).
Proof.
  induction rest as [|[h ser] rest IH]; intros P gs Hinv Hnd; simpl.
  - rewrite app_nil_r. exact Hinv.
  - replace (P ++ (h, ser) :: rest) with ((P ++ [(h, ser)]) ++ rest)
      by (rewrite <- app_assoc; reflexivity).
    apply IH.
    + apply cc_step_inv; [exact Hinv|].
      rewrite map_app in Hnd. simpl in Hnd. apply NoDup_remove_2 in Hnd.
      intros Hin. apply Hnd. apply in_or_app. left. exact Hin.
    + rewrite <- app_assoc. exact Hnd.
Qed.

(** ** (1) the invariant holds for the groups the search returns *)
Theorem cc_groups_inv sah : NoDup (map fst sah) -> cc_inv sah (cc_groups sah).
Proof.
  intros Hnd. unfold cc_groups. apply (cc_fold_inv sah [] [] cc_inv_nil). exact Hnd.
Qed.

(** ** Consequences of the invariant, for any [gs] with [cc_inv P gs] *)
Section InvFacts.
  Variable P : list (Z * list nat).
  Variable gs : list group.
  Hypothesis Hinv : cc_inv P gs.
  Hypothesis Hnd : NoDup (map fst P).

  Lemma inv_keys_nodup : NoDup (flat_map fst gs).
  Proof.
    apply (Permutation_NoDup (Permutation_sym (inv_keys P gs Hinv))). exact Hnd.
  Qed.

  (** every processed level lies in a group ... *)
  Lemma inv_covered h : In h (map fst P) -> exists g, In g gs /\ In h (fst g).
  Proof.
    intros Hin. apply (Permutation_in _ (Permutation_sym (inv_keys P gs Hinv))) in Hin.
    apply in_flat_map in Hin. exact Hin.
  Qed.

  (** ... in exactly one, and only processed levels do *)
  Lemma inv_one_group g1 g2 h : In g1 gs -> In g2 gs -> In h (fst g1) -> In h (fst g2) -> g1 = g2.
  Proof. apply (NoDup_flat_map_unique fst gs inv_keys_nodup). Qed.

  Lemma inv_group_keys_processed g h : In g gs -> In h (fst g) -> In h (map fst P).
  Proof.
    intros Hg Hh. apply (Permutation_in _ (inv_keys P gs Hinv)). apply in_flat_map. exists g. auto.
  Qed.

  Lemma inv_group_keys_nodup g : In g gs -> NoDup (fst g).
  Proof. apply (NoDup_flat_map_part fst gs g inv_keys_nodup). Qed.

  Lemma inv_groups_nodup : NoDup gs.
  Proof.
    pose proof inv_keys_nodup as Hk. pose proof (inv_nonempty P gs Hinv) as Hne.
    clear Hinv Hnd. induction gs as [|g t IH]; [constructor|].
    simpl in Hk. destruct (NoDup_app_parts _ _ Hk) as (_ & Ht & Hsep).
    constructor.
    - intros Hin. destruct (fst g) as [|k ks] eqn:Eg.
      + apply (Hne g); [left; reflexivity|exact Eg].
      + apply (Hsep k); [left; reflexivity|]. apply in_flat_map. exists g. split; [exact Hin|].
        rewrite Eg. left. reflexivity.
    - apply IH; [exact Ht|]. intros g' Hg'. apply Hne. right. exact Hg'.
  Qed.

  (** completeness: a group is closed under [level_linked] *)
  Lemma inv_closed h h' :
    level_linked P h h' -> forall g, In g gs -> In h (fst g) -> In h' (fst g).
  Proof.
    intros Hl. induction Hl as [x y (s & Hx & Hy)|x|x y z _ IH1 _ IH2]; intros g Hg Hin.
    - destruct (inv_covered y (at_level_key P y s Hy)) as (g2 & Hg2 & Hy2).
      assert (Hs1 : In s (snd g)).
      { apply (inv_series P gs Hinv g s Hg). exists x. auto. }
      assert (Hs2 : In s (snd g2)).
      { apply (inv_series P gs Hinv g2 s Hg2). exists y. auto. }
      rewrite (inv_disj P gs Hinv g g2 s Hg Hg2 Hs1 Hs2). exact Hy2.
    - exact Hin.
    - auto.
  Qed.

  (** ** the groups are exactly the reachability classes: for a level [h] of a
      group, the group's levels are the levels linked to [h] *)
  Theorem inv_group_is_class g h :
    In g gs -> In h (fst g) -> forall h', In h' (fst g) <-> level_linked P h h'.
  Proof.
    intros Hg Hh h'. split.
    - intros Hh'. exact (inv_sound P gs Hinv g h h' Hg Hh Hh').
    - intros Hl. exact (inv_closed h h' Hl g Hg Hh).
  Qed.

  (** two processed levels are in the same group iff they are linked *)
  Theorem inv_same_group_iff_linked g1 g2 h1 h2 :
    In g1 gs -> In g2 gs -> In h1 (fst g1) -> In h2 (fst g2) ->
    (g1 = g2 <-> level_linked P h1 h2).
  Proof.
    intros Hg1 Hg2 Hh1 Hh2. split.
    - intros ->. exact (inv_sound P gs Hinv g2 h1 h2 Hg2 Hh1 Hh2).
    - intros Hl. pose proof (inv_closed h1 h2 Hl g1 Hg1 Hh1) as Hin.
      exact (inv_one_group g1 g2 h2 Hg1 Hg2 Hin Hh2).
  Qed.
End InvFacts.

(** A reachability class: the levels linked to some level of the mapping. *)
Definition reach_class (P : list (Z * list nat)) (ks : list Z) : Prop :=
  exists h0, In h0 (map fst P) /\ forall h, In h ks <-> level_linked P h0 h.

Lemma group_is_reach_class P gs g :
  cc_inv P gs -> NoDup (map fst P) -> In g gs -> reach_class P (fst g).
Proof.
  intros Hinv Hnd Hg. destruct (fst g) as [|h0 t] eqn:Eg.
  - exfalso. exact (inv_nonempty P gs Hinv g Hg Eg).
  - exists h0. assert (Hh0 : In h0 (fst g)) by (rewrite Eg; left; reflexivity).
    split; [exact (inv_group_keys_processed P gs Hinv g h0 Hg Hh0)|].
    intros h. rewrite <- Eg. exact (inv_group_is_class P gs Hinv g h0 Hg Hh0 h).
Qed.

Lemma reach_class_is_group P gs ks :
  cc_inv P gs -> NoDup (map fst P) -> reach_class P ks -> NoDup ks ->
  exists g, In g gs /\ Permutation ks (fst g).
Proof.
  intros Hinv Hnd (h0 & Hh0 & Hks) Hndk.
  destruct (inv_covered P gs Hinv h0 Hh0) as (g & Hg & Hin).
  exists g. split; [exact Hg|].
  apply NoDup_Permutation; [exact Hndk|exact (inv_group_keys_nodup P gs Hinv Hnd g Hg)|].
  intros h. rewrite Hks. symmetry. exact (inv_group_is_class P gs Hinv g h0 Hg Hin h).
Qed.

(** series sets stay duplicate-free when the input's are *)
Lemma cc_step_series_nodup gs h ser :
  NoDup ser -> (forall g, In g gs -> NoDup (snd g)) ->
  forall g, In g (cc_step gs h ser) -> NoDup (snd g).
Proof.
  intros Hs Hgs g Hg. unfold cc_step in Hg. cbv zeta in Hg. apply in_app_iff in Hg.
  destruct Hg as [Hg|[<-|[]]].
  - apply filter_In in Hg. apply Hgs. tauto.
  - simpl. apply fold_union_NoDup. exact Hs.
Qed.

Lemma cc_groups_series_nodup sah :
  (forall h ss, In (h, ss) sah -> NoDup ss) ->
  forall g, In g (cc_groups sah) -> NoDup (snd g).
Proof.
  unfold cc_groups.
  assert (Hgen : forall rest gs, (forall h ss, In (h, ss) rest -> NoDup ss) ->
            (forall g, In g gs -> NoDup (snd g)) ->
            forall g, In g (fold_left (fun gs0 p => cc_step gs0 (fst p) (snd p)) rest gs) -> NoDup (snd g)).
  { induction rest as [|[h ser] rest IH]; intros gs Hr Hgs; simpl; [exact Hgs|].
    apply IH.
    - intros h' ss Hin. apply (Hr h' ss). right. exact Hin.
    - apply cc_step_series_nodup; [|exact Hgs]. apply (Hr h ser). left. reflexivity. }
  intros H. apply Hgen; [exact H|]. intros g [].
Qed.

(** * (2) [components]: the classes, largest first, stable *)

Lemma insert_by_perm {A} (key : A -> Z) x l : Permutation (insert_by key x l) (x :: l).
Proof.
  induction l as [|y t IH]; simpl; [reflexivity|].
  destruct (key x <=? key y)%Z; [reflexivity|].
  rewrite IH. apply perm_swap.
Qed.

Lemma sort_by_perm {A} (key : A -> Z) l : Permutation (sort_by key l) l.
Proof.
  induction l as [|x t IH]; simpl; [constructor|].
  rewrite insert_by_perm. apply perm_skip. exact IH.
Qed.

Lemma insert_by_sorted {A} (key : A -> Z) x l :
  StronglySorted (fun a b => (key a <= key b)%Z) l ->
  StronglySorted (fun a b => (key a <= key b)%Z) (insert_by key x l).
Proof.
  induction l as [|y t IH]; simpl; intros Hs.
  - constructor; [constructor|constructor].
  - inversion Hs as [|y' t' Ht Hall]; subst.
    destruct (key x <=? key y)%Z eqn:Hc.
    + apply Z.leb_le in Hc. constructor; [exact Hs|]. constructor; [exact Hc|].
      rewrite Forall_forall in Hall |- *. intros z Hz. specialize (Hall z Hz). lia.
    + apply Z.leb_gt in Hc. constructor; [apply IH; exact Ht|].
      rewrite Forall_forall in Hall |- *. intros z Hz.
      apply (Permutation_in _ (insert_by_perm key x t)) in Hz. destruct Hz as [<-|Hz].
      * lia.
      * exact (Hall z Hz).
Qed.

Lemma sort_by_sorted {A} (key : A -> Z) l :
  StronglySorted (fun a b => (key a <= key b)%Z) (sort_by key l).
Proof.
  induction l as [|x t IH]; simpl; [constructor|]. apply insert_by_sorted. exact IH.
Qed.

(** stability: elements with equal keys keep their order *)
Lemma insert_by_stable {A} (key : A -> Z) k x l :
  filter (fun a => Z.eqb (key a) k) (insert_by key x l)
  = filter (fun a => Z.eqb (key a) k) (x :: l).
Proof.
  induction l as [|y t IH]; [reflexivity|]. simpl insert_by.
  destruct (key x <=? key y)%Z eqn:Hc; [reflexivity|]. apply Z.leb_gt in Hc.
  simpl. simpl in IH. rewrite IH.
  destruct (Z.eqb (key x) k) eqn:Ex; destruct (Z.eqb (key y) k) eqn:Ey; try reflexivity.
  apply Z.eqb_eq in Ex. apply Z.eqb_eq in Ey. lia.
Qed.

Lemma sort_by_stable {A} (key : A -> Z) k l :
  filter (fun a => Z.eqb (key a) k) (sort_by key l) = filter (fun a => Z.eqb (key a) k) l.
Proof.
  induction l as [|x t IH]; [reflexivity|]. simpl sort_by. rewrite insert_by_stable.
  simpl. rewrite IH. reflexivity.
Qed.

Definition by_length_desc (a b : list Z) : Prop := (length b <= length a)%nat.

Theorem components_spec sah :
  Permutation (components sah) (map fst (cc_groups sah)) /\
  StronglySorted by_length_desc (components sah) /\
  (forall n, filter (fun ks => Nat.eqb (length ks) n) (components sah)
             = filter (fun ks => Nat.eqb (length ks) n) (map fst (cc_groups sah))).
Proof.
  unfold components. set (l := map fst (cc_groups sah)).
  set (key := fun ks : list Z => (- Z.of_nat (length ks))%Z).
  split; [apply sort_by_perm|]. split.
  - pose proof (sort_by_sorted key l) as Hs.
    induction Hs as [|a t Ht IH Hall]; [constructor|].
    constructor; [exact IH|]. rewrite Forall_forall in Hall |- *.
    intros b Hb. specialize (Hall b Hb). unfold key in Hall. unfold by_length_desc. lia.
  - intros n. pose proof (sort_by_stable key (- Z.of_nat n)%Z l) as Hst.
    assert (Hext : forall l0 : list (list Z),
               filter (fun ks => Nat.eqb (length ks) n) l0
               = filter (fun a => Z.eqb (key a) (- Z.of_nat n)%Z) l0).
    { intros l0. apply filter_ext. intros ks. unfold key.
      destruct (Nat.eqb (length ks) n) eqn:E1; destruct (Z.eqb _ _) eqn:E2; try reflexivity.
      - apply Nat.eqb_eq in E1. apply Z.eqb_neq in E2. lia.
      - apply Nat.eqb_neq in E1. apply Z.eqb_eq in E2. lia. }
    rewrite !Hext. exact Hst.
Qed.

(** the head of [components] is a reachability class with the most levels, and
    among the classes of that size the one whose group comes first in the
    dict [groups] (insertion order) *)
Theorem components_head sah main rest :
  NoDup (map fst sah) -> components sah = main :: rest ->
  (exists g, In g (cc_groups sah) /\ fst g = main) /\
  reach_class sah main /\ NoDup main /\
  (forall ks, In ks (map fst (cc_groups sah)) -> (length ks <= length main)%nat) /\
  (forall ks, reach_class sah ks -> NoDup ks -> (length ks <= length main)%nat) /\
  hd_error (filter (fun ks => Nat.eqb (length ks) (length main)) (map fst (cc_groups sah)))
  = Some main.
Proof.
  intros Hnd Hc. destruct (components_spec sah) as (Hperm & Hsort & Hstab).
  pose proof (cc_groups_inv sah Hnd) as Hinv.
  assert (Hmain : In main (map fst (cc_groups sah))).
  { apply (Permutation_in _ Hperm). rewrite Hc. left. reflexivity. }
  apply in_map_iff in Hmain. destruct Hmain as (g & Hfg & Hg).
  assert (Hmax : forall ks, In ks (map fst (cc_groups sah)) -> (length ks <= length main)%nat).
  { intros ks Hks. apply (Permutation_in _ (Permutation_sym Hperm)) in Hks.
    rewrite Hc in Hks, Hsort. inversion Hsort as [|a t _ Hall]; subst.
    destruct Hks as [<-|Hks]; [lia|]. rewrite Forall_forall in Hall. exact (Hall ks Hks). }
  split; [exists g; auto|]. split.
  { rewrite <- Hfg. exact (group_is_reach_class sah _ g Hinv Hnd Hg). }
  split.
  { rewrite <- Hfg. exact (inv_group_keys_nodup sah _ Hinv Hnd g Hg). }
  split; [exact Hmax|]. split.
  - intros ks Hks Hndk.
    destruct (reach_class_is_group sah _ ks Hinv Hnd Hks Hndk) as (g' & Hg' & Hp).
    rewrite (Permutation_length Hp). apply Hmax. apply in_map. exact Hg'.
  - rewrite <- (Hstab (length main)). rewrite Hc. simpl. rewrite Nat.eqb_refl. reflexivity.
Qed.

(** * (3) the main body fitted by [offsets_from_mapping] *)

(** interval [s] crosses level [h] together with at least one other interval *)
Definition crosses (hm : head_mapping) (h : Z) (s : nat) : Prop :=
  exists cs, In (h, cs) hm /\ (1 < length cs)%nat /\ In s (map fst cs).

Lemma series_at_head_in hm h ss :
  In (h, ss) (series_at_head hm)
  <-> exists cs, In (h, cs) hm /\ (1 < length cs)%nat /\ ss = map fst cs.
Proof.
  unfold series_at_head. rewrite in_map_iff. split.
  - intros ([h' cs] & Heq & Hin). apply filter_In in Hin. destruct Hin as (Hin & Hlen).
    simpl in Heq, Hlen. inversion Heq; subst. apply Nat.ltb_lt in Hlen. exists cs. auto.
  - intros (cs & Hin & Hlen & ->). exists (h, cs). split; [reflexivity|].
    apply filter_In. split; [exact Hin|]. simpl. apply Nat.ltb_lt. exact Hlen.
Qed.

Lemma at_level_sah hm h s : at_level (series_at_head hm) h s <-> crosses hm h s.
Proof.
  unfold at_level, crosses. split.
  - intros (ss & Hin & Hs). apply series_at_head_in in Hin. destruct Hin as (cs & Hin & Hlen & ->).
    exists cs. auto.
  - intros (cs & Hin & Hlen & Hs). exists (map fst cs). split; [|exact Hs].
    apply series_at_head_in. exists cs. auto.
Qed.

Lemma NoDup_map_filter {A B} (f : A -> B) (p : A -> bool) l :
  NoDup (map f l) -> NoDup (map f (filter p l)).
Proof.
  induction l as [|a t IH]; simpl; intros H; [constructor|].
  inversion H as [|x l' Hn Ht]; subst. destruct (p a); simpl; [|exact (IH Ht)].
  constructor; [|exact (IH Ht)]. intros Hin. apply Hn.
  apply in_map_iff in Hin. destruct Hin as (b & Hb & Hin). apply filter_In in Hin.
  rewrite <- Hb. apply in_map. tauto.
Qed.

Lemma series_at_head_keys hm : NoDup (map fst hm) -> NoDup (map fst (series_at_head hm)).
Proof.
  intros H. unfold series_at_head. rewrite map_map. simpl.
  apply (NoDup_map_filter fst). exact H.
Qed.

Lemma filter_all_true {A} (p : A -> bool) l : (forall x, In x l -> p x = true) -> filter p l = l.
Proof.
  induction l as [|a t IH]; simpl; intros H; [reflexivity|].
  rewrite (H a (or_introl eq_refl)). f_equal. apply IH. intros x Hx. apply H. right. exact Hx.
Qed.

Lemma entries_of_in (m : head_mapping) c :
  In c (entries_of m) <-> exists h cs v, In (h, cs) m /\ In (e_series c, v) cs /\ e_head c = h /\ e_val c = v.
Proof.
  unfold entries_of. rewrite in_flat_map. split.
  - intros ([h cs] & Hin & Hc). apply in_map_iff in Hc. destruct Hc as ([s v] & <- & Hsv).
    simpl. exists h, cs, v. auto.
  - intros (h & cs & v & Hin & Hsv & Hh & Hv). exists (h, cs). split; [exact Hin|].
    apply in_map_iff. exists (e_series c, v). split; [|exact Hsv].
    destruct c as [ch cs' cv]. simpl in *. subst. reflexivity.
Qed.

Lemma entries_of_cross (m : head_mapping) h cs s :
  In (h, cs) m -> In s (map fst cs) ->
  exists c, In c (entries_of m) /\ e_head c = h /\ e_series c = s.
Proof.
  intros Hin Hs. apply in_map_iff in Hs. destruct Hs as ([s' v] & Hs & Hsv). simpl in Hs. subst s'.
  exists {| e_head := h; e_series := s; e_val := v |}. split; [|auto].
  apply entries_of_in. exists h, cs, v. simpl. auto.
Qed.

Lemma entries_of_series (m : head_mapping) s :
  In s (map e_series (entries_of m)) <-> exists h cs, In (h, cs) m /\ In s (map fst cs).
Proof.
  rewrite in_map_iff. split.
  - intros (c & <- & Hc). apply entries_of_in in Hc.
    destruct Hc as (h & cs & v & Hin & Hsv & _ & _). exists h, cs. split; [exact Hin|].
    apply (in_map fst) in Hsv. exact Hsv.
  - intros (h & cs & Hin & Hs). destruct (entries_of_cross m h cs s Hin Hs) as (c & Hc & _ & Hsc).
    exists c. auto.
Qed.

Section MainBody.
  Variable hm : head_mapping.
  Hypothesis Hnd : NoDup (map fst hm).
  Let sah := series_at_head hm.
  Variables (main : list Z) (rest : list (list Z)).
  Hypothesis Hc : components sah = main :: rest.
  Let sub := filter (fun p : Z * list crossing => mem_Z (fst p) main) hm.

  Let Hnds : NoDup (map fst sah) := series_at_head_keys hm Hnd.

  Lemma main_class : reach_class sah main.
  Proof. exact (proj1 (proj2 (components_head sah main rest Hnds Hc))). Qed.

  Lemma main_nodup : NoDup main.
  Proof. exact (proj1 (proj2 (proj2 (components_head sah main rest Hnds Hc)))). Qed.

  Lemma main_closed h h' : In h main -> level_linked sah h h' -> In h' main.
  Proof.
    destruct main_class as (h0 & _ & Hks). intros Hh Hl. apply Hks.
    apply rt_trans with h; [apply Hks; exact Hh|exact Hl].
  Qed.

  Lemma main_linked h h' : In h main -> In h' main -> level_linked sah h h'.
  Proof.
    destruct main_class as (h0 & _ & Hks). intros Hh Hh'.
    apply rt_trans with h0; [apply level_linked_sym; apply Hks; exact Hh|apply Hks; exact Hh'].
  Qed.

  Lemma main_multi h : In h main -> exists cs, In (h, cs) hm /\ (1 < length cs)%nat.
  Proof.
    intros Hh. destruct main_class as (h0 & Hh0 & Hks).
    assert (Hin : In h (map fst sah)).
    { apply (level_linked_key sah h0 h); [apply Hks; exact Hh|exact Hh0]. }
    apply in_map_iff in Hin. destruct Hin as ([h' ss] & Heq & Hin). simpl in Heq. subst h'.
    apply series_at_head_in in Hin. destruct Hin as (cs & Hin & Hlen & _). exists cs. auto.
  Qed.

  Lemma sub_in h cs : In (h, cs) sub <-> In (h, cs) hm /\ In h main.
  Proof. unfold sub. rewrite filter_In. simpl. rewrite mem_Z_In. tauto. Qed.

  Lemma sub_multi p : In p sub -> (1 < length (snd p))%nat.
  Proof.
    destruct p as [h cs]. intros Hin. apply sub_in in Hin. destruct Hin as (Hin & Hh).
    destruct (main_multi h Hh) as (cs' & Hin' & Hlen).
    rewrite (NoDup_keys_unique hm h cs cs' Hnd Hin Hin'). exact Hlen.
  Qed.

  (** no level of the main body is dropped by find_offsets *)
  Lemma drop_single_sub : drop_single sub = sub.
  Proof.
    unfold drop_single. apply filter_all_true. intros p Hp. pose proof (sub_multi p Hp) as Hl.
    apply negb_true_iff. apply Nat.eqb_neq. lia.
  Qed.

  Lemma sub_levels_in h : In h (map fst sub) <-> In h main.
  Proof.
    rewrite in_map_iff. split.
    - intros ([h' cs] & Heq & Hin). simpl in Heq. subst h'. apply sub_in in Hin. tauto.
    - intros Hh. destruct (main_multi h Hh) as (cs & Hin & _). exists (h, cs). split; [reflexivity|].
      apply sub_in. auto.
  Qed.

  Lemma sub_levels_nodup : NoDup (map fst sub).
  Proof. unfold sub. apply NoDup_map_filter. exact Hnd. Qed.

  Lemma sub_levels_perm : Permutation (map fst sub) main.
  Proof. apply NoDup_Permutation; [exact sub_levels_nodup|exact main_nodup|exact sub_levels_in]. Qed.

  (** the intervals with an entry are those crossing a level of the main body
      (together with another interval) *)
  Lemma sub_series s :
    In s (map e_series (entries_of sub)) <-> exists h, In h main /\ crosses hm h s.
  Proof.
    rewrite entries_of_series. split.
    - intros (h & cs & Hin & Hs). pose proof (sub_multi (h, cs) Hin) as Hlen.
      apply sub_in in Hin. destruct Hin as (Hin & Hh). exists h. split; [exact Hh|].
      exists cs. auto.
    - intros (h & Hh & cs & Hin & _ & Hs). exists h, cs. split; [|exact Hs]. apply sub_in. auto.
  Qed.

  Lemma sub_entry h s :
    In h main -> crosses hm h s ->
    exists c, In c (entries_of sub) /\ e_head c = h /\ e_series c = s.
  Proof.
    intros Hh (cs & Hin & _ & Hs). apply (entries_of_cross sub h cs s); [|exact Hs].
    apply sub_in. auto.
  Qed.

  Lemma same_level_linked h s s' :
    In h main -> crosses hm h s -> crosses hm h s' -> linked (entries_of sub) s s'.
  Proof.
    intros Hh Hs Hs'. destruct (sub_entry h s Hh Hs) as (c & Hc1 & Hc2 & Hc3).
    destruct (sub_entry h s' Hh Hs') as (c' & Hc1' & Hc2' & Hc3').
    exists c, c'. repeat split; try assumption. congruence.
  Qed.

  (** a chain of levels of the main body gives a chain of intervals *)
  Lemma level_chain_to_series_chain h h' :
    level_linked sah h h' -> In h main ->
    forall s s', crosses hm h s -> crosses hm h' s' ->
      clos_refl_trans nat (linked (entries_of sub)) s s'.
  Proof.
    intros Hl. induction Hl as [x y (t & Hx & Hy)|x|x y z Hxy IH1 Hyz IH2]; intros Hin s s' Hs Hs'.
    - apply at_level_sah in Hx. apply at_level_sah in Hy.
      assert (Hyin : In y main).
      { apply (main_closed x y Hin). apply rt_step. exists t. split; apply at_level_sah; assumption. }
      apply rt_trans with t; apply rt_step.
      + exact (same_level_linked x s t Hin Hs Hx).
      + exact (same_level_linked y t s' Hyin Hy Hs').
    - apply rt_step. exact (same_level_linked x s s' Hin Hs Hs').
    - assert (Hyin : In y main) by exact (main_closed x y Hin Hxy).
      destruct (main_multi y Hyin) as (cs & Hcs & Hlen).
      destruct cs as [|[t v] cs']; [simpl in Hlen; lia|].
      assert (Ht : crosses hm y t).
      { exists ((t, v) :: cs'). split; [exact Hcs|]. split; [exact Hlen|]. left. reflexivity. }
      apply rt_trans with t; [exact (IH1 Hin s t Hs Ht)|exact (IH2 Hyin t s' Ht Hs')].
  Qed.

  (** ** (3d) the overlap graph handed to find_offsets is connected *)
  Theorem main_body_connected : connected (entries_of (drop_single sub)).
  Proof.
    rewrite drop_single_sub. intros s s' Hs Hs'.
    unfold ids in Hs, Hs'. apply nodup_In in Hs. apply nodup_In in Hs'.
    apply sub_series in Hs. apply sub_series in Hs'.
    destruct Hs as (h & Hh & Hcs). destruct Hs' as (h' & Hh' & Hcs').
    exact (level_chain_to_series_chain h h' (main_linked h h' Hh Hh') Hh s s' Hcs Hcs').
  Qed.
End MainBody.

(** the sub-mapping get_series_time_offsets hands to find_offsets
    (split_mapping_by_keys with the first component) *)
Definition main_sub (hm : head_mapping) (main : list Z) : head_mapping :=
  filter (fun p : Z * list crossing => mem_Z (fst p) main) hm.

Lemma offsets_from_mapping_inv hm sids offs levels :
  offsets_from_mapping hm = Ok (sids, offs, levels) ->
  exists main rest, components (series_at_head hm) = main :: rest /\
    find_offsets (main_sub hm main) = Ok (sids, offs) /\
    levels = map fst (drop_single (main_sub hm main)).
Proof.
  unfold offsets_from_mapping. destruct (components (series_at_head hm)) as [|main rest]; [discriminate|].
  fold (main_sub hm main). destruct (find_offsets (main_sub hm main)) as [[i o]|e] eqn:Hfo; [|discriminate].
  intros H. inversion H; subst. exists main, rest. auto.
Qed.

(** ** (1)+(2) in one statement *)
Theorem components_are_reachability_classes (sah : list (Z * list nat)) :
  NoDup (map fst sah) ->
  let gs := cc_groups sah in
  (* the key tuples partition the levels *)
  Permutation (flat_map fst gs) (map fst sah) /\ NoDup (flat_map fst gs) /\
  (forall g, In g gs -> fst g <> []) /\
  (* the series sets are pairwise disjoint *)
  (forall g1 g2 s, In g1 gs -> In g2 gs -> In s (snd g1) -> In s (snd g2) -> g1 = g2) /\
  (* each is the union of the series of the group's levels *)
  (forall g s, In g gs -> (In s (snd g) <-> exists h, In h (fst g) /\ at_level sah h s)) /\
  (* a group = the levels linked to any one of its levels *)
  (forall g h, In g gs -> In h (fst g) -> forall h', In h' (fst g) <-> level_linked sah h h') /\
  (* same group iff linked (soundness and completeness) *)
  (forall g1 g2 h1 h2, In g1 gs -> In g2 gs -> In h1 (fst g1) -> In h2 (fst g2) ->
     (g1 = g2 <-> level_linked sah h1 h2)) /\
  (* components = these classes, longest first, ties in dict order *)
  Permutation (components sah) (map fst gs) /\
  StronglySorted by_length_desc (components sah) /\
  (forall n, filter (fun ks => Nat.eqb (length ks) n) (components sah)
             = filter (fun ks => Nat.eqb (length ks) n) (map fst gs)) /\
  (forall ks, NoDup ks ->
     (reach_class sah ks <-> exists ks', In ks' (components sah) /\ Permutation ks ks')).
Proof.
  intros Hnd gs. pose proof (cc_groups_inv sah Hnd) as Hinv. fold gs in Hinv.
  destruct (components_spec sah) as (Hperm & Hsort & Hstab). fold gs in Hperm, Hstab.
  split; [exact (inv_keys sah gs Hinv)|].
  split; [exact (inv_keys_nodup sah gs Hinv Hnd)|].
  split; [exact (inv_nonempty sah gs Hinv)|].
  split; [exact (inv_disj sah gs Hinv)|].
  split; [exact (inv_series sah gs Hinv)|].
  split; [intros g h; exact (inv_group_is_class sah gs Hinv g h)|].
  split; [exact (inv_same_group_iff_linked sah gs Hinv Hnd)|].
  split; [exact Hperm|]. split; [exact Hsort|]. split; [exact Hstab|].
  intros ks Hndk. split.
  - intros Hrc. destruct (reach_class_is_group sah gs ks Hinv Hnd Hrc Hndk) as (g & Hg & Hp).
    exists (fst g). split; [|exact Hp].
    apply (Permutation_in _ (Permutation_sym Hperm)). apply in_map. exact Hg.
  - intros (ks' & Hin & Hp). apply (Permutation_in _ Hperm) in Hin.
    apply in_map_iff in Hin. destruct Hin as (g & <- & Hg).
    destruct (group_is_reach_class sah gs g Hinv Hnd Hg) as (h0 & Hh0 & Hks).
    exists h0. split; [exact Hh0|]. intros h. rewrite <- Hks. split.
    + apply Permutation_in. exact Hp.
    + apply Permutation_in. apply Permutation_sym. exact Hp.
Qed.

(** ** (3a-c) what is fitted is exactly one reachability class of maximal level
    count; every interval of it is included, no other gets an offset *)
Theorem main_body_complete_and_exclusive (hm : head_mapping) sids offs levels :
  NoDup (map fst hm) ->
  offsets_from_mapping hm = Ok (sids, offs, levels) ->
  let sah := series_at_head hm in
  (* (a) the levels kept: one class, of maximal level count, levels crossed by >= 2 intervals *)
  NoDup levels /\ reach_class sah levels /\
  (exists rest, exists main, components sah = main :: rest /\ Permutation levels main) /\
  (forall ks, reach_class sah ks -> NoDup ks -> (length ks <= length levels)%nat) /\
  (forall h, In h levels -> exists cs, In (h, cs) hm /\ (1 < length cs)%nat) /\
  (* (b)+(c) the intervals given an offset are exactly those crossing one of these levels *)
  (forall s, In s sids <-> exists h, In h levels /\ crosses hm h s) /\
  (* (b) every interval linked to the main body by a chain of overlaps is included *)
  (forall h0 h s, In h0 levels -> level_linked sah h0 h -> crosses hm h s -> In s sids) /\
  (* (c) every included interval is linked to every level of the main body *)
  (forall s, In s sids -> forall h0, In h0 levels ->
     exists h, level_linked sah h0 h /\ crosses hm h s).
Proof.
  intros Hnd Hofm sah.
  destruct (offsets_from_mapping_inv hm sids offs levels Hofm) as (main & rest & Hc & Hfo & Hlev).
  fold sah in Hc.
  pose proof (series_at_head_keys hm Hnd) as Hnds. fold sah in Hnds.
  pose proof (drop_single_sub hm Hnd main rest Hc) as Hds. fold (main_sub hm main) in Hds.
  rewrite Hds in Hlev.
  pose proof (sub_levels_in hm Hnd main rest Hc) as Hlin. fold (main_sub hm main) in Hlin.
  rewrite <- Hlev in Hlin.
  pose proof (sub_levels_perm hm Hnd main rest Hc) as Hperm. fold (main_sub hm main) in Hperm.
  rewrite <- Hlev in Hperm.
  assert (Hsids : forall s, In s sids <-> exists h, In h levels /\ crosses hm h s).
  { intros s. destruct (find_offsets_sound _ _ _ Hfo) as (-> & _). rewrite Hds.
    rewrite sorted_ids_in. pose proof (sub_series hm Hnd main rest Hc s) as Hss.
    fold (main_sub hm main) in Hss. rewrite Hss. split.
    - intros (h & Hh & Hcr). exists h. split; [apply Hlin; exact Hh|exact Hcr].
    - intros (h & Hh & Hcr). exists h. split; [apply Hlin; exact Hh|exact Hcr]. }
  split. { subst levels. exact (sub_levels_nodup hm Hnd main). }
  split.
  { destruct (main_class hm Hnd main rest Hc) as (h0 & Hh0 & Hks). exists h0.
    split; [exact Hh0|]. intros h. rewrite Hlin. apply Hks. }
  split. { exists rest, main. auto. }
  split.
  { intros ks Hks Hndk. rewrite (Permutation_length Hperm).
    destruct (components_head sah main rest Hnds Hc) as (_ & _ & _ & _ & Hmax & _).
    exact (Hmax ks Hks Hndk). }
  split.
  { intros h Hh. apply Hlin in Hh. exact (main_multi hm Hnd main rest Hc h Hh). }
  split; [exact Hsids|]. split.
  - intros h0 h s Hh0 Hl Hcr. apply Hsids. exists h. split; [|exact Hcr].
    apply Hlin. apply Hlin in Hh0. exact (main_closed hm Hnd main rest Hc h0 h Hh0 Hl).
  - intros s Hs h0 Hh0. apply Hsids in Hs. destruct Hs as (h & Hh & Hcr). exists h.
    split; [|exact Hcr]. apply Hlin in Hh. apply Hlin in Hh0.
    exact (main_linked hm Hnd main rest Hc h0 h Hh0 Hh).
Qed.

(** ** (3d) the overlap graph of the entries handed to find_offsets is
    connected, so the uniqueness theorems apply to what the code computes *)
Theorem main_body_connected_graph (hm : head_mapping) sids offs levels :
  NoDup (map fst hm) ->
  offsets_from_mapping hm = Ok (sids, offs, levels) ->
  exists main rest,
    components (series_at_head hm) = main :: rest /\
    find_offsets (main_sub hm main) = Ok (sids, offs) /\
    levels = map fst (drop_single (main_sub hm main)) /\
    connected (entries_of (drop_single (main_sub hm main))).
Proof.
  intros Hnd Hofm.
  destruct (offsets_from_mapping_inv hm sids offs levels Hofm) as (main & rest & Hc & Hfo & Hlev).
  exists main, rest. split; [exact Hc|]. split; [exact Hfo|]. split; [exact Hlev|].
  exact (main_body_connected hm Hnd main rest Hc).
Qed.

(** hence, with no connectivity hypothesis left: the offsets returned for the
    main body minimise the spread, any other minimiser differs from them by one
    common constant, and any assignment with zero residual sums yields the same
    master curve measured from any reference level *)
Theorem main_body_offsets_unique (hm : head_mapping) sids offs levels :
  NoDup (map fst hm) ->
  offsets_from_mapping hm = Ok (sids, offs, levels) ->
  exists main, find_offsets (main_sub hm main) = Ok (sids, offs) /\
    let E := entries_of (drop_single (main_sub hm main)) in
    let x := assignment sids offs in
    (forall s, In s sids <-> In s (ids E)) /\
    (forall s, resid_sum E x s == 0)%Q /\
    (forall y, objective E x <= objective E y)%Q /\
    (forall y, (objective E y == objective E x)%Q ->
       forall s s', In s sids -> In s' sids -> (y s - x s == y s' - x s')%Q) /\
    (forall y, (forall s, In s sids -> resid_sum E y s == 0)%Q ->
       forall h h' c c', In c (at_head E h) -> In c' (at_head E h') ->
         (head_mean E y h - head_mean E y h' == head_mean E x h - head_mean E x h')%Q).
Proof.
  intros Hnd Hofm.
  destruct (main_body_connected_graph hm sids offs levels Hnd Hofm)
    as (main & rest & Hc & Hfo & Hlev & Hconn).
  exists main. split; [exact Hfo|]. intros E x.
  destruct (find_offsets_sound _ _ _ Hfo) as (Hsids & Hres & Hmin). fold E x in Hsids, Hres, Hmin.
  assert (Hids : forall s, In s sids <-> In s (ids E)).
  { intros s. rewrite Hsids, sorted_ids_in. unfold ids. rewrite nodup_In. tauto. }
  split; [exact Hids|]. split; [exact Hres|]. split; [exact Hmin|]. split.
  - intros y Hobj s s' Hs Hs'. apply Hids in Hs. apply Hids in Hs'.
    exact (minimisers_differ_by_shift E x y Hconn (fun s0 _ => Hres s0) Hobj s s' Hs Hs').
  - intros y Hy h h' c c' Hcin Hcin'.
    assert (Hy' : forall s, In s (ids E) -> (resid_sum E y s == 0)%Q).
    { intros s Hs. apply Hy. apply Hids. exact Hs. }
    exact (master_choice_free E x y Hconn (fun s0 _ => Hres s0) Hy' h h' c c' Hcin Hcin').
Qed.
