(** Data level of the second sentence of C02: when no rise is equally close in
    start to two of its candidate storms, the recorded matching does not depend
    on the order in which storms are considered, and every storm gets the best
    rise (earliest in its own proposal order) that any stable matching could
    give it. *)
From Spowtd Require Import Model.Matching Proofs.RunsSpec Proofs.MatchingSpec Proofs.MatchStormsSpec
  Proofs.ClassifySpec Proofs.OptimalSpec.
From Coq Require Import Lia Permutation.

Section SortPerm.
  Context {A : Type} (key : A -> Z).
  Lemma insert_by_perm x l : Permutation (insert_by key x l) (x :: l).
  Proof.
    induction l as [|a t IH]; simpl; [reflexivity|].
    destruct (key x <=? key a)%Z; [reflexivity|].
    rewrite IH. apply perm_swap.
  Qed.
  Lemma sort_by_perm l : Permutation (sort_by key l) l.
  Proof.
    induction l as [|a t IH]; simpl; [reflexivity|]. rewrite insert_by_perm. constructor. exact IH.
  Qed.
End SortPerm.

Section Data.
  Variables heavy jumpf : list bool.
  Let storms := true_runs heavy.
  Let rises := rises_of jumpf.
  Let cands := all_candidates storms rises.

  Lemma filter_fst_nodup (f : nat * nat -> bool) l : NoDup (map fst l) -> NoDup (map fst (filter f l)).
  Proof.
    induction l as [|a t IH]; simpl; intros Hd; [constructor|].
    inversion Hd as [|x xs Hn Hd']; subst. destruct (f a); simpl; [|apply IH; exact Hd'].
    constructor; [|apply IH; exact Hd']. intros Hin. apply Hn.
    apply in_map_iff in Hin. destruct Hin as (y & Hy & Hin). apply filter_In in Hin.
    rewrite <- Hy. apply in_map. tauto.
  Qed.

  Lemma cands_lists_nodup s : NoDup (O cands s).
  Proof.
    unfold O. unfold cands, storms, rises. rewrite cands_lookup.
    destruct (alookup s (true_runs heavy)) as [e|]; [|constructor].
    unfold storm_candidates.
    apply (Permutation_NoDup (l := map fst (filter (overlaps (s, e)) (rises_of jumpf)))).
    - apply Permutation_map. rewrite <- (Permutation_rev (sort_by _ _)). symmetry. apply sort_by_perm.
    - apply filter_fst_nodup. apply rises_starts_nodup.
  Qed.

  (** no rise is equally close in start to two of its candidate storms *)
  Definition no_rise_ties : Prop :=
    forall a b s e s' e', In (a, b) rises -> In (s, e) storms -> In (s', e') storms ->
      overlaps (s, e) (a, b) = true -> overlaps (s', e') (a, b) = true -> s <> s' ->
      start_pref a s <> start_pref a s'.

  Lemma strict_of_no_ties : no_rise_ties ->
    forall j s s', In j (O cands s) -> In j (O cands s') -> s <> s' -> start_pref j s <> start_pref j s'.
  Proof.
    intros Hnt j s s' Hs Hs' Hne. unfold O, cands, storms, rises in Hs, Hs'. rewrite cands_lookup in Hs, Hs'.
    destruct (alookup s (true_runs heavy)) as [e|] eqn:Es; [|destruct Hs].
    destruct (alookup s' (true_runs heavy)) as [e'|] eqn:Es'; [|destruct Hs'].
    apply storm_candidates_in in Hs. apply storm_candidates_in in Hs'.
    destruct Hs as (b & Hb & Hov). destruct Hs' as (b' & Hb' & Hov').
    assert (b' = b).
    { apply (rises_lookup jumpf) in Hb. apply (rises_lookup jumpf) in Hb'. congruence. }
    subst b'.
    apply (Hnt j b s e s' e' Hb); try assumption; apply (storms_lookup heavy); assumption.
  Qed.

  Theorem ms_schedule_independent : no_rise_ties ->
    forall sched1 sched2 r1 r2,
      match_storms_flags heavy jumpf sched1 = Ok r1 -> match_storms_flags heavy jumpf sched2 = Ok r2 ->
      forall pr, In pr r1 <-> In pr r2.
  Proof.
    intros Hnt sched1 sched2 r1 r2 H1 H2.
    pose proof (cands_keys_nodup heavy jumpf) as Hk.
    unfold match_storms_flags in H1, H2. fold storms rises cands in H1, H2.
    destruct (stable_matching start_pref cands sched1) as [m1|] eqn:E1; [|discriminate].
    destruct (stable_matching start_pref cands sched2) as [m2|] eqn:E2; [|discriminate].
    simpl in H1, H2. inversion H1; subst r1. inversion H2; subst r2.
    pose proof (schedule_independent start_pref cands Hk cands_lists_nodup (strict_of_no_ties Hnt)
                  sched1 sched2 m1 m2 E1 E2) as Hiff.
    (* both m1 and m2 have distinct keys *)
    destruct (stable_matching_total start_pref cands Hk sched1) as (st1 & _ & I1 & _ & E1').
    destruct (stable_matching_total start_pref cands Hk sched2) as (st2 & _ & I2 & _ & E2').
    rewrite E1 in E1'. inversion E1'; subst m1. rewrite E2 in E2'. inversion E2'; subst m2.
    assert (Hmem : forall sta stb, Inv start_pref cands sta -> Inv start_pref cands stb ->
              (forall j s, alookup j (mt sta) = Some s -> alookup j (mt stb) = Some s) ->
              forall js, In js (mt sta) -> In js (mt stb)).
    { intros sta stb Ia_ Ib_ H [j s] Hin. apply alookup_in. apply H.
      apply in_alookup; [exact (Ik _ _ _ Ia_)|exact Hin]. }
    intros pr. rewrite !in_map_iff. split; intros (js & Heq & Hin); exists js; (split; [exact Heq|]).
    - apply (Hmem st1 st2 I1 I2); [intros j s; apply Hiff|exact Hin].
    - apply (Hmem st2 st1 I2 I1); [intros j s; apply Hiff|exact Hin].
  Qed.
End Data.
