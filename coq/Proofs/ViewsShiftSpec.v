(** C07, "both master curves unchanged": the master-curve views join the offsets
    and crossings tables on the interval's start epoch only; shifting every
    start epoch of both tables by the same amount leaves every row of the view
    as it was. *)
From Spowtd Require Import Model.Views.
From Coq Require Import Lia.

Definition shift_offset_keys (d : Z) (offsets : list (Z * Q)) : list (Z * Q) :=
  map (fun o => ((fst o + d)%Z, snd o)) offsets.
Definition shift_crossing_keys (d : Z) (crossings : list (Z * Z * Q)) : list (Z * Z * Q) :=
  map (fun c => ((fst (fst c) + d)%Z, snd (fst c), snd c)) crossings.

Lemma flat_map_map_in {A B C} (h : A -> B) (f : B -> list C) l :
  flat_map f (map h l) = flat_map (fun a => f (h a)) l.
Proof. induction l as [|a t IH]; simpl; [reflexivity|]. rewrite IH. reflexivity. Qed.

Lemma flat_map_map_out {A B C} (h : B -> C) (f : A -> list B) l :
  map h (flat_map f l) = flat_map (fun a => map h (f a)) l.
Proof. induction l as [|a t IH]; simpl; [reflexivity|]. rewrite map_app, IH. reflexivity. Qed.

Lemma inner_join_shift d offsets crossings :
  join_on (fun o : Z * Q => fst o) (fun c : Z * Z * Q => fst (fst c)) (fun o c => (o, c))
          (shift_offset_keys d offsets) (shift_crossing_keys d crossings)
  = map (fun oc : (Z * Q) * (Z * Z * Q) =>
           (((fst (fst oc) + d)%Z, snd (fst oc)),
            ((fst (fst (snd oc)) + d)%Z, snd (fst (snd oc)), snd (snd oc))))
        (join_on (fun o : Z * Q => fst o) (fun c : Z * Z * Q => fst (fst c)) (fun o c => (o, c))
                 offsets crossings).
Proof.
  unfold join_on, shift_offset_keys, shift_crossing_keys.
  rewrite flat_map_map_in, flat_map_map_out. apply flat_map_ext. intros o.
  rewrite flat_map_map_in, flat_map_map_out. apply flat_map_ext. intros c. cbn [fst snd].
  replace (fst (fst c) + d =? fst o + d)%Z with (fst (fst c) =? fst o)%Z.
  - destruct (fst (fst c) =? fst o)%Z; reflexivity.
  - destruct (Z.eqb_spec (fst (fst c)) (fst o)) as [E|E];
      destruct (Z.eqb_spec (fst (fst c) + d) (fst o + d)) as [E'|E']; try reflexivity; lia.
Qed.

Theorem view_join_time_shift d offsets crossings grid :
  view_join (shift_offset_keys d offsets) (shift_crossing_keys d crossings) grid
  = view_join offsets crossings grid.
Proof.
  unfold view_join. rewrite inner_join_shift. unfold join_on at 1 3.
  rewrite flat_map_map_in. apply flat_map_ext. intros oc. reflexivity.
Qed.

Theorem view_average_time_shift d offsets crossings grid step :
  view_average (shift_offset_keys d offsets) (shift_crossing_keys d crossings) grid step
  = view_average offsets crossings grid step /\
  view_levels (shift_offset_keys d offsets) (shift_crossing_keys d crossings) grid
  = view_levels offsets crossings grid.
Proof.
  unfold view_average, view_levels. rewrite view_join_time_shift. split; reflexivity.
Qed.

(** The writers (rise.py / recession.py) key both tables by the interval's start
    epoch: writing the same solver result for intervals that all start d later
    is the key shift above, so the view does not change. *)
Lemma written_offsets_shift d (start_of : nat -> Z) sids offs :
  written_offsets (fun s => (start_of s + d)%Z) sids offs
  = shift_offset_keys d (written_offsets start_of sids offs).
Proof. unfold written_offsets, shift_offset_keys. rewrite map_map. reflexivity. Qed.

Lemma written_crossings_shift d (start_of : nat -> Z) hm :
  written_crossings (fun s => (start_of s + d)%Z) hm
  = shift_crossing_keys d (written_crossings start_of hm).
Proof.
  unfold written_crossings, shift_crossing_keys. rewrite flat_map_map_out.
  apply flat_map_ext. intros p. rewrite map_map. reflexivity.
Qed.

Theorem written_view_time_shift d (start_of : nat -> Z) hm sids offs grid step :
  view_average (written_offsets (fun s => (start_of s + d)%Z) sids offs)
               (written_crossings (fun s => (start_of s + d)%Z) hm) grid step
  = view_average (written_offsets start_of sids offs) (written_crossings start_of hm) grid step.
Proof.
  rewrite written_offsets_shift, written_crossings_shift. apply view_average_time_shift.
Qed.
