(** C17 for a spline specific yield: Model/SimRise.v driven by the wrapper
    [integrate] of Model/SplineWrap.v, under the FITPACK contract of
    Proofs/SplineWrapSpec.v. *)
From Coq Require Import Reals Lra Lia List.
From Coquelicot Require Import Coquelicot.
From Spowtd Require Import Model.SimRise Proofs.SplineWrapSpec Proofs.SimRiseSpec.
Import ListNotations.
Local Open Scope R_scope.

Section RiseSpline.
  Variables (xmin xmax : R).
  Variable ev : R -> R.
  Variable splint : R -> R -> R.
  Variable P : R -> R.
  Hypothesis dom : xmin < xmax.
  Hypothesis splint_in :
    forall a b, xmin <= a -> a <= b -> b <= xmax -> splint a b = P b - P a.
  Hypothesis splint_above : forall a, xmax <= a -> splint a xmax = 0.

  Notation integ := (integrate Rops xmin xmax ev splint).
  Notation sy := (call Rops xmin xmax ev).
  Notation curve := (rise_curve Rops integ).

  Lemma integ_char : forall a b, integ a b = Fc xmin xmax ev P b - Fc xmin xmax ev P a.
  Proof. apply integrate_char; assumption. Qed.

  Theorem spline_curve_diff :
    forall grid m W, curve grid m = Ok W ->
    forall i j d, (i < length grid)%nat -> (j < length grid)%nat ->
      nth j W d - nth i W d = integ (nth i grid d) (nth j grid d).
  Proof. exact (curve_diff integ _ integ_char). Qed.

  Theorem spline_curve_shared_levels :
    forall grid1 grid2 m1 m2 W1 W2,
      curve grid1 m1 = Ok W1 -> curve grid2 m2 = Ok W2 ->
      forall i j i' j' d,
        (i < length grid1)%nat -> (j < length grid1)%nat ->
        (i' < length grid2)%nat -> (j' < length grid2)%nat ->
        nth i grid1 d = nth i' grid2 d -> nth j grid1 d = nth j' grid2 d ->
        nth j W1 d - nth i W1 d = nth j' W2 d - nth i' W2 d.
  Proof. exact (curve_shared_levels integ _ integ_char). Qed.

  Theorem spline_curve_common_shift :
    forall grid1 grid2 m1 m2 W1 W2,
      curve grid1 m1 = Ok W1 -> curve grid2 m2 = Ok W2 ->
      exists c, forall i i' d,
        (i < length grid1)%nat -> (i' < length grid2)%nat ->
        nth i grid1 d = nth i' grid2 d ->
        nth i' W2 d = nth i W1 d + c.
  Proof. exact (curve_common_shift integ _ integ_char). Qed.

  Theorem spline_curve_mean :
    forall grid m W, curve grid m = Ok W -> fmean Rops W = m.
  Proof. exact (curve_mean integ). Qed.

  Section Area.
    Hypothesis ev_RInt :
      forall a b, xmin <= a -> a <= b -> b <= xmax -> is_RInt ev a b (P b - P a).

    (** The difference of storage between two grid levels IS the Riemann
        integral of the (clamped) specific yield between them. *)
    Theorem spline_curve_diff_RInt :
      forall grid m W, curve grid m = Ok W ->
      forall i j d, (i < length grid)%nat -> (j < length grid)%nat ->
        nth j W d - nth i W d = RInt sy (nth i grid d) (nth j grid d).
    Proof.
      intros grid m W H i j d Hi Hj.
      rewrite (spline_curve_diff grid m W H i j d Hi Hj).
      apply (integrate_area xmin xmax ev splint P); assumption.
    Qed.

    (** Never decreasing with level when specific yield is non-negative. *)
    Theorem spline_curve_monotone :
      (forall x, xmin <= x <= xmax -> 0 <= ev x) ->
      forall grid m W, curve grid m = Ok W ->
        (forall i j d, (i <= j)%nat -> (j < length grid)%nat -> nth i grid d <= nth j grid d) ->
        forall i j d, (i <= j)%nat -> (j < length grid)%nat -> nth i W d <= nth j W d.
    Proof.
      intros Hpos. apply (curve_monotone integ _ integ_char).
      intros a b Hab.
      apply (integrate_nonneg xmin xmax ev splint P); assumption.
    Qed.
  End Area.
End RiseSpline.

(** ---- over the exact splines of Model/SplineWrapPP.v: nothing assumed *)
From Spowtd Require Import Model.SplineWrapPP Proofs.SplineWrapPPSpec.

Section RiseExact.
  Variables (knots values : list R) (segs : list (seg (F:=R))).
  Hypothesis two_knots : (2 <= length knots)%nat.
  Hypothesis knots_inc : incr_list knots.
  Hypothesis segs_interp : interp_spec knots values segs.

  Notation integ := (pp_integrate Rops knots segs).
  Notation curve := (rise_curve Rops integ).

  Lemma exact_wf :
    segs <> [] /\ pp_sorted segs /\ pp_start segs = pp_xmin Rops knots /\
    pp_xmin Rops knots < pp_xmax Rops knots.
  Proof.
    destruct knots as [|x0 [|x1 kt]]; simpl in two_knots; try lia.
    destruct (interp_spec_wf kt x0 x1 values segs knots_inc segs_interp) as [H1 [H2 H3]].
    repeat split; try assumption. now apply incr_list_dom.
  Qed.

  Theorem exact_curve_diff_RInt :
    forall grid m W, curve grid m = Ok W ->
    forall i j d, (i < length grid)%nat -> (j < length grid)%nat ->
      nth j W d - nth i W d = RInt (pp_call Rops knots segs) (nth i grid d) (nth j grid d).
  Proof.
    destruct exact_wf as [Hne [Hso [Hst Hdom]]].
    unfold pp_integrate, pp_call.
    apply (spline_curve_diff_RInt _ _ _ _ (pp_P Rops segs) Hdom).
    - now apply pp_splint_in.
    - now apply pp_splint_above.
    - now apply pp_ev_RInt.
  Qed.

  Theorem exact_curve_monotone :
    (forall x, pp_xmin Rops knots <= x <= pp_xmax Rops knots -> 0 <= pp_eval Rops segs x) ->
    forall grid m W, curve grid m = Ok W ->
      (forall i j d, (i <= j)%nat -> (j < length grid)%nat -> nth i grid d <= nth j grid d) ->
      forall i j d, (i <= j)%nat -> (j < length grid)%nat -> nth i W d <= nth j W d.
  Proof.
    destruct exact_wf as [Hne [Hso [Hst Hdom]]].
    unfold pp_integrate.
    apply (spline_curve_monotone _ _ _ _ (pp_P Rops segs) Hdom).
    - now apply pp_splint_in.
    - now apply pp_splint_above.
    - now apply pp_ev_RInt.
  Qed.
End RiseExact.

(** Order 1 with any knots and values (the shape of PeatclsmSpecificYield). *)
Theorem linear_curve_diff_RInt :
  forall knots values, (2 <= length knots)%nat -> incr_list knots ->
    length values = length knots ->
    forall grid m W,
      rise_curve Rops (pp_integrate Rops knots (lin_pp Rops knots values)) grid m = Ok W ->
      forall i j d, (i < length grid)%nat -> (j < length grid)%nat ->
        nth j W d - nth i W d
        = RInt (pp_call Rops knots (lin_pp Rops knots values)) (nth i grid d) (nth j grid d).
Proof.
  intros knots values Hn Hinc Hlen.
  apply (exact_curve_diff_RInt knots values); try assumption.
  apply lin_pp_interp_spec; [assumption|assumption|lia].
Qed.
