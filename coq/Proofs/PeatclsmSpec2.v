(** C16 — further proofs about Model/Peatclsm.v: the callable at the tabulated
    levels, the exact Python-minus-R difference, a Gaussian tail bound and the
    agreement of the two implementations for every admissible parameter set
    with sd <= 0.162 m (the published value), the top level in closed form,
    the ceiling and the array refusal of the transmissivity. *)
From Coq Require Import Reals List ZArith QArith Qreals Lra Lia.
From Coquelicot Require Import Coquelicot.
From Interval Require Import Tactic.
From Spowtd Require Import Model.Util Model.Transm Model.Peatclsm Proofs.TransmSpec Proofs.PeatclsmSpec.
Import ListNotations.
Open Scope R_scope.

(** * The callable at and between the tabulated levels, in terms of the profile *)

Theorem sy_peat_at_knot : forall p (i : nat),
  (i <= 200)%nat -> sy_peat p (knot_mm (Z.of_nat i)) = sy_knot p 201 (Z.of_nat i).
Proof.
  intros p i Hi. destruct (Nat.eq_dec i 200) as [E|E].
  - subst i. rewrite sy_peat_constant_above; [reflexivity|].
    rewrite knot_mm_val. simpl. lra.
  - rewrite (sy_peat_linear_between p i) by (try lia; rewrite !knot_mm_val, Nat2Z.inj_succ, succ_IZR; lra).
    unfold Rminus at 3. rewrite Rplus_opp_r. ring.
Qed.

Theorem sy_peat_at_knot_DB : forall p (i : nat),
  (i <= 200)%nat -> sy_peat p (-995 + 10 * INR i) = DB_profile p 201 (Z.of_nat i).
Proof.
  intros p i Hi. rewrite <- sy_knot_is_DB_profile, <- sy_peat_at_knot by assumption.
  now rewrite knot_mm_val, <- INR_IZR_INZ.
Qed.

Theorem sy_peat_linear_between_DB : forall p (i : nat) zeta,
  (i < 200)%nat ->
  -995 + 10 * INR i <= zeta <= -995 + 10 * INR (S i) ->
  sy_peat p zeta
  = DB_profile p 201 (Z.of_nat i)
    + (DB_profile p 201 (Z.of_nat (S i)) - DB_profile p 201 (Z.of_nat i)) / 10
      * (zeta - (-995 + 10 * INR i)).
Proof.
  intros p i zeta Hi Hz.
  rewrite (sy_peat_linear_between p i zeta Hi)
    by (rewrite !knot_mm_val, <- !INR_IZR_INZ; exact Hz).
  rewrite !sy_knot_is_DB_profile, !knot_mm_val, <- !INR_IZR_INZ, S_INR.
  replace (-995 + 10 * (INR i + 1) - (-995 + 10 * INR i)) with 10 by ring. reflexivity.
Qed.

Theorem sy_peat_constant_below_DB : forall p zeta,
  zeta <= -995 -> sy_peat p zeta = DB_profile p 201 0.
Proof. intros. rewrite sy_peat_constant_below by assumption. apply sy_knot_is_DB_profile. Qed.

Theorem sy_peat_constant_above_DB : forall p zeta,
  1005 <= zeta -> sy_peat p zeta = DB_profile p 201 200.
Proof. intros. rewrite sy_peat_constant_above by assumption. apply sy_knot_is_DB_profile. Qed.

(** * Python (201 layers) minus R (200 layers), exactly *)

Theorem py_minus_R_exact : forall p i,
  sy_knot p 201 i - sy_knot_R p i
  = (1 - Fs p 200) * (theta p (zu i - zm 200) - theta p (zl i - zm 200)).
Proof.
  intros p i. unfold sy_knot_R, sy_knot. change 201%nat with (S 200).
  rewrite sy_knot_with_S. change (Z.of_nat 200) with 200%Z.
  unfold layer, campbell. rewrite dz_const. field.
Qed.

(** * All layers saturated: the soil part vanishes *)

Lemma fold_layers_zero : forall p Phi i js,
  (forall j, In j js -> layer p Phi i j = 0) ->
  fold_right Rplus 0 (map (layer p Phi i) js) = 0.
Proof.
  intros p Phi i. induction js as [|j t IH]; intros H; simpl; [reflexivity|].
  rewrite (H j (or_introl eq_refl)), IH; [ring|]. intros j' Hj'. apply H. now right.
Qed.

(** At the top tabulated level (1005 mm) every layer is saturated at both
    water levels, so the value is the microtopography term alone, for any
    number of layers up to 201: there Python and R agree exactly. *)
Theorem sy_knot_top : forall p N,
  admissible p -> (N <= 201)%nat -> sy_knot p N 200 = Phi_std (1005 / 1000 / sd p).
Proof.
  intros p N (Hsd & Hth & Hb & Hps) HN. unfold sy_knot, sy_knot_with, sy_soil.
  rewrite sum_layers_fold, fold_layers_zero.
  - unfold Fs. replace (zm 200) with (1005 / 1000) by (unfold zm, zl, zu; field).
    rewrite dz_const. field.
  - intros j Hj. apply In_layers_inv in Hj. apply layer_saturated.
    unfold zm, zl, zu.
    assert (H1 : IZR j <= 200) by (apply IZR_le; lia).
    lra.
Qed.

(** * A Gaussian tail bound: Phi_std x <= Phi_std a + exp(-a^2/2) / (a sqrt(2 pi)) for x >= a > 0 *)

Definition tail_env (a t : R) : R := exp (a * a / 2 - a * t) / sqrt (2 * PI).

Lemma gauss_le_env : forall a t, gauss t <= tail_env a t.
Proof.
  intros a t. unfold gauss, tail_env.
  apply Rmult_le_compat_r; [left; apply Rinv_0_lt_compat, sqrt_2PI_pos|].
  assert (Hq := Rle_0_sqr (t - a)). unfold Rsqr in Hq.
  assert (H : - (t * t) / 2 <= a * a / 2 - a * t) by nra.
  destruct H as [H|H]; [left; now apply exp_increasing|right; now rewrite H].
Qed.

Lemma tail_env_is_RInt : forall a x y, 0 < a ->
  is_RInt (tail_env a) x y
    ((- exp (a * a / 2 - a * y) / (a * sqrt (2 * PI))) - (- exp (a * a / 2 - a * x) / (a * sqrt (2 * PI)))).
Proof.
  intros a x y Ha. assert (Hs := sqrt_2PI_pos).
  apply (is_RInt_derive (fun t => - exp (a * a / 2 - a * t) / (a * sqrt (2 * PI)))).
  - intros t _. unfold tail_env. auto_derive; [exact I|].
    replace (a * a / 2 + - (a * t)) with (a * a / 2 - a * t) by ring. field. split; lra.
  - intros t _. apply (@ex_derive_continuous R_AbsRing R_NormedModule).
    unfold tail_env. auto_derive; try lra; exact I.
Qed.

Theorem gauss_tail : forall a x, 0 < a -> a <= x ->
  RInt gauss a x <= exp (- (a * a) / 2) / (a * sqrt (2 * PI)).
Proof.
  intros a x Ha Hx. assert (Hs := sqrt_2PI_pos).
  assert (HI := tail_env_is_RInt a a x Ha).
  eapply Rle_trans.
  - apply (RInt_le gauss (tail_env a) a x Hx (gauss_ex_RInt a x)).
    + eexists; exact HI.
    + intros t _. apply gauss_le_env.
  - rewrite (is_RInt_unique _ _ _ _ HI).
    replace (a * a / 2 - a * a) with (- (a * a) / 2) by field.
    assert (0 < exp (a * a / 2 - a * x) / (a * sqrt (2 * PI))).
    { apply Rdiv_lt_0_compat; [apply exp_pos|]. apply Rmult_lt_0_compat; lra. }
    unfold Rdiv in *. lra.
Qed.

(** Beyond 1005/162 standard deviations the cdf is within 1e-9 of 1.
    Lower bound: certified integral at 1005/162 + monotonicity; upper bound:
    the same integral + the tail bound. *)
Lemma Phi_at_top_published :
  1 - 3 / 10000000000 <= Phi_std (1005 / 162) <= 1 - 2 / 10000000000.
Proof. unfold Phi_std, gauss. integral with (i_prec 64, i_width (-50)). Qed.

Lemma tail_at_top_published :
  exp (- ((1005 / 162) * (1005 / 162)) / 2) / ((1005 / 162) * sqrt (2 * PI)) <= 3 / 10000000000.
Proof. interval with (i_prec 64). Qed.

Theorem Phi_std_near_1 : forall x, 1005 / 162 <= x -> Rabs (1 - Phi_std x) <= 1 / 1000000000.
Proof.
  intros x Hx.
  assert (Hm := Phi_std_monotone _ _ Hx).
  assert (Hs := Phi_std_step (1005 / 162) x).
  assert (Ht := gauss_tail (1005 / 162) x ltac:(lra) Hx).
  assert (H0 := Phi_at_top_published). assert (H1 := tail_at_top_published).
  apply Rabs_le. lra.
Qed.

(** * Python and R agree within 1e-9 at every level whenever sd <= 0.162 m *)

Theorem py_vs_R_small_sd : forall p i,
  admissible p -> sd p <= 162 / 1000 ->
  Rabs (sy_knot p 201 i - sy_knot_R p i) <= 1 / 1000000000.
Proof.
  intros p i Hadm Hsd. unfold sy_knot_R, sy_knot.
  eapply Rle_trans; [apply (py_vs_R_general p (Fs p) i Hadm)|].
  destruct Hadm as ((Hsd0 & _) & Hth & _).
  assert (Hx : 1005 / 162 <= zm 200 / sd p).
  { replace (zm 200) with (1005 / 1000) by (unfold zm, zl, zu; field).
    apply (Rmult_le_reg_r (sd p)); [assumption|].
    replace (1005 / 1000 / sd p * sd p) with (1005 / 1000) by (field; lra). lra. }
  assert (H := Phi_std_near_1 _ Hx). unfold Fs.
  assert (0 <= Rabs (1 - Phi_std (zm 200 / sd p))) by apply Rabs_pos.
  nra.
Qed.

Definition published : peat := {| sd := 162 / 1000; theta_s := 88 / 100; b_shape := 74 / 10; psi_s := -24 / 1000 |}.

Lemma published_admissible : admissible published.
Proof. unfold admissible, published; simpl. lra. Qed.

Theorem py_vs_R_published : forall i,
  Rabs (sy_knot published 201 i - sy_knot_R published i) <= 1 / 1000000000.
Proof. intros i. apply py_vs_R_small_sd; [apply published_admissible|simpl; lra]. Qed.

(** In the form of the repository's own test (np.allclose: atol 1e-8 + rtol 1e-5 |reference|). *)
Corollary py_vs_R_published_allclose : forall i,
  Rabs (sy_knot published 201 i - sy_knot_R published i)
  <= 1 / 100000000 + 1 / 100000 * Rabs (sy_knot_R published i).
Proof.
  intros i. assert (H := py_vs_R_published i).
  assert (0 <= Rabs (sy_knot_R published i)) by apply Rabs_pos. lra.
Qed.

(** * Transmissivity: the ceiling itself, array refusal *)

Theorem T_peat_at_ceiling : forall Ks alpha zmax zeta,
  zeta / 10 = zmax -> T_peat Ks alpha zmax zeta = Ok None.
Proof.
  intros Ks alpha zmax zeta H. unfold T_peat.
  destruct (Rlt_dec zmax (zeta / 10)) as [L|L]; [lra|].
  destruct (Req_EM_T (zeta / 10) zmax) as [E|E]; [reflexivity|contradiction].
Qed.

Theorem T_peat_explicit : forall Ks alpha zmax zeta_mm,
  zeta_mm / 10 < zmax ->
  T_peat Ks alpha zmax zeta_mm
  = Ok (Some (Ks * Rpower (zmax - zeta_mm / 10) (1 - alpha) / (100 * (alpha - 1)))).
Proof. exact T_peat_below_ceiling. Qed.

Theorem T_peat_array_refused_iff : forall Ks alpha zmax zs,
  (exists e, T_peat_array Ks alpha zmax zs = Err e) <-> Exists (fun z => zmax < z / 10) zs.
Proof.
  intros Ks alpha zmax. induction zs as [|z t IH]; simpl.
  - split; [intros [e H]; discriminate|intros H; inversion H].
  - fold (T_peat_array Ks alpha zmax t).
    destruct (T_peat Ks alpha zmax z) as [v|e] eqn:E; simpl.
    + assert (Hz : ~ zmax < z / 10).
      { intros L. apply (T_peat_refused_iff Ks alpha zmax z) in L. congruence. }
      destruct (T_peat_array Ks alpha zmax t) as [ws|e'] eqn:A; simpl.
      * split; [intros [e H]; discriminate|].
        intros H. inversion H as [? ? H1|? ? H1]; subst; [contradiction|].
        apply IH in H1. destruct H1 as [e H1]. discriminate.
      * split; [intros _; apply Exists_cons_tl, IH; now exists e'|intros _; now exists e'].
    + split; [intros _|intros _; now exists e].
      apply Exists_cons_hd. apply (T_peat_refused_iff Ks alpha zmax z).
      rewrite E. f_equal. now apply (T_peat_never_other_error Ks alpha zmax z).
Qed.

Theorem T_peat_array_only_value_error : forall Ks alpha zmax zs e,
  T_peat_array Ks alpha zmax zs = Err e -> e = EValue.
Proof.
  intros Ks alpha zmax. induction zs as [|z t IH]; intros e; simpl; [discriminate|].
  fold (T_peat_array Ks alpha zmax t).
  destruct (T_peat Ks alpha zmax z) as [v|e0] eqn:E; simpl.
  - destruct (T_peat_array Ks alpha zmax t) as [ws|e'] eqn:A; simpl; [discriminate|].
    intros H. injection H as <-. now apply IH.
  - intros H. injection H as <-. now apply (T_peat_never_other_error Ks alpha zmax z).
Qed.

(** The R reference's table: levels z (m) with z * 100 < 1. *)
Theorem T_peat_reproduces_R : forall Ks alpha z_m,
  z_m * 100 < 1 -> T_peat Ks alpha 1 (1000 * z_m) = Ok (Some (T_R Ks alpha z_m)).
Proof.
  intros Ks alpha z_m H. rewrite T_peat_below_ceiling by lra. now rewrite T_R_is_T_formula.
Qed.

(** * The agreement is tied to small sd: with sd = 1 m (inside the PEST bounds,
    other parameters as published) the 201st layer is far from fully
    submerged in the microtopography and the two implementations differ by
    more than 5e-4 at level 985 mm (np.allclose would reject it). *)
Definition wide : peat := {| sd := 1; theta_s := 88 / 100; b_shape := 74 / 10; psi_s := -24 / 1000 |}.

Theorem py_vs_R_differs_sd_1 :
  admissible wide /\ 5 / 10000 <= sy_knot wide 201 198 - sy_knot_R wide 198.
Proof.
  split; [unfold admissible, wide; simpl; lra|].
  rewrite py_minus_R_exact. unfold Fs.
  replace (zm 200 / sd wide) with (1005 / 1000) by (unfold zm, zl, zu, wide; simpl; field).
  replace (zu 198 - zm 200) with (-15 / 1000) by (unfold zm, zl, zu; field).
  replace (zl 198 - zm 200) with (-25 / 1000) by (unfold zm, zl, zu; field).
  unfold theta, wide; cbn [sd theta_s b_shape psi_s].
  destruct (Rle_dec (-24 / 1000 * 100) (-15 / 1000 * 100)) as [_|N]; [|exfalso; lra].
  destruct (Rle_dec (-24 / 1000 * 100) (-25 / 1000 * 100)) as [L|_]; [exfalso; lra|].
  unfold Phi_std, gauss. integral with (i_prec 50).
Qed.

Theorem py_vs_R_bound : forall p i,
  admissible p ->
  Rabs (sy_knot p 201 i - sy_knot_R p i) <= theta_s p * Rabs (1 - Fs p 200).
Proof. intros p i. exact (py_vs_R_general p (Fs p) i). Qed.

(** The bottom layer (j = 0, midpoint -995 mm) is saturated at every tabulated
    level and never contributes: a loop starting at j = 1 computes the same
    values (an equivalent mutant of the code, found by mutation testing). *)
Theorem bottom_layer_zero : forall p Phi i,
  admissible p -> (0 <= i)%Z -> layer p Phi i 0 = 0.
Proof.
  intros p Phi i (Hsd & Hth & Hb & Hps) Hi. apply layer_saturated.
  unfold zm, zl, zu. assert (H0 : 0 <= IZR i) by (apply IZR_le; lia). lra.
Qed.
