(** The master-curve views (Model/Views.v) and the theorems about level means
    (Model/FitOffsets.v, [head_mean]):
    - what the view average_rising_depth / average_recession_time lists at a
      level IS the level mean [head_mean E x h] of the aligned intervals'
      entries E under the stored offsets x; it lists level h iff h is a grid
      level and an aligned interval has a crossing row there;
    - completeness: when every crossing level is a grid level no level of the
      assembled curve is dropped (and in ascending order);
    - origin: after the writers' reference shift the view is 0 at the reference
      level; without a reference that level is the view's highest;
    - rising_curve_line_segment has rows only for aligned rises, with their own
      offset, at most one each under the PRIMARY KEYs, and one for every aligned
      rise whose classification rows exist. *)
From Spowtd Require Import Model.Views Proofs.QSum Proofs.FitOffsetsSpec Proofs.InvarianceSpec.
From Coq Require Import Lia Lqa Sorted Permutation.

(** * Lists *)

Lemma views_mem_Z_In x l : mem_Z x l = true <-> In x l.
Proof.
  induction l as [|y t IH]; simpl; [split; [discriminate|tauto]|].
  rewrite Bool.orb_true_iff, IH, Z.eqb_eq. split; intros [H|H]; auto.
Qed.

Lemma in_join_on {A B C} (sel : A -> Z) (kb : B -> Z) (g : A -> B -> C) l T c :
  In c (join_on sel kb g l T) <-> exists a b, In a l /\ In b T /\ kb b = sel a /\ c = g a b.
Proof.
  unfold join_on. rewrite in_flat_map. split.
  - intros (a & Ha & H). apply in_flat_map in H. destruct H as (b & Hb & H).
    destruct (Z.eqb_spec (kb b) (sel a)) as [E|E]; [|contradiction].
    destruct H as [<-|[]]. exists a, b. auto.
  - intros (a & b & Ha & Hb & E & ->). exists a. split; [exact Ha|].
    apply in_flat_map. exists b. split; [exact Hb|]. rewrite E, Z.eqb_refl. left. reflexivity.
Qed.

Lemma join_on_app {A B C} (sel : A -> Z) (kb : B -> Z) (g : A -> B -> C) l1 l2 T :
  join_on sel kb g (l1 ++ l2) T = join_on sel kb g l1 T ++ join_on sel kb g l2 T.
Proof. unfold join_on. apply flat_map_app. Qed.

Lemma join_on_cons {A B C} (sel : A -> Z) (kb : B -> Z) (g : A -> B -> C) a l T :
  join_on sel kb g (a :: l) T
  = flat_map (fun b => if Z.eqb (kb b) (sel a) then [g a b] else []) T ++ join_on sel kb g l T.
Proof. reflexivity. Qed.

(** a key of the right operand selects at most one of its rows *)
Lemma key_unique {B C} (kb : B -> Z) (g : B -> C) T z :
  NoDup (map kb T) ->
  flat_map (fun b => if Z.eqb (kb b) z then [g b] else []) T = [] \/
  exists b, In b T /\ kb b = z /\ flat_map (fun b => if Z.eqb (kb b) z then [g b] else []) T = [g b].
Proof.
  induction T as [|b T IH]; simpl; intros HN; [left; reflexivity|].
  inversion HN as [|? ? Hnin HN']; subst.
  destruct (Z.eqb_spec (kb b) z) as [E|E].
  - right. exists b. split; [left; reflexivity|]. split; [exact E|].
    destruct (IH HN') as [H|(b' & Hb' & E' & _)]; [rewrite H; reflexivity|].
    exfalso. apply Hnin. rewrite E, <- E'. apply in_map, Hb'.
  - destruct (IH HN') as [H|(b' & Hb' & E' & H)]; [left; exact H|].
    right. exists b'. split; [right; exact Hb'|]. split; [exact E'|exact H].
Qed.

Lemma views_NoDup_app {A} (l1 l2 : list A) :
  NoDup l1 -> NoDup l2 -> (forall x, In x l1 -> ~ In x l2) -> NoDup (l1 ++ l2).
Proof.
  induction l1 as [|a l1 IH]; simpl; intros H1 H2 H; [exact H2|].
  inversion H1 as [|? ? Hn H1']; subst. constructor.
  - rewrite in_app_iff. intros [C|C]; [exact (Hn C)|exact (H a (or_introl eq_refl) C)].
  - apply IH; auto.
Qed.

(** joining with a keyed table keeps the rows' keys distinct *)
Lemma join_on_key_nodup {A B C} (ka : A -> Z) (kc : C -> Z) (sel : A -> Z) (kb : B -> Z)
  (g : A -> B -> C) l T :
  NoDup (map ka l) -> NoDup (map kb T) -> (forall a b, kc (g a b) = ka a) ->
  NoDup (map kc (join_on sel kb g l T)).
Proof.
  intros Hl HT Hk. induction l as [|a l IH]; [constructor|].
  simpl in Hl. inversion Hl as [|? ? Hn Hl']; subst.
  rewrite join_on_cons, map_app. apply views_NoDup_app.
  - destruct (key_unique kb (g a) T (sel a) HT) as [H|(b & _ & _ & H)]; rewrite H; simpl.
    + constructor.
    + constructor; [intros []|constructor].
  - apply IH, Hl'.
  - intros x Hx Hx'. apply in_map_iff in Hx. destruct Hx as (c & <- & Hc).
    apply in_flat_map in Hc. destruct Hc as (b & _ & Hc).
    destruct (Z.eqb (kb b) (sel a)); [|contradiction]. destruct Hc as [<-|[]].
    apply in_map_iff in Hx'. destruct Hx' as (c' & E & Hc').
    apply in_join_on in Hc'. destruct Hc' as (a' & b' & Ha' & _ & _ & ->).
    rewrite !Hk in E. apply Hn. rewrite <- E. apply in_map, Ha'.
Qed.

Lemma in_number_rows {A} (l : list A) : forall n i a,
  In (i, a) (number_rows n l) <-> (n <= i)%nat /\ nth_error l (i - n) = Some a.
Proof.
  induction l as [|b l IH]; intros n i a; simpl.
  - split; [intros []|]. intros (_ & H). destruct (i - n)%nat; discriminate.
  - rewrite IH. split.
    + intros [E|(Hle & Hn)].
      * inversion E; subst. split; [lia|]. rewrite Nat.sub_diag. reflexivity.
      * split; [lia|]. replace (i - n)%nat with (S (i - S n)) by lia. exact Hn.
    + intros (Hle & Hn). destruct (Nat.eq_dec i n) as [E|E].
      * subst. rewrite Nat.sub_diag in Hn. simpl in Hn. inversion Hn. left. reflexivity.
      * right. split; [lia|]. replace (i - n)%nat with (S (i - S n)) in Hn by lia. exact Hn.
Qed.

Lemma last_map {A B} (f : A -> B) (l : list A) d d' : l <> [] -> last (map f l) d' = f (last l d).
Proof.
  induction l as [|a l IH]; [congruence|]. intros _. destruct l as [|b l]; [reflexivity|].
  change (last (map f (b :: l)) d' = f (last (b :: l) d)). apply IH. discriminate.
Qed.

(** * Group keys: ascending, each once *)

Lemma in_insert_level x y l : In y (insert_level x l) <-> y = x \/ In y l.
Proof.
  induction l as [|a l IH]; simpl.
  - intuition.
  - destruct (Z.ltb x a); simpl; [intuition|].
    destruct (Z.eqb_spec x a) as [E|E]; simpl.
    + subst. intuition.
    + rewrite IH. intuition.
Qed.

Lemma in_group_keys y l : In y (group_keys l) <-> In y l.
Proof.
  unfold group_keys. induction l as [|a l IH]; simpl; [tauto|].
  rewrite in_insert_level, IH. intuition.
Qed.

Lemma insert_level_sorted x l : StronglySorted Z.lt l -> StronglySorted Z.lt (insert_level x l).
Proof.
  induction l as [|a l IH]; simpl; intros H.
  - constructor; constructor.
  - inversion H as [|? ? Hs Hall]; subst.
    destruct (Z.ltb_spec x a) as [L|L].
    + constructor; [exact H|]. constructor; [exact L|].
      rewrite Forall_forall in *. intros y Hy. specialize (Hall y Hy). lia.
    + destruct (Z.eqb_spec x a) as [E|E]; [exact H|].
      constructor; [apply IH, Hs|]. rewrite Forall_forall in *. intros y Hy.
      apply in_insert_level in Hy. destruct Hy as [->|Hy]; [lia|exact (Hall y Hy)].
Qed.

Lemma group_keys_sorted l : StronglySorted Z.lt (group_keys l).
Proof.
  unfold group_keys. induction l as [|a l IH]; simpl; [constructor|]. apply insert_level_sorted, IH.
Qed.

Lemma sorted_ext l : forall l', StronglySorted Z.lt l -> StronglySorted Z.lt l' ->
  (forall k, In k l <-> In k l') -> l = l'.
Proof.
  induction l as [|a l IH]; intros l' H H' Hin.
  - destruct l' as [|b l']; [reflexivity|]. exfalso. apply (Hin b). left. reflexivity.
  - destruct l' as [|b l']; [exfalso; apply (Hin a); left; reflexivity|].
    inversion H as [|? ? Hs Hall]; subst. inversion H' as [|? ? Hs' Hall']; subst.
    rewrite Forall_forall in Hall, Hall'.
    assert (E : a = b).
    { destruct (proj1 (Hin a) (or_introl eq_refl)) as [E|Ha]; [symmetry; exact E|].
      destruct (proj2 (Hin b) (or_introl eq_refl)) as [E|Hb]; [exact E|].
      specialize (Hall _ Hb). specialize (Hall' _ Ha). lia. }
    subst b. f_equal. apply IH; auto. intros k. split; intros Hk.
    + destruct (proj1 (Hin k) (or_intror Hk)) as [E|Hk']; [|exact Hk'].
      specialize (Hall _ Hk). lia.
    + destruct (proj2 (Hin k) (or_intror Hk)) as [E|Hk']; [|exact Hk'].
      specialize (Hall' _ Hk). lia.
Qed.

Lemma sorted_nodup l : StronglySorted Z.lt l -> NoDup l.
Proof.
  induction 1 as [|a l Hs IH Hall]; constructor; [|exact IH].
  rewrite Forall_forall in Hall. intros C. specialize (Hall _ C). lia.
Qed.

Lemma group_keys_ext l l' : (forall k, In k l <-> In k l') -> group_keys l = group_keys l'.
Proof.
  intros H. apply sorted_ext; try apply group_keys_sorted.
  intros k. rewrite !in_group_keys. apply H.
Qed.

Lemma sorted_last_max l d : StronglySorted Z.lt l -> forall k, In k l -> (k <= last l d)%Z.
Proof.
  induction 1 as [|a l Hs IH Hall]; intros k Hk; [contradiction|].
  rewrite Forall_forall in Hall. destruct l as [|b l].
  - destruct Hk as [->|[]]. simpl. lia.
  - change (k <= last (b :: l) d)%Z. destruct Hk as [->|Hk]; [|apply IH, Hk].
    specialize (IH b (or_introl eq_refl)). specialize (Hall b (or_introl eq_refl)). lia.
Qed.

Lemma last_in {A} (l : list A) d : l <> [] -> In (last l d) l.
Proof.
  induction l as [|a l IH]; [congruence|]. intros _. destruct l as [|b l]; [left; reflexivity|].
  right. apply IH. discriminate.
Qed.

(** * The view's groups are the level means *)

Lemma grid_pick grid kc (o v : Q) : NoDup grid ->
  flat_map (fun k : Z => if Z.eqb k kc then [(k, o, v)] else []) grid
  = if mem_Z kc grid then [(kc, o, v)] else [].
Proof.
  induction grid as [|k grid IH]; simpl; intros HN; [reflexivity|].
  inversion HN as [|? ? Hn HN']; subst. rewrite (IH HN').
  destruct (Z.eqb_spec k kc) as [E|E].
  - subst k. rewrite Z.eqb_refl. simpl.
    destruct (mem_Z kc grid) eqn:M; [|reflexivity]. apply views_mem_Z_In in M. contradiction.
  - destruct (Z.eqb_spec kc k) as [E'|E']; [congruence|]. reflexivity.
Qed.

Section Bridge.
Variable x : nat -> Q.
Variable h : Z.
Variable grid : list Z.
Variable crossings : list (Z * Z * Q).
Hypothesis grid_nodup : NoDup grid.
Hypothesis h_in_grid : In h grid.

(** one offsets row (e, o) with interval id i, x i = o *)
Lemma group_terms_row (e : Z) (o : Q) (i : nat) : x i = o -> forall cs : list (Z * Z * Q),
  map vj_term (view_group h
    (join_on (fun oc : (Z * Q) * (Z * Z * Q) => snd (fst (snd oc))) (fun k : Z => k)
             (fun oc k => (k, snd (fst oc), snd (snd oc)))
             (flat_map (fun c : Z * Z * Q => if Z.eqb (fst (fst c)) e then [((e, o), c)] else []) cs)
             grid))
  = map (shifted x) (at_head
      (flat_map (fun c : Z * Z * Q => if Z.eqb (fst (fst c)) e
                  then [{| e_head := snd (fst c); e_series := i; e_val := snd c |}] else []) cs) h).
Proof.
  intros Hx. induction cs as [|((ec, kc), v) cs IH]; [reflexivity|].
  cbn [flat_map fst snd]. destruct (Z.eqb ec e); [|exact IH].
  cbn [app]. rewrite join_on_cons. cbn [fst snd].
  rewrite (grid_pick grid kc o v grid_nodup).
  unfold view_group, at_head in *. rewrite filter_app, map_app, IH. cbn [filter e_head].
  destruct (Z.eqb_spec kc h) as [E|E].
  - subst kc. rewrite (proj2 (views_mem_Z_In h grid) h_in_grid). cbn [filter vj_level fst].
    rewrite Z.eqb_refl. cbn [map app]. f_equal. unfold vj_term, shifted. cbn. rewrite Hx. reflexivity.
  - destruct (mem_Z kc grid); [|reflexivity]. cbn [filter vj_level fst].
    destruct (Z.eqb_spec kc h) as [E'|_]; [contradiction|]. reflexivity.
Qed.

Lemma group_terms : forall (l : list (Z * Q)) (n : nat),
  (forall i e o, In (i, (e, o)) (number_rows n l) -> x i = o) ->
  map vj_term (view_group h (view_join l crossings grid))
  = map (shifted x) (at_head (entries_from n l crossings) h).
Proof.
  induction l as [|(e, o) l IH]; intros n Hx; [reflexivity|].
  unfold view_join, entries_from in *. cbn [number_rows]. rewrite !join_on_cons, join_on_app.
  unfold view_group, at_head in *. rewrite !filter_app, !map_app. cbn [fst snd].
  rewrite <- (IH (S n)).
  - f_equal. apply (group_terms_row e o n). apply (Hx n e o). left. reflexivity.
  - intros i e' o' Hi. apply (Hx i e' o'). right. exact Hi.
Qed.
End Bridge.

Lemma offset_of_number_rows l i e o : In (i, (e, o)) (number_rows 0 l) -> offset_of l i = o.
Proof.
  intros H. apply in_number_rows in H. destruct H as (_ & H). rewrite Nat.sub_0_r in H.
  unfold offset_of. revert i H. induction l as [|a l IH]; intros i H; destruct i; simpl in *; try discriminate.
  - inversion H. reflexivity.
  - apply IH, H.
Qed.

(** entries of the aligned intervals, row by row *)
Lemma in_entries_from n offsets crossings c :
  In c (entries_from n offsets crossings) <->
  exists e o, nth_error offsets (e_series c - n) = Some (e, o) /\ (n <= e_series c)%nat /\
              In (e, e_head c, e_val c) crossings.
Proof.
  unfold entries_from. rewrite in_join_on. split.
  - intros ((i, (e, o)) & ((ec, k), v) & Hio & Hc & E & ->). cbn in *. subst ec.
    apply in_number_rows in Hio. exists e, o. tauto.
  - intros (e & o & Hn & Hle & Hc). exists (e_series c, (e, o)), (e, e_head c, e_val c).
    split; [apply in_number_rows; auto|]. split; [exact Hc|]. split; [reflexivity|].
    destruct c; reflexivity.
Qed.

Lemma crossed_by_aligned offsets crossings k :
  (exists c, In c (at_head (aligned_entries offsets crossings) k)) <->
  exists e o v, In (e, o) offsets /\ In (e, k, v) crossings.
Proof.
  unfold aligned_entries. split.
  - intros (c & Hc). apply at_head_in in Hc. destruct Hc as (Hc & <-).
    apply in_entries_from in Hc. destruct Hc as (e & o & Hn & _ & Hc).
    exists e, o, (e_val c). split; [eapply nth_error_In, Hn|exact Hc].
  - intros (e & o & v & Ho & Hc). apply In_nth_error in Ho. destruct Ho as (i & Hi).
    exists {| e_head := k; e_series := i; e_val := v |}. apply at_head_in. split; [|reflexivity].
    apply in_entries_from. exists e, o. cbn. rewrite Nat.sub_0_r. split; [exact Hi|]. split; [lia|exact Hc].
Qed.

Lemma in_view_join offsets crossings grid r :
  In r (view_join offsets crossings grid) <->
  exists e, In (e, snd (fst r)) offsets /\ In (e, vj_level r, snd r) crossings /\ In (vj_level r) grid.
Proof.
  unfold view_join. rewrite in_join_on. split.
  - intros (((e, o), ((ec, k), v)) & k' & Hoc & Hk & E & ->). cbn in *. subst k'.
    apply in_join_on in Hoc. destruct Hoc as ((e1, o1) & ((ec1, k1), v1) & Ho & Hc & E & Hp).
    cbn in *. inversion Hp; subst. exists e1. auto.
  - intros (e & Ho & Hc & Hk). destruct r as ((k, o), v). cbn in *.
    exists ((e, o), (e, k, v)), k. split; [|auto].
    apply in_join_on. exists (e, o), (e, k, v). auto.
Qed.

(** (a) which levels the view lists *)
Theorem view_levels_spec offsets crossings grid k :
  In k (view_levels offsets crossings grid) <->
  In k grid /\ exists e o v, In (e, o) offsets /\ In (e, k, v) crossings.
Proof.
  unfold view_levels. rewrite in_group_keys, in_map_iff. split.
  - intros (r & <- & Hr). apply in_view_join in Hr. destruct Hr as (e & Ho & Hc & Hk).
    split; [exact Hk|]. exists e, (snd (fst r)), (snd r). auto.
  - intros (Hk & e & o & v & Ho & Hc). exists (k, o, v). split; [reflexivity|].
    apply in_view_join. exists e. auto.
Qed.

Theorem view_levels_sorted offsets crossings grid :
  StronglySorted Z.lt (view_levels offsets crossings grid).
Proof. apply group_keys_sorted. Qed.

(** (a) the value the view lists at a level is the level mean *)
Theorem view_average_is_head_mean offsets crossings grid step :
  NoDup grid ->
  view_average offsets crossings grid step
  = map (fun k => (inject_Z k * step,
                   head_mean (aligned_entries offsets crossings) (offset_of offsets) k))
        (view_levels offsets crossings grid).
Proof.
  intros HN. unfold view_average, view_levels. apply map_ext_in. intros k Hk. f_equal.
  assert (Hg : In k grid) by (apply (view_levels_spec offsets crossings grid k), Hk).
  unfold sql_avg, head_mean, aligned_entries.
  rewrite (group_terms (offset_of offsets) k grid crossings HN Hg offsets 0%nat
             (offset_of_number_rows offsets)).
  rewrite map_length. reflexivity.
Qed.

Theorem view_average_row offsets crossings grid step z v :
  NoDup grid ->
  (In (z, v) (view_average offsets crossings grid step) <->
   exists k, In k (view_levels offsets crossings grid) /\ z = inject_Z k * step /\
             v = head_mean (aligned_entries offsets crossings) (offset_of offsets) k).
Proof.
  intros HN. rewrite (view_average_is_head_mean _ _ _ _ HN), in_map_iff. split.
  - intros (k & E & Hk). inversion E; subst. exists k. auto.
  - intros (k & Hk & -> & ->). exists k. auto.
Qed.

(** (a) in one statement *)
Theorem view_is_level_mean offsets crossings grid step :
  NoDup grid ->
  let E := aligned_entries offsets crossings in
  let x := offset_of offsets in
  view_average offsets crossings grid step
  = map (fun k => (inject_Z k * step, head_mean E x k)) (view_levels offsets crossings grid) /\
  StronglySorted Z.lt (view_levels offsets crossings grid) /\
  (forall k, In k (view_levels offsets crossings grid) <->
             In k grid /\ exists c, In c (at_head E k)) /\
  (forall k, (exists c, In c (at_head E k)) <->
             exists e o v, In (e, o) offsets /\ In (e, k, v) crossings).
Proof.
  intros HN E x. split; [apply view_average_is_head_mean, HN|].
  split; [apply view_levels_sorted|]. split.
  - intros k. rewrite view_levels_spec. unfold E. rewrite crossed_by_aligned. reflexivity.
  - intros k. apply crossed_by_aligned.
Qed.

(** (b) completeness: no level of the assembled curve is dropped *)
Theorem view_complete offsets crossings grid :
  (forall e o k v, In (e, o) offsets -> In (e, k, v) crossings -> In k grid) ->
  view_levels offsets crossings grid = curve_levels offsets crossings.
Proof.
  intros H. apply sorted_ext; [apply group_keys_sorted|apply group_keys_sorted|].
  intros k. rewrite view_levels_spec. unfold curve_levels. rewrite in_group_keys, in_map_iff. split.
  - intros (_ & Hex). apply crossed_by_aligned in Hex. destruct Hex as (c & Hc).
    apply at_head_in in Hc. exists c. tauto.
  - intros (c & <- & Hc).
    assert (Hex : exists c', In c' (at_head (aligned_entries offsets crossings) (e_head c)))
      by (exists c; apply at_head_in; auto).
    apply crossed_by_aligned in Hex. split; [|exact Hex].
    destruct Hex as (e & o & v & Ho & Hv). exact (H e o _ v Ho Hv).
Qed.

Theorem curve_levels_spec offsets crossings k :
  In k (curve_levels offsets crossings) <-> exists e o v, In (e, o) offsets /\ In (e, k, v) crossings.
Proof.
  unfold curve_levels. rewrite in_group_keys, in_map_iff, <- crossed_by_aligned. split.
  - intros (c & <- & Hc). exists c. apply at_head_in. auto.
  - intros (c & Hc). apply at_head_in in Hc. exists c. tauto.
Qed.

(** * (c) The origin *)

Lemma entries_from_shift m crossings : forall offsets n,
  entries_from n (shift_offsets m offsets) crossings = entries_from n offsets crossings.
Proof.
  unfold entries_from. induction offsets as [|o offsets IH]; intros n; [reflexivity|].
  cbn [shift_offsets map number_rows]. rewrite !join_on_cons. cbn [fst snd].
  f_equal. apply (IH (S n)).
Qed.

Lemma view_levels_shift m offsets crossings grid :
  view_levels (shift_offsets m offsets) crossings grid = view_levels offsets crossings grid.
Proof.
  apply sorted_ext; try apply view_levels_sorted. intros k. rewrite !view_levels_spec.
  split; intros (Hk & e & o & v & Ho & Hc); (split; [exact Hk|]).
  - unfold shift_offsets in Ho. apply in_map_iff in Ho. destruct Ho as ((e', o') & E & Ho).
    cbn in E. inversion E; subst. exists e, o', v. auto.
  - exists e, (o - m), v. split; [|exact Hc]. unfold shift_offsets. apply in_map_iff.
    exists (e, o). auto.
Qed.

Lemma offset_of_shift m offsets i : (i < length offsets)%nat ->
  offset_of (shift_offsets m offsets) i = offset_of offsets i - m.
Proof.
  unfold offset_of, shift_offsets. revert i. induction offsets as [|o l IH]; intros i Hi; simpl in *; [lia|].
  destruct i; [reflexivity|]. apply IH. lia.
Qed.

Lemma aligned_series_lt offsets crossings c :
  In c (aligned_entries offsets crossings) -> (e_series c < length offsets)%nat.
Proof.
  unfold aligned_entries. rewrite in_entries_from. intros (e & o & Hn & _).
  apply nth_error_Some. rewrite Nat.sub_0_r in Hn. congruence.
Qed.

(** What the view shows after the writers' shift by the level mean at [ref]:
    the curve measured from the reference level. *)
Theorem view_after_reference offsets crossings grid step ref :
  NoDup grid ->
  let E := aligned_entries offsets crossings in
  let x := offset_of offsets in
  let stored := store_with_reference offsets crossings ref in
  view_levels stored crossings grid = view_levels offsets crossings grid /\
  forall k, In k (view_levels offsets crossings grid) ->
    exists v, In (inject_Z k * step, v) (view_average stored crossings grid step) /\
              v == head_mean E x k - head_mean E x ref.
Proof.
  intros HN E x stored. unfold stored, store_with_reference. fold E x.
  set (m := head_mean E x ref).
  split; [apply view_levels_shift|]. intros k Hk.
  exists (head_mean (aligned_entries (shift_offsets m offsets) crossings)
                    (offset_of (shift_offsets m offsets)) k).
  split.
  - apply (view_average_row _ _ _ _ _ _ HN). exists k. rewrite view_levels_shift. auto.
  - unfold aligned_entries. rewrite entries_from_shift. fold (aligned_entries offsets crossings). fold E.
    apply view_levels_spec in Hk. destruct Hk as (_ & Hex). apply crossed_by_aligned in Hex.
    destruct Hex as (c & Hc). fold E in Hc.
    rewrite (master_shift E x (offset_of (shift_offsets m offsets)) (- m) k c Hc).
    + ring.
    + intros s Hs. unfold ids in Hs. apply nodup_In, in_map_iff in Hs. destruct Hs as (c' & <- & Hc').
      rewrite offset_of_shift by (eapply aligned_series_lt, Hc'). unfold x. ring.
Qed.

(** ... hence 0 at the reference level (via origin_at_reference, C09) *)
Theorem view_zero_at_reference offsets crossings grid step ref :
  NoDup grid -> In ref (view_levels offsets crossings grid) ->
  exists v, In (inject_Z ref * step, v)
               (view_average (store_with_reference offsets crossings ref) crossings grid step) /\
            v == 0.
Proof.
  intros HN Hk.
  pose proof (view_levels_spec offsets crossings grid ref) as S. apply S in Hk as Hk'.
  destruct Hk' as (_ & Hex). apply crossed_by_aligned in Hex. destruct Hex as (c & Hc).
  set (E := aligned_entries offsets crossings) in *. set (x := offset_of offsets).
  set (m := head_mean E x ref).
  exists (head_mean (aligned_entries (shift_offsets m offsets) crossings)
                    (offset_of (shift_offsets m offsets)) ref).
  split.
  - apply (view_average_row _ _ _ _ _ _ HN). exists ref.
    unfold store_with_reference. fold E x m. rewrite view_levels_shift. auto.
  - unfold aligned_entries. rewrite entries_from_shift. fold (aligned_entries offsets crossings). fold E.
    rewrite (master_shift E (fun s => x s - head_mean E x ref) (offset_of (shift_offsets m offsets)) 0 ref c Hc).
    + rewrite (origin_at_reference E x ref c Hc). ring.
    + intros s Hs. unfold ids in Hs. apply nodup_In, in_map_iff in Hs. destruct Hs as (c' & <- & Hc').
      rewrite offset_of_shift by (eapply aligned_series_lt, Hc'). subst x m. cbv beta. ring.
Qed.

(** Without a reference the writers take the highest level of the mapping; when
    no level is dropped that level is the LAST row of the view, and it is 0. *)
Theorem view_origin_is_top offsets crossings grid step :
  NoDup grid ->
  (forall e o k v, In (e, o) offsets -> In (e, k, v) crossings -> In k grid) ->
  curve_levels offsets crossings <> [] ->
  let top := last (curve_levels offsets crossings) 0%Z in
  (forall k, In k (curve_levels offsets crossings) -> (k <= top)%Z) /\
  exists v, last (view_average (store_with_reference offsets crossings top) crossings grid step) (0, 0)
            = (inject_Z top * step, v) /\ v == 0.
Proof.
  intros HN Hall Hne top. split.
  - intros k Hk. apply sorted_last_max; [apply group_keys_sorted|exact Hk].
  - set (E := aligned_entries offsets crossings). set (x := offset_of offsets).
    set (m := head_mean E x top).
    pose proof (view_complete offsets crossings grid Hall) as HC.
    assert (Htop : In top (view_levels offsets crossings grid))
      by (rewrite HC; apply last_in, Hne).
    unfold store_with_reference. fold E x m.
    rewrite (view_average_is_head_mean _ _ _ _ HN), view_levels_shift, HC.
    rewrite (last_map _ _ 0%Z (0, 0) Hne). fold top.
    eexists. split; [reflexivity|].
    apply view_levels_spec in Htop. destruct Htop as (_ & Hex). apply crossed_by_aligned in Hex.
    destruct Hex as (c & Hc). fold E in Hc.
    unfold aligned_entries. rewrite entries_from_shift. fold (aligned_entries offsets crossings). fold E.
    rewrite (master_shift E (fun s => x s - head_mean E x top) (offset_of (shift_offsets m offsets)) 0 top c Hc).
    + rewrite (origin_at_reference E x top c Hc). ring.
    + intros s Hs. unfold ids in Hs. apply nodup_In, in_map_iff in Hs. destruct Hs as (c' & <- & Hc').
      rewrite offset_of_shift by (eapply aligned_series_lt, Hc'). subst x m. cbv beta. ring.
Qed.

(** * (d) rising_curve_line_segment *)

Import DepthView.

Lemma in_total_rise_rows pairing zint wl s e zi zf :
  In (s, e, zi, zf) (total_rise_rows pairing zint wl) <->
  exists thru, In (e, s) pairing /\ In (e, thru) zint /\ In (e, zi) wl /\ In (thru, zf) wl.
Proof.
  unfold total_rise_rows. rewrite in_join_on. split.
  - intros ((((e1, s1), thru), zi1) & (ef, zf1) & H2 & Hf & E & Hrow). cbn in *. subst ef.
    inversion Hrow; subst. clear Hrow.
    apply in_join_on in H2. destruct H2 as (((e2, s2), thru2) & (ei, zi2) & H1 & Hi & E & Hrow).
    cbn in *. subst ei. inversion Hrow; subst. clear Hrow.
    apply in_join_on in H1. destruct H1 as ((e3, s3) & (ez, thru3) & Hp & Hz & E & Hrow).
    cbn in *. subst ez. inversion Hrow; subst. eexists. eauto.
  - intros (thru & Hp & Hz & Hi & Hf). exists (e, s, thru, zi), (thru, zf).
    split; [|auto]. apply in_join_on. exists (e, s, thru), (e, zi). split; [|auto].
    apply in_join_on. exists (e, s), (e, thru). auto.
Qed.

Lemma in_rain_depth_rows storms rain s d :
  In (s, d) (rain_depth_rows storms rain) <->
  exists sthru, In (s, sthru) storms /\ filter (in_storm s sthru) rain <> [] /\
                d = view_depth s sthru rain.
Proof.
  unfold rain_depth_rows. rewrite in_flat_map. split.
  - intros ((s1, sthru) & Hs & H). cbn [fst snd] in H.
    destruct (filter (in_storm s1 sthru) rain) eqn:F; [contradiction|].
    destruct H as [H|[]]. inversion H; subst. exists sthru. rewrite F. split; [exact Hs|].
    split; [discriminate|reflexivity].
  - intros (sthru & Hs & Hne & ->). exists (s, sthru). split; [exact Hs|]. cbn [fst snd].
    destruct (filter (in_storm s sthru) rain); [congruence|]. left. reflexivity.
Qed.

Theorem in_view_line_segments pairing zint wl storms rain offsets e o d zi zf :
  In (e, o, d, zi, zf) (view_line_segments pairing zint wl storms rain offsets) <->
  In (e, o) offsets /\
  exists s thru sthru, In (e, s) pairing /\ In (e, thru) zint /\ In (e, zi) wl /\ In (thru, zf) wl /\
    In (s, sthru) storms /\ filter (in_storm s sthru) rain <> [] /\ d = view_depth s sthru rain.
Proof.
  unfold view_line_segments. rewrite in_join_on. split.
  - intros (((((s1, e1), zi1), zf1), d1) & (eo, o1) & Hj & Ho & E & Hrow). cbn in *. subst eo.
    inversion Hrow; subst. clear Hrow. split; [exact Ho|].
    apply in_join_on in Hj. destruct Hj as ((((s2, e2), zi2), zf2) & (sd, d2) & Hr & Hd & E & Hrow).
    cbn in *. subst sd. inversion Hrow; subst. clear Hrow.
    apply in_total_rise_rows in Hr. destruct Hr as (thru & Hp & Hz & Hi & Hf).
    apply in_rain_depth_rows in Hd. destruct Hd as (sthru & Hs & Hne & Hd).
    do 3 eexists. eauto 10.
  - intros (Ho & s & thru & sthru & Hp & Hz & Hi & Hf & Hs & Hne & ->).
    exists (s, e, zi, zf, view_depth s sthru rain), (e, o). split; [|auto].
    apply in_join_on. exists (s, e, zi, zf), (s, view_depth s sthru rain). split.
    + apply in_total_rise_rows. exists thru. auto.
    + split; [|auto]. apply in_rain_depth_rows. exists sthru. auto.
Qed.

Lemma rain_depth_rows_keys storms rain :
  NoDup (map fst storms) -> NoDup (map fst (rain_depth_rows storms rain)).
Proof.
  induction storms as [|(s, sthru) storms IH]; simpl; intros HN; [constructor|].
  inversion HN as [|? ? Hn HN']; subst. rewrite map_app. apply views_NoDup_app.
  - destruct (filter (in_storm s sthru) rain); simpl; [constructor|].
    constructor; [intros []|constructor].
  - apply IH, HN'.
  - intros x Hx Hx'. destruct (filter (in_storm s sthru) rain); [contradiction|].
    destruct Hx as [<-|[]]. cbn in Hx'. apply in_map_iff in Hx'. destruct Hx' as ((s', d) & E & Hin).
    cbn in E. subst s'. apply in_rain_depth_rows in Hin. destruct Hin as (st & Hst & _).
    apply Hn. apply in_map_iff. exists (s, st). auto.
Qed.

(** at most one row per rise, given the PRIMARY KEYs of the five tables *)
Theorem line_segments_keys pairing zint wl storms rain offsets :
  NoDup (map fst pairing) -> NoDup (map fst zint) -> NoDup (map fst wl) ->
  NoDup (map fst storms) -> NoDup (map fst offsets) ->
  NoDup (map seg_epoch (view_line_segments pairing zint wl storms rain offsets)).
Proof.
  intros Hp Hz Hw Hs Ho. unfold view_line_segments.
  apply (join_on_key_nodup (fun rd : (Z * Z * Q * Q) * Q => snd (fst (fst (fst rd))))); [|exact Ho|reflexivity].
  apply (join_on_key_nodup (fun r : Z * Z * Q * Q => snd (fst (fst r))));
    [|apply rain_depth_rows_keys, Hs|reflexivity].
  unfold total_rise_rows.
  apply (join_on_key_nodup (fun r : Z * Z * Z * Q => fst (fst (fst r)))); [|exact Hw|reflexivity].
  apply (join_on_key_nodup (fun r : Z * Z * Z => fst (fst r))); [|exact Hw|reflexivity].
  apply (join_on_key_nodup (fun p : Z * Z => fst p)); [exact Hp|exact Hz|reflexivity].
Qed.

(** (d) rows only for aligned rises, each with its own offset; at most one per
    rise; one for every aligned rise whose classification rows exist. *)
Theorem line_segments_only_main_body pairing zint wl storms rain offsets :
  let V := view_line_segments pairing zint wl storms rain offsets in
  (forall r, In r V -> In (seg_epoch r, seg_offset r) offsets /\ exists s, In (seg_epoch r, s) pairing) /\
  (NoDup (map fst pairing) -> NoDup (map fst zint) -> NoDup (map fst wl) ->
   NoDup (map fst storms) -> NoDup (map fst offsets) -> NoDup (map seg_epoch V)) /\
  (forall e o s thru sthru zi zf,
     In (e, o) offsets -> In (e, s) pairing -> In (e, thru) zint -> In (e, zi) wl -> In (thru, zf) wl ->
     In (s, sthru) storms -> filter (in_storm s sthru) rain <> [] ->
     In (e, o, view_depth s sthru rain, zi, zf) V).
Proof.
  intros V. split; [|split].
  - intros ((((e, o), d), zi), zf) Hr. apply in_view_line_segments in Hr.
    destruct Hr as (Ho & s & _ & _ & Hp & _). cbn. split; [exact Ho|]. exists s. exact Hp.
  - apply line_segments_keys.
  - intros e o s thru sthru zi zf Ho Hp Hz Hi Hf Hs Hne. apply in_view_line_segments.
    split; [exact Ho|]. exists s, thru, sthru. auto 10.
Qed.

(** Exactly one row per aligned rise when, besides the keys, every aligned rise
    has its classification rows (what the foreign keys of the schema say). *)
Theorem line_segments_one_per_aligned_rise pairing zint wl storms rain offsets :
  NoDup (map fst pairing) -> NoDup (map fst zint) -> NoDup (map fst wl) ->
  NoDup (map fst storms) -> NoDup (map fst offsets) ->
  (forall e o, In (e, o) offsets -> exists s thru sthru zi zf,
     In (e, s) pairing /\ In (e, thru) zint /\ In (e, zi) wl /\ In (thru, zf) wl /\
     In (s, sthru) storms /\ filter (in_storm s sthru) rain <> []) ->
  Permutation (map (fun r => (seg_epoch r, seg_offset r))
                   (view_line_segments pairing zint wl storms rain offsets)) offsets.
Proof.
  intros Hp Hz Hw Hs Ho Hfk.
  pose proof (line_segments_keys pairing zint wl storms rain offsets Hp Hz Hw Hs Ho) as HK.
  apply NoDup_Permutation.
  - revert HK. generalize (view_line_segments pairing zint wl storms rain offsets). intros V.
    induction V as [|r V IH]; simpl; intros HK; [constructor|].
    inversion HK as [|? ? Hn HK']; subst. constructor; [|apply IH, HK'].
    intros C. apply Hn. apply in_map_iff in C. destruct C as (r' & E & Hr'). injection E as E1 E2.
    rewrite <- E1. apply in_map, Hr'.
  - revert Ho. generalize offsets. intros l. induction l as [|(e, o) l IH]; simpl; intros H; [constructor|].
    inversion H as [|? ? Hn H']; subst. constructor; [|apply IH, H'].
    intros C. apply Hn. apply in_map_iff. exists (e, o). auto.
  - intros (e, o). rewrite in_map_iff. split.
    + intros (((((e', o'), d), zi), zf) & E & Hr). cbn in E. inversion E; subst.
      apply in_view_line_segments in Hr. tauto.
    + intros Hin. destruct (Hfk e o Hin) as (s & thru & sthru & zi & zf & A1 & A2 & A3 & A4 & A5 & A6).
      exists (e, o, view_depth s sthru rain, zi, zf). split; [reflexivity|].
      apply in_view_line_segments. split; [exact Hin|]. exists s, thru, sthru. auto 10.
Qed.

(** * The tables a writer produces from (sids, offs, mapping)

    [written_offsets] / [written_crossings] are the rows rise.py / recession.py
    insert from the result of get_series_time_offsets (before the reference
    shift).  The level mean the view then shows is the level mean of the
    mapping's own entries under the fitted offsets:
    [head_mean (entries_of hm) (assignment sids offs)], the quantity the
    theorems of C05 / C08 / C09 speak about. *)

Lemma flat_map_nil_fun {A B} (l : list A) : flat_map (fun _ : A => @nil B) l = [].
Proof. induction l; simpl; auto. Qed.

Lemma flat_map_app_perm {A B} (f g : A -> list B) l :
  Permutation (flat_map (fun a => f a ++ g a) l) (flat_map f l ++ flat_map g l).
Proof.
  induction l as [|a l IH]; simpl; [constructor|].
  rewrite <- !app_assoc. apply Permutation_app_head.
  eapply perm_trans; [apply Permutation_app_head, IH|].
  rewrite !app_assoc. apply Permutation_app_tail, Permutation_app_comm.
Qed.

Lemma flat_map_swap {A B C} (h : A -> B -> list C) la lb :
  Permutation (flat_map (fun a => flat_map (fun b => h a b) lb) la)
              (flat_map (fun b => flat_map (fun a => h a b) la) lb).
Proof.
  induction la as [|a la IH]; simpl.
  - rewrite flat_map_nil_fun. constructor.
  - eapply perm_trans; [apply Permutation_app_head, IH|].
    symmetry. apply (flat_map_app_perm (h a) (fun b => flat_map (fun a' => h a' b) la)).
Qed.

Lemma flat_map_flat_map {A B C} (f : B -> list C) (g : A -> list B) l :
  flat_map f (flat_map g l) = flat_map (fun a => flat_map f (g a)) l.
Proof. induction l as [|a l IH]; simpl; [reflexivity|]. rewrite flat_map_app, IH. reflexivity. Qed.

Lemma flat_map_map {A B C} (f : B -> list C) (g : A -> B) l :
  flat_map f (map g l) = flat_map (fun a => f (g a)) l.
Proof. induction l as [|a l IH]; simpl; [reflexivity|]. rewrite IH. reflexivity. Qed.

Fixpoint find_pos (s : nat) (l : list nat) : nat :=
  match l with
  | [] => 0%nat
  | y :: t => if Nat.eqb s y then 0%nat else S (find_pos s t)
  end.

Section Written.
Variable start_of : nat -> Z.
Variable a : nat -> Q.          (* the offset stored for a series id *)

Lemma lookup_none {C} (G : nat * (Z * Q) -> list C) s : forall l n,
  (forall s', In s' l -> start_of s' <> start_of s) ->
  flat_map (fun io : nat * (Z * Q) => if Z.eqb (start_of s) (fst (snd io)) then G io else [])
           (number_rows n (map (fun s' => (start_of s', a s')) l)) = [].
Proof.
  induction l as [|y l IH]; intros n H; [reflexivity|]. cbn [map number_rows flat_map fst snd].
  destruct (Z.eqb_spec (start_of s) (start_of y)) as [E|E].
  - exfalso. apply (H y); [left; reflexivity|congruence].
  - apply IH. intros s' Hs'. apply H. right. exact Hs'.
Qed.

Lemma lookup_one {C} (G : nat * (Z * Q) -> list C) s : forall l n,
  NoDup l -> (forall x y, In x l -> In y l -> start_of x = start_of y -> x = y) -> In s l ->
  flat_map (fun io : nat * (Z * Q) => if Z.eqb (start_of s) (fst (snd io)) then G io else [])
           (number_rows n (map (fun s' => (start_of s', a s')) l))
  = G ((n + find_pos s l)%nat, (start_of s, a s)).
Proof.
  induction l as [|y l IH]; intros n HN Hinj Hs; [contradiction|].
  inversion HN as [|? ? Hnin HN']; subst.
  cbn [map number_rows flat_map fst snd find_pos].
  destruct (Nat.eqb_spec s y) as [E|E].
  - subst y. rewrite Z.eqb_refl, Nat.add_0_r. rewrite lookup_none; [apply app_nil_r|].
    intros s' Hs' Ceq. apply Hnin.
    assert (Es : s' = s) by (apply Hinj; [right; exact Hs'|left; reflexivity|exact Ceq]).
    subst s'. exact Hs'.
  - destruct Hs as [Hs|Hs]; [congruence|].
    destruct (Z.eqb_spec (start_of s) (start_of y)) as [E'|E'].
    + exfalso. apply E. apply Hinj; [right; exact Hs|left; reflexivity|exact E'].
    + rewrite (IH (S n) HN' (fun x0 y0 Hx Hy => Hinj x0 y0 (or_intror Hx) (or_intror Hy)) Hs).
      rewrite Nat.add_succ_r. reflexivity.
Qed.

Lemma nth_find_pos s l : In s l -> nth (find_pos s l) (map a l) 0 = a s.
Proof.
  induction l as [|y l IH]; intros H; [contradiction|]. cbn [find_pos map].
  destruct (Nat.eqb_spec s y) as [E|E]; [subst; reflexivity|].
  destruct H as [H|H]; [congruence|]. cbn [nth]. apply IH, H.
Qed.
End Written.

Theorem written_view_is_mapping_mean (start_of : nat -> Z) (hm : head_mapping) sids offs :
  NoDup sids ->
  (forall x y, In x sids -> In y sids -> start_of x = start_of y -> x = y) ->
  (forall k cs s v, In (k, cs) hm -> In (s, v) cs -> In s sids) ->
  let O := written_offsets start_of sids offs in
  let Cr := written_crossings start_of hm in
  forall k, head_mean (aligned_entries O Cr) (offset_of O) k
            == head_mean (entries_of hm) (assignment sids offs) k.
Proof.
  intros HN Hinj Hin O Cr k.
  set (f := fun c => {| e_head := e_head c; e_series := find_pos (e_series c) sids; e_val := e_val c |}).
  assert (HP : Permutation (aligned_entries O Cr) (map f (entries_of hm))).
  { unfold aligned_entries, entries_from, join_on.
    eapply perm_trans; [apply flat_map_swap|].
    unfold Cr, written_crossings, entries_of. rewrite flat_map_flat_map.
    match goal with |- Permutation ?l ?r => assert (EQ : l = r); [|rewrite EQ; apply Permutation_refl] end.
    clear k. induction hm as [|(k, cs) hm' IH]; [reflexivity|].
    cbn [flat_map]. rewrite map_app, IH by (intros k' cs' s v H1 H2; eapply Hin; [right; exact H1|exact H2]).
    f_equal. cbn [fst snd]. rewrite flat_map_map.
    assert (Hcs : forall s v, In (s, v) cs -> In s sids)
      by (intros s v H; eapply Hin; [left; reflexivity|exact H]).
    clear IH Hin. cbn [fst snd]. induction cs as [|(s, v) cs IHc]; [reflexivity|].
    cbn [flat_map map fst snd]. rewrite IHc by (intros s' v' H; eapply Hcs; right; exact H).
    unfold O, written_offsets.
    rewrite (lookup_one start_of (assignment sids offs)
               (fun io => [{| e_head := k; e_series := fst io; e_val := v |}]) s sids 0%nat HN Hinj
               (Hcs s v (or_introl eq_refl))).
    reflexivity. }
  rewrite (master_perm _ _ (Permutation_sym HP) (offset_of O) k).
  apply master_transport.
  - reflexivity.
  - intros c Hc. unfold shifted, f. cbn [e_series e_val].
    unfold entries_of in Hc. apply in_flat_map in Hc. destruct Hc as ((k', cs) & Hp & Hc).
    apply in_map_iff in Hc. destruct Hc as ((s, v) & <- & Hsv). cbn [e_series e_val fst snd].
    unfold offset_of, O, written_offsets. rewrite map_map. cbn [snd].
    rewrite (nth_find_pos (fun x => assignment sids offs x) s sids (Hin k' cs s v Hp Hsv)). reflexivity.
Qed.

(** ... so every row of the view over the written tables carries the mapping's
    level mean under the fitted offsets *)
Theorem written_view_rows (start_of : nat -> Z) (hm : head_mapping) sids offs grid step :
  NoDup grid -> NoDup sids ->
  (forall x y, In x sids -> In y sids -> start_of x = start_of y -> x = y) ->
  (forall k cs s v, In (k, cs) hm -> In (s, v) cs -> In s sids) ->
  let O := written_offsets start_of sids offs in
  let Cr := written_crossings start_of hm in
  forall z v, In (z, v) (view_average O Cr grid step) ->
    exists k, In k grid /\ z = inject_Z k * step /\
              (exists cs c, In (k, cs) hm /\ In c cs) /\
              v == head_mean (entries_of hm) (assignment sids offs) k.
Proof.
  intros HG HN Hinj Hin O Cr z v Hzv.
  apply (view_average_row _ _ _ _ _ _ HG) in Hzv. destruct Hzv as (k & Hk & -> & ->).
  exists k. apply view_levels_spec in Hk. destruct Hk as (Hkg & e & o & w & _ & Hc).
  split; [exact Hkg|]. split; [reflexivity|]. split.
  - unfold Cr, written_crossings in Hc. apply in_flat_map in Hc. destruct Hc as ((k', cs) & Hp & Hc).
    apply in_map_iff in Hc. destruct Hc as (c & E & Hcin). cbn in E. inversion E; subst.
    exists cs, c. auto.
  - apply (written_view_is_mapping_mean start_of hm sids offs HN Hinj Hin k).
Qed.
