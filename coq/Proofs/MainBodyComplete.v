(** Solver completeness carried to the model of get_series_time_offsets
    ([Model.Components.offsets_from_mapping]): on every head mapping that is a
    dict whose levels list distinct intervals, the fit of the main body never
    ends in a linear-algebra refusal; as soon as some level is crossed by two
    intervals it returns offsets.  Combines [ComponentsSpec.main_body_connected]
    with [FindOffsetsComplete.find_offsets_complete]. *)
From Spowtd Require Import Model.Components Proofs.QSum Proofs.FitOffsetsSpec Proofs.FindOffsetsSpec
  Proofs.ComponentsSpec Proofs.FindOffsetsComplete.
From Coq Require Import Lia Relations.

Theorem main_body_offsets_exist (hm : head_mapping) :
  NoDup (map fst hm) ->
  (forall p, In p hm -> NoDup (map fst (snd p))) ->
  components (series_at_head hm) <> [] ->
  exists sids offs levels, offsets_from_mapping hm = Ok (sids, offs, levels).
Proof.
  intros Hnd Hser Hne.
  destruct (components (series_at_head hm)) as [|main rest] eqn:Hc; [contradiction|].
  unfold offsets_from_mapping. rewrite Hc. cbv zeta.
  set (sub := filter (fun p : Z * list crossing => mem_Z (fst p) main) hm).
  assert (Hconn : connected (entries_of (drop_single sub))) by exact (main_body_connected hm Hnd main rest Hc).
  assert (Hnds : NoDup (map fst sub)) by (apply NoDup_map_filter'; exact Hnd).
  assert (Hsers : forall p, In p sub -> NoDup (map fst (snd p))).
  { intros p Hp. apply Hser. apply filter_In in Hp. exact (proj1 Hp). }
  assert (Hnonempty : entries_of (drop_single sub) <> []).
  { unfold sub. rewrite (drop_single_sub hm Hnd main rest Hc). fold sub.
    destruct (main_class hm Hnd main rest Hc) as (h0 & _ & Hks).
    assert (Hh0 : In h0 main) by (apply Hks; apply rt_refl).
    destruct (main_multi hm Hnd main rest Hc h0 Hh0) as (cs & Hin & Hlen).
    assert (Hsub : In (h0, cs) sub) by (apply (sub_in hm main); auto).
    destruct cs as [|[s v] t]; [cbn in Hlen; lia|].
    destruct (entries_of_cross sub h0 ((s, v) :: t) s Hsub (or_introl eq_refl)) as (c & Hcin & _).
    intros Hnil. rewrite Hnil in Hcin. destruct Hcin. }
  destruct (find_offsets_complete sub Hnds Hsers Hconn Hnonempty) as (offs & Hfo).
  rewrite Hfo. eexists. eexists. eexists. reflexivity.
Qed.

Corollary main_body_never_linalg (hm : head_mapping) :
  NoDup (map fst hm) ->
  (forall p, In p hm -> NoDup (map fst (snd p))) ->
  offsets_from_mapping hm <> Err ELinAlg.
Proof.
  intros Hnd Hser. destruct (components (series_at_head hm)) as [|main rest] eqn:Hc.
  - unfold offsets_from_mapping. rewrite Hc. discriminate.
  - destruct (main_body_offsets_exist hm Hnd Hser) as (sids & offs & levels & ->); [|discriminate].
    rewrite Hc. discriminate.
Qed.
