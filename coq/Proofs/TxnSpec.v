(** C20 — proofs about the transaction protocol model (Model/Txn.v). *)
From Coq Require Import List Bool Arith Lia Permutation.
From Spowtd Require Import Model.Util Model.Txn.
Import ListNotations.

Section TxnProofs.
  Variable St : Type.
  Notation event := (event St).
  Notation conn := (conn St).

  (** The store the connection currently sees. *)
  Definition cur (s : St * conn) : St :=
    match snd s with Idle => fst s | InTxn x => x end.

  Lemma step_body : forall (s : St * conn) e, is_body e = true ->
    fst (step s e) = fst s /\ cur (step s e) = effect_ev (cur s) e.
  Proof.
    intros [c k] e He. destruct e; simpl in He; try discriminate;
      destruct k; simpl; auto.
  Qed.

  Lemma run_from_body : forall b (s : St * conn), body_only b ->
    fst (run_from s b) = fst s /\ cur (run_from s b) = effect b (cur s).
  Proof.
    induction b as [|e b IH]; intros s Hb.
    - simpl. auto.
    - unfold body_only in Hb. simpl in Hb. apply andb_true_iff in Hb. destruct Hb as [He Hb].
      unfold run_from, effect. simpl.
      destruct (step_body s e He) as [H1 H2].
      destruct (IH (step s e) Hb) as [H3 H4].
      unfold run_from, effect in H3, H4. split.
      + rewrite H3. exact H1.
      + rewrite H4. rewrite H2. reflexivity.
  Qed.

  Lemma run_from_app : forall a b (s : St * conn),
    run_from s (a ++ b) = run_from (run_from s a) b.
  Proof. intros. unfold run_from. apply fold_left_app. Qed.

  Lemma run_from_snoc : forall b e (s : St * conn),
    run_from s (b ++ [e]) = step (run_from s b) e.
  Proof. intros. rewrite run_from_app. reflexivity. Qed.

  Lemma step_publish : forall (s : St * conn) e, e = Commit \/ e = ExitOk ->
    fst (step s e) = cur s /\ snd (step s e) = Idle.
  Proof.
    intros [c k] e [-> | ->]; destruct k; simpl; auto.
  Qed.

  Lemma step_drop : forall (s : St * conn) e, e = Rollback \/ e = ExitExn ->
    fst (step s e) = fst s /\ snd (step s e) = Idle.
  Proof.
    intros [c k] e [-> | ->]; destruct k; simpl; auto.
  Qed.

  Lemma step_idle_fst : forall (c : St) e, is_body e = false ->
    step (c, Idle) e = (c, Idle).
  Proof. intros c e He. destruct e; simpl in *; try discriminate; reflexivity. Qed.

  (** A body followed by an exception, or just stopping: nothing is published. *)
  Lemma run_body_kill : forall b (s : St), body_only b -> run b s = s.
  Proof.
    intros b s Hb. unfold run. destruct (run_from_body b (s, Idle) Hb) as [H _]. exact H.
  Qed.

  Lemma run_body_exn : forall b (s : St), body_only b -> run (b ++ [ExitExn]) s = s.
  Proof.
    intros b s Hb. unfold run. rewrite run_from_snoc.
    destruct (run_from_body b (s, Idle) Hb) as [H _].
    destruct (step_drop (run_from (s, Idle) b) ExitExn (or_intror (eq_refl (@ExitExn St)))) as [H1 _].
    rewrite H1. exact H.
  Qed.

  Lemma failed_attempt_invisible : forall a (s : St), failed_attempt a -> run a s = s.
  Proof.
    intros a s H. destruct H as [b Hb | b Hb].
    - apply run_body_exn; assumption.
    - apply run_body_kill; assumption.
  Qed.

  (** State after a body and a publishing event. *)
  Lemma run_from_body_publish : forall b e (s : St), body_only b -> e = Commit \/ e = ExitOk ->
    run_from (s, Idle) (b ++ [e]) = (effect b s, Idle).
  Proof.
    intros b e s Hb He. rewrite run_from_snoc.
    destruct (run_from_body b (s, Idle) Hb) as [_ H2].
    destruct (step_publish (run_from (s, Idle) b) e He) as [H3 H4].
    rewrite (surjective_pairing (step (run_from (s, Idle) b) e)).
    rewrite H3, H4, H2. reflexivity.
  Qed.

  (** A complete step publishes exactly the effect of its body. *)
  Lemma run_shaped : forall tr b (s : St), step_shape tr b -> run tr s = effect b s.
  Proof.
    intros tr b s H. destruct H as [b Hb | b Hb]; unfold run.
    - rewrite run_from_body_publish by auto. reflexivity.
    - change [Commit; ExitOk] with ([Commit] ++ [@ExitOk St]).
      rewrite app_assoc, run_from_app, run_from_body_publish by auto.
      reflexivity.
  Qed.

  Lemma body_only_firstn : forall k (b : list event), body_only b -> body_only (firstn k b).
  Proof.
    unfold body_only. induction k as [|k IH]; intros b Hb; simpl; auto.
    destruct b as [|e b]; simpl in *; auto.
    apply andb_true_iff in Hb. destruct Hb as [He Hb]. rewrite He. simpl. auto.
  Qed.

  Lemma body_only_length_firstn : forall k (b rest : list event), k <= length b ->
    firstn k (b ++ rest) = firstn k b.
  Proof.
    intros k b rest Hk. rewrite firstn_app.
    replace (k - length b) with 0 by lia. simpl. apply app_nil_r.
  Qed.

  Lemma shape_split : forall (tr b : list event), step_shape tr b ->
    body_only b /\ exists rest, tr = b ++ rest /\ (rest = [ExitOk] \/ rest = [Commit; ExitOk]).
  Proof.
    intros tr b H. destruct H as [b Hb | b Hb]; split; auto; eexists; split; eauto.
  Qed.

  (** Fault before the publishing event: the file keeps its previous content. *)
  Lemma cut_early_pre : forall tr b k f (s : St), step_shape tr b -> k <= length b ->
    run (cut k f tr) s = s.
  Proof.
    intros tr b k f s H Hk. destruct (shape_split tr b H) as [Hb [rest [-> _]]].
    unfold cut. rewrite body_only_length_firstn by exact Hk.
    pose proof (body_only_firstn k b Hb) as Hf.
    destruct f.
    - apply run_body_exn; exact Hf.
    - rewrite app_nil_r. apply run_body_kill; exact Hf.
  Qed.

  Lemma run_after_idle : forall (c : St) (l : list event),
    forallb (fun e => negb (is_body e)) l = true -> run_from (c, Idle) l = (c, Idle).
  Proof.
    intros c l. induction l as [|e l IH]; intros Hl; simpl in *.
    - reflexivity.
    - apply andb_true_iff in Hl. destruct Hl as [He Hl].
      unfold run_from in *. simpl. rewrite step_idle_fst.
      + apply IH; exact Hl.
      + destruct (is_body e); simpl in He; congruence.
  Qed.

  (** Fault after the publishing event: the file holds the complete result. *)
  Lemma cut_late_post : forall tr b k f (s : St), step_shape tr b -> length b < k ->
    run (cut k f tr) s = run tr s.
  Proof.
    intros tr b k f s H Hk. rewrite (run_shaped tr b s H).
    destruct (shape_split tr b H) as [Hb [rest [-> Hrest]]].
    unfold cut. rewrite firstn_app. rewrite firstn_all2 by lia.
    remember (k - length b) as m eqn:Hm.
    destruct m as [|m]; [lia|].
    assert (Hpub : exists e tail, (e = Commit \/ e = ExitOk) /\
              firstn (S m) rest = e :: tail /\
              forallb (fun e => negb (@is_body St e)) tail = true).
    { destruct Hrest as [-> | ->].
      - exists ExitOk, []. simpl. destruct m; auto.
      - exists Commit. destruct m as [|m]; simpl.
        + exists []. auto.
        + exists [ExitOk]. destruct m; simpl; auto. }
    destruct Hpub as [e [tail [He [Hfirst Htail]]]]. rewrite Hfirst.
    unfold run.
    replace ((b ++ e :: tail) ++ match f with FExn => [ExitExn] | FKill => [] end)
      with ((b ++ [e]) ++ (tail ++ match f with FExn => [@ExitExn St] | FKill => [] end)).
    2:{ rewrite <- !app_assoc. reflexivity. }
    rewrite run_from_app, run_from_body_publish by auto.
    rewrite run_after_idle. reflexivity.
    rewrite forallb_app, Htail. destruct f; reflexivity.
  Qed.

  (** All-or-nothing. *)
  Lemma atomic : forall tr b, step_shape tr b -> forall k f (s : St),
    run (cut k f tr) s = s \/ run (cut k f tr) s = run tr s.
  Proof.
    intros tr b H k f s. destruct (le_lt_dec k (length b)) as [Hk | Hk].
    - left. eapply cut_early_pre; eauto.
    - right. eapply cut_late_post; eauto.
  Qed.

  (** A failed attempt leaves the step runnable: running it again gives what a
      first run would have given; otherwise the attempt already was complete. *)
  Lemma retry : forall tr b, step_shape tr b -> forall k f (s : St),
    (run (cut k f tr) s = s /\ run tr (run (cut k f tr) s) = run tr s)
    \/ run (cut k f tr) s = run tr s.
  Proof.
    intros tr b H k f s. destruct (le_lt_dec k (length b)) as [Hk | Hk].
    - left. rewrite (cut_early_pre tr b k f s H Hk). auto.
    - right. eapply cut_late_post; eauto.
  Qed.

  Lemma cut_early_failed : forall (tr b : list event) k f, step_shape tr b -> k <= length b ->
    failed_attempt (cut k f tr).
  Proof.
    intros tr b k f H Hk. destruct (shape_split tr b H) as [Hb [rest [-> _]]].
    unfold cut. rewrite body_only_length_firstn by exact Hk.
    pose proof (body_only_firstn k b Hb) as Hf.
    destruct f.
    - apply failed_exn; exact Hf.
    - rewrite app_nil_r. apply failed_kill; exact Hf.
  Qed.

  (** Failed attempts, wherever they occur in a history, leave no trace. *)
  Lemma failures_invisible : forall h h', erase_failed h h' ->
    forall s : St, run_history h s = run_history h' s.
  Proof.
    intros h h' H. induction H as [| a h h' _ IH | a h h' Ha _ IH]; intros s.
    - reflexivity.
    - unfold run_history in *. simpl. apply IH.
    - unfold run_history in *. simpl. rewrite (failed_attempt_invisible a s Ha). apply IH.
  Qed.

  (** A history of complete steps is the composition of their effects. *)
  Lemma history_of_steps : forall trs bs, Forall2 (@step_shape St) trs bs ->
    forall s : St, run_history trs s = fold_left (fun s b => effect b s) bs s.
  Proof.
    intros trs bs H. induction H as [| tr b trs bs Hs _ IH]; intros s.
    - reflexivity.
    - unfold run_history in *. simpl. rewrite (run_shaped tr b s Hs). apply IH.
  Qed.

  (** Converse direction of the shape check (a): a trace with a commit in the
      middle is NOT atomic in general — the model itself exhibits the mixture, so
      the shape hypothesis of [atomic] is what carries the property. *)
  Lemma early_commit_not_atomic : forall (w1 w2 : St -> St) s,
    w1 s <> s -> w2 (w1 s) <> w1 s ->
    let tr := [Dml 1 w1; Commit; Dml 1 w2; Commit; ExitOk] in
    run (cut 3 FExn tr) s <> s /\ run (cut 3 FExn tr) s <> run tr s.
  Proof.
    intros w1 w2 s H1 H2. simpl. unfold run, cut. simpl. split; auto.
  Qed.
End TxnProofs.

(** * Read / write sets and commutation *)
Section FrameProofs.
  Variable table : Type.
  Variable row : Type.
  Variable table_eq_dec : forall a b : table, {a = b} + {a <> b}.
  Notation store := (store table row).
  Notation dstep := (dstep table row).

  Lemma store_eq_refl : forall s : store, store_eq s s.
  Proof. intros s t. reflexivity. Qed.

  Lemma store_eq_sym : forall s s' : store, store_eq s s' -> store_eq s' s.
  Proof. intros s s' H t. symmetry. apply H. Qed.

  Lemma store_eq_trans : forall s1 s2 s3 : store,
    store_eq s1 s2 -> store_eq s2 s3 -> store_eq s1 s3.
  Proof. intros s1 s2 s3 H1 H2 t. rewrite H1. apply H2. Qed.

  (** A step that respects its sets maps equal stores to equal stores. *)
  Lemma respects_congr : forall R W (f : store -> store), respects R W f ->
    forall s s', store_eq s s' -> store_eq (f s) (f s').
  Proof.
    intros R W f [Hw Hr] s s' Heq t.
    destruct (in_dec table_eq_dec t W) as [Hin | Hout].
    - apply (Hr s s'); [|exact Hin]. intros u _. apply Heq.
    - rewrite (Hw s t Hout), (Hw s' t Hout). apply Heq.
  Qed.

  (** Steps whose write sets are disjoint from everything the other one touches
      commute. *)
  Lemma commute : forall Rf Wf Rg Wg (f g : store -> store),
    respects Rf Wf f -> respects Rg Wg g ->
    disjoint Wf (Rg ++ Wg) -> disjoint Wg (Rf ++ Wf) ->
    forall s, store_eq (f (g s)) (g (f s)).
  Proof.
    intros Rf Wf Rg Wg f g [Hwf Hrf] [Hwg Hrg] Dfg Dgf s t.
    destruct (in_dec table_eq_dec t Wf) as [Hf | Hnf].
    - (* written by f: g neither writes it nor changes what f reads *)
      assert (Hng : ~ In t Wg).
      { intro Hg. apply (Dfg t Hf). apply in_or_app. right. exact Hg. }
      rewrite (Hwg (f s) t Hng).
      apply (Hrf (g s) s); [|exact Hf].
      intros u Hu. apply Hwg. intro Hg. exact (Dgf u Hg Hu).
    - rewrite (Hwf (g s) t Hnf).
      destruct (in_dec table_eq_dec t Wg) as [Hg | Hng].
      + symmetry. apply (Hrg (f s) s); [|exact Hg].
        intros u Hu. apply Hwf. intro Hf. exact (Dfg u Hf Hu).
      + rewrite (Hwg s t Hng), (Hwg (f s) t Hng), (Hwf s t Hnf). reflexivity.
  Qed.

  Lemma indep_sym : forall f g : dstep, indep f g -> indep g f.
  Proof. intros f g [H1 H2]. split; assumption. Qed.

  Lemma commute_dsteps : forall f g : dstep, valid f -> valid g -> indep f g ->
    forall s, store_eq (d_fun f (d_fun g s)) (d_fun g (d_fun f s)).
  Proof.
    intros f g Vf Vg [D1 D2] s. eapply commute; eauto.
  Qed.

  Lemma apply_steps_congr : forall l : list dstep, Forall valid l ->
    forall s s', store_eq s s' -> store_eq (apply_steps l s) (apply_steps l s').
  Proof.
    induction l as [|d l IH]; intros Hv s s' Heq.
    - exact Heq.
    - inversion Hv as [|? ? Vd Vl]; subst. unfold apply_steps in *. simpl.
      apply IH; [exact Vl|]. eapply respects_congr; eauto.
  Qed.

  Lemma pairwise_indep_perm : forall l l' : list dstep, Permutation l l' ->
    pairwise_indep l -> pairwise_indep l'.
  Proof.
    intros l l' P. induction P as [| x l l' P IH | x y l | l1 l2 l3 P1 IH1 P2 IH2]; intros H.
    - exact H.
    - inversion H as [|? ? Hx Hl]; subst. constructor.
      + eapply Permutation_Forall; eauto.
      + apply IH; exact Hl.
    - inversion H as [|? ? Hy Hr]; subst. inversion Hr as [|? ? Hx Hl]; subst.
      inversion Hy as [|? ? Hyx Hyl]; subst.
      constructor.
      + constructor; [apply indep_sym; exact Hyx | exact Hx].
      + constructor; assumption.
    - auto.
  Qed.

  (** Any two orders of pairwise independent steps give the same dataset. *)
  Lemma order_irrelevant : forall l l' : list dstep, Permutation l l' ->
    Forall valid l -> pairwise_indep l ->
    forall s, store_eq (apply_steps l s) (apply_steps l' s).
  Proof.
    intros l l' P. induction P as [| x l l' P IH | x y l | l1 l2 l3 P1 IH1 P2 IH2];
      intros Hv Hi s.
    - apply store_eq_refl.
    - inversion Hv; subst. inversion Hi; subst.
      unfold apply_steps in *. simpl. apply IH; assumption.
    - inversion Hv as [|? ? Vy Hv']; subst. inversion Hv' as [|? ? Vx Vl]; subst.
      inversion Hi as [|? ? Hy Hr]; subst. inversion Hy as [|? ? Hyx Hyl]; subst.
      unfold apply_steps. simpl.
      apply (apply_steps_congr l Vl).
      apply commute_dsteps; try assumption. apply indep_sym. exact Hyx.
    - eapply store_eq_trans.
      + apply IH1; assumption.
      + apply IH2.
        * eapply Permutation_Forall; eauto.
        * eapply pairwise_indep_perm; eauto.
  Qed.

  (** [implements g ds]: the complete steps [g] (shaped traces over table stores)
      have the transformers of the declared steps [ds] as effects. *)
  Definition implements (g : list (list (event store))) (ds : list dstep) : Prop :=
    Forall2 (fun tr d => exists b, step_shape tr b /\ forall x, effect b x = d_fun d x) g ds.

  Lemma history_as_steps : forall g ds, implements g ds ->
    forall s : store, run_history g s = apply_steps ds s.
  Proof.
    intros g ds H. induction H as [| tr d g ds [b [Hs He]] _ IH]; intros s.
    - reflexivity.
    - unfold run_history, apply_steps in *. simpl.
      rewrite (run_shaped store tr b s Hs), He. apply IH.
  Qed.

  (** Headline: two histories of the same pairwise independent steps, run in any
      two orders and with any failed attempts (of any step, cut anywhere before
      its commit, by exception or kill) in between, leave the same dataset. *)
  Lemma histories_agree : forall h1 h2 g1 g2 ds1 ds2,
    erase_failed h1 g1 -> erase_failed h2 g2 ->
    implements g1 ds1 -> implements g2 ds2 ->
    Permutation ds1 ds2 -> Forall valid ds1 -> pairwise_indep ds1 ->
    forall s : store, store_eq (run_history h1 s) (run_history h2 s).
  Proof.
    intros h1 h2 g1 g2 ds1 ds2 E1 E2 I1 I2 P V Ind s.
    rewrite (failures_invisible store h1 g1 E1 s), (failures_invisible store h2 g2 E2 s).
    rewrite (history_as_steps g1 ds1 I1 s), (history_as_steps g2 ds2 I2 s).
    apply order_irrelevant; assumption.
  Qed.
End FrameProofs.

(** * The declared sets of the five steps *)
Lemma tbl_eqb_eq : forall a b, tbl_eqb a b = true <-> a = b.
Proof.
  intros a b. split.
  - destruct a, b; vm_compute; intro H; try reflexivity; discriminate H.
  - intros ->. destruct b; reflexivity.
Qed.

Definition tbl_eq_dec : forall a b : tbl, {a = b} + {a <> b}.
Proof. decide equality. Defined.

Lemma mem_tbl_In : forall t l, mem_tbl t l = true <-> In t l.
Proof.
  intros t l. induction l as [|x l IH]; simpl.
  - split; [discriminate | tauto].
  - rewrite orb_true_iff, IH, tbl_eqb_eq. split; intros [H | H]; auto.
Qed.

Lemma disjointb_sound : forall A B, disjointb A B = true -> disjoint A B.
Proof.
  intros A B H t Hin Hb. unfold disjointb in H. rewrite forallb_forall in H.
  specialize (H t Hin). apply mem_tbl_In in Hb. rewrite Hb in H. discriminate H.
Qed.

Lemma indepb_sound : forall row (f g : dstep tbl row),
  indepb (d_reads f) (d_writes f) (d_reads g) (d_writes g) = true -> indep f g.
Proof.
  intros row f g H. unfold indepb in H. apply andb_true_iff in H. destruct H as [H1 H2].
  split; apply disjointb_sound; assumption.
Qed.

(** Independence of the declared sets (decided by computation on the lists). *)
Lemma indep_classify_zeta_grid : indepb R_classify W_classify R_zeta_grid W_zeta_grid = true.
Proof. vm_compute. reflexivity. Qed.
Lemma indep_classify_curvature : indepb R_classify W_classify R_curvature W_curvature = true.
Proof. vm_compute. reflexivity. Qed.
Lemma indep_zeta_grid_curvature : indepb R_zeta_grid W_zeta_grid R_curvature W_curvature = true.
Proof. vm_compute. reflexivity. Qed.
Lemma indep_rise_recession : indepb R_rise W_rise R_recession W_recession = true.
Proof. vm_compute. reflexivity. Qed.
(** ... and the dependent pairs are indeed NOT independent (the sets are not vacuous). *)
Lemma dep_classify_rise : indepb R_classify W_classify R_rise W_rise = false.
Proof. vm_compute. reflexivity. Qed.
Lemma dep_zeta_grid_recession : indepb R_zeta_grid W_zeta_grid R_recession W_recession = false.
Proof. vm_compute. reflexivity. Qed.

Section Declared.
  Variable row : Type.
  Notation dstep := (dstep tbl row).
  Notation store := (store tbl row).

  Definition declared (R W : list tbl) (f : store -> store) : dstep :=
    {| d_reads := R; d_writes := W; d_fun := f |}.

  (** classify, set-zeta-grid and set-curvature in any of their six orders. *)
  Lemma setup_steps_any_order : forall (classify grid curv : store -> store),
    respects R_classify W_classify classify ->
    respects R_zeta_grid W_zeta_grid grid ->
    respects R_curvature W_curvature curv ->
    forall l, Permutation [declared R_classify W_classify classify;
                           declared R_zeta_grid W_zeta_grid grid;
                           declared R_curvature W_curvature curv] l ->
    forall s, store_eq (curv (grid (classify s))) (apply_steps l s).
  Proof.
    intros classify grid curv Hc Hg Hk l P s.
    change (curv (grid (classify s))) with
      (apply_steps [declared R_classify W_classify classify;
                    declared R_zeta_grid W_zeta_grid grid;
                    declared R_curvature W_curvature curv] s).
    apply (order_irrelevant tbl row tbl_eq_dec _ _ P).
    - apply Forall_cons; [exact Hc|]. apply Forall_cons; [exact Hg|].
      apply Forall_cons; [exact Hk|]. apply Forall_nil.
    - constructor.
      + constructor; [apply indepb_sound; exact indep_classify_zeta_grid|].
        constructor; [apply indepb_sound; exact indep_classify_curvature|]. constructor.
      + constructor.
        * constructor; [apply indepb_sound; exact indep_zeta_grid_curvature|]. constructor.
        * constructor; constructor.
  Qed.

  Lemma rise_recession_commute : forall (rise recession : store -> store),
    respects R_rise W_rise rise -> respects R_recession W_recession recession ->
    forall s, store_eq (rise (recession s)) (recession (rise s)).
  Proof.
    intros rise recession Hr Hc s.
    apply (commute_dsteps tbl row tbl_eq_dec (declared R_rise W_rise rise)
                          (declared R_recession W_recession recession)); auto.
    apply indepb_sound. exact indep_rise_recession.
  Qed.
End Declared.
