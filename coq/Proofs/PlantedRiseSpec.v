(** C06, the rise side of the planted truth: with constant specific yield sigma
    a storm's series is the chord (0, Y0) -> (sigma (Y1 - Y0), Y1) (rise.py:
    depth 0 at the initial level, total depth at the final level; levels in
    units of the grid step).  Every crossing the regrid model reports for it is
    sigma k - sigma Y0: the planted relation [e_val = T(level) - c(interval)] of
    C06_planted_curve_recovered with T(k) = sigma k and c = sigma Y0. *)
From Spowtd Require Import Model.Regrid Proofs.RegridSpec.
From Coq Require Import QArith Lqa List.

Lemma rise_piece_crossing (sigma Y0 Y1 : Q) (k : Z) :
  ~ Y1 == Y0 ->
  cross 0 Y0 (sigma * (Y1 - Y0)) Y1 k == sigma * inject_Z k - sigma * Y0.
Proof.
  intros Hne. unfold cross. field. intros H. apply Hne. lra.
Qed.

Theorem rise_piece_is_planted (sigma Y0 Y1 : Q) (k : Z) (v : Q) :
  In (k, v) (seg_out (0, Y0) (sigma * (Y1 - Y0), Y1)) ->
  v == sigma * inject_Z k - sigma * Y0.
Proof.
  unfold seg_out. cbn [fst snd]. intros H. apply in_map_iff in H. destruct H as (k' & Heq & Hk).
  inversion Heq; subst k' v. apply rise_piece_crossing.
  intros Heq'. apply in_targets_ceil in Hk. revert Hk. apply between_flat. symmetry. exact Heq'.
Qed.

(** The recession side: a piece starting at underlying time c samples a curve
    whose inverse (level -> time) is affine between two consecutive samples
    (the recession curve is linear on every sampling step).  The crossing the
    regrid model reports on that pair is the underlying time of the level minus
    c - the planted relation with T = the inverse curve. *)
Lemma recession_pair_crossing (c x0 Y0 x1 Y1 TY0 TY1 Tk : Q) (k : Z) :
  ~ Y1 == Y0 ->
  TY0 == c + x0 -> TY1 == c + x1 ->
  Tk == TY0 + (inject_Z k - Y0) * (TY1 - TY0) / (Y1 - Y0) ->
  cross x0 Y0 x1 Y1 k == Tk - c.
Proof.
  intros Hne H0 H1 Hk. unfold cross. rewrite Hk, H0, H1. field. intros H. apply Hne. lra.
Qed.

Theorem recession_pair_is_planted (c x0 Y0 x1 Y1 TY0 TY1 Tk : Q) (k : Z) (v : Q) :
  TY0 == c + x0 -> TY1 == c + x1 ->
  Tk == TY0 + (inject_Z k - Y0) * (TY1 - TY0) / (Y1 - Y0) ->
  In (k, v) (seg_out (x0, Y0) (x1, Y1)) ->
  v == Tk - c.
Proof.
  intros H0 H1 Hk. unfold seg_out. cbn [fst snd]. intros H. apply in_map_iff in H.
  destruct H as (k' & Heq & Hin). inversion Heq; subst k' v.
  apply (recession_pair_crossing c x0 Y0 x1 Y1 TY0 TY1 Tk k); try assumption.
  intros Heq'. apply in_targets_ceil in Hin. revert Hin. apply between_flat. symmetry. exact Heq'.
Qed.
