(** C06, the rise side of the planted truth: with constant specific yield sigma
    a storm's series is the chord (0, Y0) -> (sigma (Y1 - Y0), Y1) (rise.py:
    depth 0 at the initial level, total depth at the final level; levels in
    units of the grid step).  Every crossing the regrid model reports for it is
    sigma k - sigma Y0: the planted relation [e_val = T(level) - c(interval)] of
    C06_planted_curve_recovered with T(k) = sigma k and c = sigma Y0. *)
From Spowtd Require Import Model.Regrid Proofs.RegridSpec.
From Coq Require Import QArith Lqa List.

Lemma rise_piece_crossing (sigma Y0 Y1 : Q) (k : Z) :
  ~ Y1 == Y0 ->
  cross 0 Y0 (sigma * (Y1 - Y0)) Y1 k == sigma * inject_Z k - sigma * Y0.
Proof.
  intros Hne. unfold cross. field. intros H. apply Hne. lra.
Qed.

Theorem rise_piece_is_planted (sigma Y0 Y1 : Q) (k : Z) (v : Q) :
  In (k, v) (seg_out (0, Y0) (sigma * (Y1 - Y0), Y1)) ->
  v == sigma * inject_Z k - sigma * Y0.
Proof.
  unfold seg_out. cbn [fst snd]. intros H. apply in_map_iff in H. destruct H as (k' & Heq & Hk).
  inversion Heq; subst k' v. apply rise_piece_crossing.
  intros Heq'. apply in_targets_ceil in Hk. revert Hk. apply between_flat. symmetry. exact Heq'.
Qed.
