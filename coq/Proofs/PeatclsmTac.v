(** C16 — tactics of the generated case files that use lemmas of PeatclsmSpec. *)
From Coq Require Import Reals List ZArith QArith Qreals Lra Lia.
From Coquelicot Require Import Coquelicot.
From Interval Require Import Tactic.
From Spowtd Require Import Model.Util Model.Transm Model.TransmEval Model.Peatclsm Model.PeatclsmEval
  Proofs.PeatclsmSpec.
Import ListNotations.
Open Scope R_scope.

(** [lo <= theta_at P k <= hi] on a literal offset k: the saturation test is
    decided by [lra], the power enclosed by [interval]. *)
Ltac theta_leaf :=
  cbv beta iota delta [theta_at theta psi_s theta_s b_shape sd];
  decide_all;
  first [ lra | interval with (i_prec 60) ].

(** Evaluates [sy_knot_tab ThT PhiT N i] on literal tables (matches on the
    literal index) to an arithmetic expression over rational constants. *)
Ltac knot_tab_eval PhiT ThT :=
  cbv beta iota delta [sy_knot_tab layer_tab layers seq map fold_right dz zu zl PhiT ThT theta_s
                       Z.of_nat Pos.of_succ_nat Z.sub Z.add Z.opp Z.pos_sub Z.succ_double Z.pred_double
                       Z.double Pos.pred_double Pos.add Pos.succ Pos.add_carry].

(** [Fs p j] as [Phi_std x] for the literal [x] = zm j / sd p (the generated
    file supplies the reduced fraction; [field] checks it). *)
Ltac fs_as_phi p j x :=
  replace (Fs p j) with (Phi_std x)
    by (unfold Fs; f_equal; cbv beta iota delta [zm zl zu sd]; field).

(** Anchor of a chain: direct certified integral from 0. *)
Ltac phi_anchor x :=
  match goal with
  | |- _ <= Fs ?p ?j <= _ => fs_as_phi p j x
  end;
  unfold Phi_std, gauss; integral with (i_prec 64, i_width (-58)).

(** One step of the cdf chain: from bounds on [Fs p j0] (lemma H0) to bounds
    on [Fs p j1], by a certified integral over one layer. *)
Ltac phi_step H0 x0 x1 :=
  match goal with
  | |- ?L <= Fs ?p ?j1 <= ?U =>
    match type of H0 with
    | ?L0 <= Fs p ?j0 <= ?U0 =>
      let HI := fresh "HI" in
      let H := fresh "H" in
      assert (HI : L - U0 + (U0 - L0) <= RInt gauss x0 x1 <= U - U0)
        by (unfold gauss; integral with (i_prec 64, i_width (-58)));
      assert (H := H0);
      fs_as_phi p j1 x1;
      revert H; fs_as_phi p j0 x0; intro H;
      rewrite (Phi_std_step x0 x1);
      lra
    end
  end.

(** Table entries (rationals written as Q literals) against the certified bounds. *)
Ltac q_unfold PhiQ ThQ epsQ etaQ MQ :=
  cbv beta iota delta [PhiQ ThQ epsQ etaQ MQ Q2R Qnum Qden].
