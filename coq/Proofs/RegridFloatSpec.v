(** The float layer of regrid / build_head_mapping (Model/RegridFloat.v) only
    supplies the scaled ordinates: successful results are the exact-rational
    model applied to the quotients y_i / step computed in binary64. *)
From Spowtd Require Import Model.RegridFloat Proofs.RegridSpec.
From Coq Require Import Lia Lqa.

Lemma all_to_Q_length l : forall qs, all_to_Q l = Some qs -> length qs = length l.
Proof.
  induction l as [|f t IH]; intros qs H; simpl in H.
  - inversion H. reflexivity.
  - destruct (float_to_Q f); [|discriminate]. destruct (all_to_Q t) as [qs'|]; [|discriminate].
    inversion H; subst. simpl. f_equal. apply IH. reflexivity.
Qed.

Lemma all_to_Q_nth l : forall qs, all_to_Q l = Some qs ->
  forall i f, nth_error l i = Some f -> exists q, nth_error qs i = Some q /\ float_to_Q f = Some q.
Proof.
  induction l as [|f0 t IH]; intros qs H i f Hi; simpl in H.
  - destruct i; discriminate.
  - destruct (float_to_Q f0) as [q0|] eqn:E0; [|discriminate].
    destruct (all_to_Q t) as [qs'|]; [|discriminate]. inversion H; subst.
    destruct i as [|i]; simpl in Hi |- *.
    + inversion Hi; subst. exists q0. split; [reflexivity|exact E0].
    + apply (IH qs' eq_refl i f Hi).
Qed.

(** The scaled series regrid works on: every ordinate is the exact value of the
    binary64 quotient y_i / step. *)
Definition scaled_series (x : list Q) (y : list float) (step : float) (pts : list (Q * Q)) : Prop :=
  length x = length y /\ length pts = length y /\
  forall i xi yi, nth_error x i = Some xi -> nth_error y i = Some yi ->
    exists Yi, float_to_Q (PrimFloat.div yi step) = Some Yi /\ nth_error pts i = Some (xi, Yi).

Lemma regrid_prepare_ok x y step pts us :
  regrid_prepare x y step = Ok (pts, us) -> scaled_series x y step pts.
Proof.
  unfold regrid_prepare.
  destruct (Nat.eqb_spec (length x) (length y)) as [El|El]; simpl; [|discriminate].
  destruct (Nat.eqb_spec (length x) 0) as [E0|E0].
  - intros H. inversion H; subst. destruct x; [|discriminate]. destruct y; [|discriminate].
    split; [reflexivity|]. split; [reflexivity|]. intros i ? ? Hi. destruct i; discriminate.
  - destruct (forallb finiteb y); simpl; [|discriminate].
    destruct (all_to_Q (scale step y)) as [Ys|] eqn:EY; [|discriminate].
    destruct (forallb int64_ok Ys); [|discriminate].
    intros H. inversion H; subst. clear H.
    pose proof (all_to_Q_length _ _ EY) as HL. unfold scale in HL. rewrite map_length in HL.
    split; [exact El|]. split.
    + rewrite combine_length. lia.
    + intros i xi yi Hx Hy.
      destruct (all_to_Q_nth _ _ EY i (PrimFloat.div yi step)) as (q & Hq & Eq).
      { unfold scale. rewrite nth_error_map, Hy. reflexivity. }
      exists q. split; [exact Eq|].
      clear - Hx Hq. revert x Ys Hx Hq. induction i as [|i IH]; intros x Ys Hx Hq.
      * destruct x; [discriminate|]. destruct Ys; [discriminate|]. simpl in *.
        inversion Hx; inversion Hq; subst. reflexivity.
      * destruct x; [discriminate|]. destruct Ys; [discriminate|]. simpl in *.
        apply IH; assumption.
Qed.

(** Whatever [regrid] returns without raising is the exact model on the scaled series. *)
Lemma regrid_ok x y step items :
  regrid x y step = Ok items ->
  exists pts, scaled_series x y step pts /\ items = regrid_Q pts.
Proof.
  unfold regrid. destruct (regrid_prepare x y step) as [(pts, us)|e] eqn:E; simpl; [|discriminate].
  intros H. inversion H; subst. exists pts. split; [|reflexivity].
  eapply regrid_prepare_ok, E.
Qed.

(** The refusals of regrid. *)
Lemma regrid_length_mismatch x y step :
  length x <> length y -> regrid x y step = Err EValue.
Proof.
  intros H. unfold regrid, regrid_prepare.
  destruct (Nat.eqb_spec (length x) (length y)); [contradiction|]. reflexivity.
Qed.

Lemma regrid_non_finite x y step :
  length x = length y -> y <> [] -> forallb finiteb y = false -> regrid x y step = Err EValue.
Proof.
  intros H Hy Hf. unfold regrid, regrid_prepare. rewrite H, Nat.eqb_refl. simpl.
  destruct y; [contradiction|]. simpl length. simpl Nat.eqb. rewrite Hf. reflexivity.
Qed.

Lemma regrid_empty step : regrid [] [] step = Ok [].
Proof. reflexivity. Qed.

(** In unscaled units, when the quotients are exact: level k*step lies between
    the samples y0, y1 (lower included, upper excluded). *)
Lemma between_unscaled (y0 y1 s : Q) (k : Z) :
  0 < s ->
  (between (y0 / s) (y1 / s) k <->
   Qmin y0 y1 <= inject_Z k * s /\ inject_Z k * s < Qmax y0 y1).
Proof.
  intros Hs. rewrite between_iff, Q.min_le_iff, Q.max_lt_iff.
  assert (L : forall y, y / s <= inject_Z k <-> y <= inject_Z k * s).
  { intros y. split; intros H.
    - apply Qle_shift_div_r in H || idtac.
      assert (E : y == y / s * s) by (field; lra). rewrite E. nra.
    - apply Qle_shift_div_r; [exact Hs|exact H]. }
  assert (R : forall y, inject_Z k < y / s <-> inject_Z k * s < y).
  { intros y. split; intros H.
    - assert (E : y == y / s * s) by (field; lra). rewrite E. nra.
    - apply Qlt_shift_div_l; [exact Hs|exact H]. }
  rewrite !L, !R. split.
  - intros [(A & B)|(A & B)]; split; auto.
  - intros ([A|A] & [B|B]); try (left; split; assumption); try (right; split; assumption); lra.
Qed.

(** ** The executable comparison uses the same model

    [regrid_with_tol] (what the generated case files evaluate) yields the same
    levels in the same order as [regrid], with positions equal as rationals. *)
Definition same_item (a : Z * (Q * Q)) (b : Z * Q) : Prop :=
  fst a = fst b /\ fst (snd a) == snd b.

Lemma seg_out_tol_agrees p0 p1 u : Forall2 same_item (seg_out_tol p0 p1 u) (seg_out p0 p1).
Proof.
  unfold seg_out_tol, seg_out.
  assert (H : forall k, In k (targets (Qceiling (snd p0)) (Qceiling (snd p1))) ->
                        ~ snd p0 == snd p1).
  { intros k Hk C. apply in_targets_ceil in Hk. apply (between_flat _ _ k C Hk). }
  induction (targets (Qceiling (snd p0)) (Qceiling (snd p1))) as [|k l IH];
    cbn [map]; constructor.
  - split; [reflexivity|]. cbn [fst snd]. unfold cross. rewrite !Qred_correct. field.
    intros C. apply (H k); [left; reflexivity|]. lra.
  - apply IH. intros k' Hk'. apply (H k'). right. exact Hk'.
Qed.

Lemma regrid_tol_from_agrees pts : forall us, length us = length pts ->
  Forall2 same_item (regrid_tol_from pts us) (regrid_Q pts).
Proof.
  rewrite regrid_Q_flat.
  induction pts as [|p0 t IH]; intros us HL; [constructor|].
  destruct t as [|p1 t']; [destruct us; constructor|].
  destruct us as [|u0 [|u1 ut]]; try discriminate.
  change (regrid_tol_from (p0 :: p1 :: t') (u0 :: u1 :: ut))
    with (seg_out_tol p0 p1 (Qmax u0 u1) ++ regrid_tol_from (p1 :: t') (u1 :: ut)).
  change (segments (p0 :: p1 :: t')) with ((p0, p1) :: segments (p1 :: t')).
  simpl flat_map. apply Forall2_app.
  - apply seg_out_tol_agrees.
  - apply IH. simpl in *. lia.
Qed.

Lemma regrid_prepare_lengths x y step pts us :
  regrid_prepare x y step = Ok (pts, us) -> length us = length pts.
Proof.
  unfold regrid_prepare.
  destruct (Nat.eqb_spec (length x) (length y)) as [El|El]; simpl; [|discriminate].
  destruct (Nat.eqb (length x) 0).
  - intros H. inversion H. reflexivity.
  - destruct (forallb finiteb y); simpl; [|discriminate].
    destruct (all_to_Q (scale step y)) as [Ys|] eqn:EY; [|discriminate].
    destruct (forallb int64_ok Ys); [|discriminate].
    intros H. inversion H; subst.
    pose proof (all_to_Q_length _ _ EY) as HL. unfold scale in HL |- *.
    rewrite map_length in HL. cbn [fst snd]. rewrite map_length, map_length, combine_length. lia.
Qed.

Lemma regrid_with_tol_agrees x y step :
  match regrid_with_tol x y step, regrid x y step with
  | Ok m, Ok items => Forall2 same_item m items
  | Err a, Err b => a = b
  | _, _ => False
  end.
Proof.
  unfold regrid_with_tol, regrid.
  destruct (regrid_prepare x y step) as [(pts, us)|e] eqn:E; simpl; [|reflexivity].
  apply regrid_tol_from_agrees. eapply regrid_prepare_lengths, E.
Qed.

(** ** build_head_mapping *)

Lemma all_ok_nth {A} (l : list (res A)) : forall r, all_ok l = Ok r ->
  length r = length l /\ forall i a, nth_error r i = Some a <-> nth_error l i = Some (Ok a).
Proof.
  induction l as [|x t IH]; intros r H; simpl in H.
  - inversion H; subst. split; [reflexivity|]. intros i a. destruct i; split; discriminate.
  - destruct x as [a0|e]; simpl in H; [|discriminate].
    destruct (all_ok t) as [t'|e] eqn:Et; simpl in H; [|discriminate].
    inversion H; subst. destruct (IH t' eq_refl) as (HL & HN). split; [simpl; lia|].
    intros i a. destruct i as [|i]; simpl.
    + split; intros E; inversion E; subst; reflexivity.
    + apply HN.
Qed.

(** An entry (sid, m) under level k in the mapping exists iff series sid has
    crossings of k, and then m is the arithmetic mean of that series' own
    crossings of k, as [regrid] yields them. *)
Lemma build_head_mapping_entry series step mapping :
  build_head_mapping series step = Ok mapping ->
  NoDup (map fst mapping) /\
  forall k sid m,
    In (sid, m) (dict_lookup k mapping) <->
    exists s items, nth_error series sid = Some s /\
                    regrid (fst s) (snd s) step = Ok items /\
                    crossings_of k items <> [] /\
                    m = qmean (crossings_of k items).
Proof.
  unfold build_head_mapping.
  destruct (all_ok (map (fun s => regrid (fst s) (snd s) step) series)) as [all_items|e] eqn:E;
    simpl; [|discriminate].
  intros H. inversion H; subst. clear H.
  destruct (head_mapping_gen_spec qmean all_items) as (A & C).
  split; [exact A|]. intros k sid m. rewrite C, in_entries_spec, Nat.sub_0_r.
  destruct (all_ok_nth _ _ E) as (_ & HN). split.
  - intros (items & _ & Hn & Hne & Hm). apply HN in Hn. rewrite nth_error_map in Hn.
    destruct (nth_error series sid) as [s|]; [|discriminate]. simpl in Hn.
    inversion Hn as [Hr]. exists s, items. auto.
  - intros (s & items & Hs & Hr & Hne & Hm). exists items. split; [lia|].
    split; [|auto]. apply HN. rewrite nth_error_map, Hs. simpl. rewrite Hr. reflexivity.
Qed.

(** Each list stored under a key is the lookup of that key (keys are distinct). *)
Lemma build_head_mapping_lists series step mapping :
  build_head_mapping series step = Ok mapping ->
  forall k l, In (k, l) mapping -> l = dict_lookup k mapping.
Proof.
  intros H k l Hin. destruct (build_head_mapping_entry _ _ _ H) as (A & _).
  symmetry. apply in_dict_lookup; assumption.
Qed.
