(** C06 for the code path the commands take (get_series_time_offsets: main body
    of the overlap graph, then find_offsets): no connectivity hypothesis is
    left - planted data on the WHOLE head mapping suffice. *)
From Spowtd Require Import Model.FitOffsets Model.Components Model.Views Proofs.QSum Proofs.FitOffsetsSpec
  Proofs.FindOffsetsSpec Proofs.ComponentsSpec Proofs.ViewsSpec Proofs.ViewsFitSpec Proofs.PlantedViewSpec.
From Coq Require Import Lia.

Lemma entries_of_filter_incl (f g : Z * list crossing -> bool) hm c :
  In c (entries_of (filter f (filter g hm))) -> In c (entries_of hm).
Proof.
  unfold entries_of. rewrite !in_flat_map. intros (p & Hp & Hc).
  apply filter_In in Hp. destruct Hp as (Hp & _). apply filter_In in Hp. destruct Hp as (Hp & _).
  exists p. split; assumption.
Qed.

Theorem planted_main_body_view
  (start_of : nat -> Z) (hm : head_mapping) sids offs levels grid step ref (T : Z -> Q) (cs : nat -> Q) :
  NoDup (map fst hm) ->
  offsets_from_mapping hm = Ok (sids, offs, levels) ->
  NoDup grid ->
  (forall a b, In a sids -> In b sids -> start_of a = start_of b -> a = b) ->
  (forall c, In c (entries_of hm) -> e_val c == T (e_head c) - cs (e_series c)) ->
  exists main,
    find_offsets (main_sub hm main) = Ok (sids, offs) /\
    let O := written_offsets start_of sids offs in
    let Cr := written_crossings start_of (drop_single (main_sub hm main)) in
    In ref (view_levels O Cr grid) ->
    forall h, In h (view_levels O Cr grid) ->
      exists v, In (inject_Z h * step, v)
                   (view_average (store_with_reference O Cr ref) Cr grid step) /\
                v == T h - T ref.
Proof.
  intros Hk Hofm HG Hinj Hval.
  destruct (main_body_connected_graph hm sids offs levels Hk Hofm) as (main & rest & _ & Hfo & _ & Hconn).
  exists main. split; [exact Hfo|]. intros O Cr Href h Hh.
  apply (planted_written_view_from_reference start_of (main_sub hm main) sids offs grid step ref T cs
           Hfo HG Hinj Hconn); [|exact Href|exact Hh].
  intros c Hc. apply Hval. unfold drop_single, main_sub in Hc.
  eapply entries_of_filter_incl. exact Hc.
Qed.
