(** populate_water_level: gaps of the source record, stretch labels,
    interpolation, and which grid instants receive a water level. *)
From Spowtd Require Import Model.Load Proofs.LoadStage Proofs.LoadGrid.
From Coq Require Import Lia Sorted.
Local Open Scope Z_scope.

(** ** Adjacent samples of a key-sorted table *)

Definition adjacent (wl : list row) (ra rb : row) : Prop :=
  In ra wl /\ In rb wl /\ fst ra < fst rb /\
  forall r, In r wl -> fst r <= fst ra \/ fst rb <= fst r.

Lemma sorted_head_le : forall (b : row) t r, incr (keys (b :: t)) -> In r (b :: t) -> fst b <= fst r.
Proof.
  intros b t r H [->|Hr]; [lia|]. simpl in H.
  pose proof (incr_lt_in _ _ (fst r) H (in_map fst _ _ Hr)). lia.
Qed.

Lemma adjacent_pairs_In : forall {A} (l : list A) x y, In (x, y) (adjacent_pairs l) -> In x l /\ In y l.
Proof.
  intros A l. induction l as [|a l IH]; intros x y H; [destruct H|].
  destruct l as [|b t]; [destruct H|].
  change (adjacent_pairs (a :: b :: t)) with ((a, b) :: adjacent_pairs (b :: t)) in H.
  destruct H as [E|H].
  - inversion E; subst. split; [left; reflexivity|right; left; reflexivity].
  - apply IH in H. destruct H. split; right; assumption.
Qed.

Lemma adjacent_pairs_spec : forall l, incr (keys l) ->
  forall ra rb, In (ra, rb) (adjacent_pairs l) <-> adjacent l ra rb.
Proof.
  induction l as [|a l IH]; intros Hs ra rb.
  - split; [intros []|]. intros ([] & _).
  - destruct l as [|b t].
    + split; [intros []|]. intros (H1 & H2 & Hlt & _).
      destruct H1 as [<-|[]]. destruct H2 as [<-|[]]. lia.
    + change (adjacent_pairs (a :: b :: t)) with ((a, b) :: adjacent_pairs (b :: t)).
      assert (Hs' : incr (keys (b :: t))) by (simpl in Hs; apply incr_cons_inv in Hs; tauto).
      assert (Hab : fst a < fst b) by (simpl in Hs; apply (incr_lt_in _ _ _ Hs); left; reflexivity).
      specialize (IH Hs'). split.
      * intros [E|H].
        -- inversion E; subst ra rb. repeat split.
           ++ left; reflexivity.
           ++ right; left; reflexivity.
           ++ assumption.
           ++ intros r [<-|Hr]; [left; lia|]. right. apply (sorted_head_le _ _ _ Hs' Hr).
        -- apply IH in H. destruct H as (H1 & H2 & Hlt & Hall). repeat split.
           ++ right; assumption.
           ++ right; assumption.
           ++ assumption.
           ++ intros r [<-|Hr]; [|apply Hall; assumption].
              left. pose proof (sorted_head_le _ _ _ Hs' H1). lia.
      * intros (H1 & H2 & Hlt & Hall). destruct H1 as [<-|H1].
        -- left. destruct H2 as [<-|H2]; [lia|].
           destruct (Hall b (or_intror (or_introl eq_refl))) as [H|H]; [lia|].
           destruct H2 as [<-|H2]; [reflexivity|].
           simpl in Hs'. pose proof (incr_lt_in _ _ (fst rb) Hs' (in_map fst _ _ H2)). lia.
        -- right. apply IH. pose proof (sorted_head_le _ _ _ Hs' H1).
           destruct H2 as [<-|H2]; [lia|]. repeat split; try assumption.
           intros r Hr. apply Hall. right; assumption.
Qed.

Lemma adjacent_pairs_map : forall {A B} (f : A -> B) l,
  adjacent_pairs (map f l) = map (fun p => (f (fst p), f (snd p))) (adjacent_pairs l).
Proof.
  intros A B f l. induction l as [|a l IH]; [reflexivity|]. destruct l as [|b t]; [reflexivity|].
  change (adjacent_pairs (a :: b :: t)) with ((a, b) :: adjacent_pairs (b :: t)).
  change (map f (a :: b :: t)) with (f a :: map f (b :: t)).
  change (map f (b :: t)) with (f b :: map f t) at 1.
  change (adjacent_pairs (f a :: f b :: map f t)) with ((f a, f b) :: adjacent_pairs (f b :: map f t)).
  change (f b :: map f t) with (map f (b :: t)). rewrite IH. reflexivity.
Qed.

Lemma diffs_adjacent : forall l, diffs l = map (fun p => snd p - fst p) (adjacent_pairs l).
Proof.
  induction l as [|a l IH]; [reflexivity|]. destruct l as [|b t]; [reflexivity|].
  change (diffs (a :: b :: t)) with ((b - a) :: diffs (b :: t)). rewrite IH. reflexivity.
Qed.

(** ** The smallest source step and the gaps *)

Lemma min_step_ok : forall zt mn, min_step zt = Ok mn ->
  (exists p, In p (adjacent_pairs zt) /\ snd p - fst p = mn) /\
  (forall p, In p (adjacent_pairs zt) -> mn <= snd p - fst p).
Proof.
  intros zt mn. unfold min_step. rewrite diffs_adjacent.
  destruct (map (fun p => snd p - fst p) (adjacent_pairs zt)) as [|d r] eqn:E; [discriminate|].
  intros H. inversion H; subst mn. destruct (zmin_l_spec r d) as [Hin Hle]. rewrite <- E in Hin, Hle. split.
  - apply in_map_iff in Hin. destruct Hin as (p & Hp & Hin). exists p. tauto.
  - intros p Hp. apply Hle. apply in_map_iff. exists p. tauto.
Qed.

Lemma min_step_err : forall zt e, min_step zt = Err e -> e = EValue /\ adjacent_pairs zt = [].
Proof.
  intros zt e. unfold min_step. rewrite diffs_adjacent.
  destruct (adjacent_pairs zt) as [|p l]; simpl; [|discriminate]. intros H. inversion H. tauto.
Qed.

Lemma wl_gaps_In : forall zt mn u v, In (u, v) (wl_gaps zt mn) <->
  In (u, v) (adjacent_pairs zt) /\ v - u <> mn.
Proof.
  intros. unfold wl_gaps. rewrite filter_In. simpl. rewrite negb_true_iff, Z.eqb_neq. reflexivity.
Qed.

(** Gaps come in time order and do not overlap. *)
Inductive chain : Z -> list (Z * Z) -> Prop :=
| chain_nil : forall lo, chain lo []
| chain_cons : forall lo u v t, lo <= u -> u < v -> chain v t -> chain lo ((u, v) :: t).

Lemma chain_weaken : forall lo l lo', chain lo l -> lo' <= lo -> chain lo' l.
Proof. intros lo l lo' H Hle. destruct H; constructor; try assumption. lia. Qed.

Lemma chain_filter : forall f lo l, chain lo l -> chain lo (filter f l).
Proof.
  intros f lo l H. induction H as [|lo u v t H1 H2 H3 IH]; simpl; [constructor|].
  destruct (f (u, v)).
  - constructor; assumption.
  - apply (chain_weaken v); [assumption|lia].
Qed.

Lemma adjacent_pairs_chain : forall l a, incr (a :: l) -> chain a (adjacent_pairs (a :: l)).
Proof.
  induction l as [|b l IH]; intros a H; [constructor|].
  change (adjacent_pairs (a :: b :: l)) with ((a, b) :: adjacent_pairs (b :: l)).
  constructor; [lia| |].
  - apply (incr_lt_in _ _ _ H). left; reflexivity.
  - apply IH. apply incr_cons_inv in H. tauto.
Qed.

Lemma chain_In : forall lo l, chain lo l -> forall p, In p l -> lo <= fst p /\ fst p < snd p.
Proof.
  intros lo l H. induction H as [|lo u v t H1 H2 H3 IH]; intros p Hp; [destruct Hp|].
  destruct Hp as [<-|Hp]; [simpl; lia|]. specialize (IH p Hp). lia.
Qed.

Lemma wl_gaps_chain : forall zt mn, incr zt -> exists lo, chain lo (wl_gaps zt mn).
Proof.
  intros zt mn H. destruct zt as [|a l].
  - exists 0. constructor.
  - exists a. apply chain_filter. apply adjacent_pairs_chain. assumption.
Qed.

(** ** Boundaries and intervals *)

Fixpoint intervals_from (f : Z) (gaps : list (Z * Z)) (l : Z) (k : Z) : list (Z * Z * Z) :=
  match gaps with
  | [] => [(f, l, k)]
  | (u, v) :: t => (f, u, k) :: intervals_from v t l (k + 1)
  end.

Lemma pair_up_boundaries : forall gaps f l k,
  pair_up (boundaries f l gaps) k = intervals_from f gaps l k.
Proof.
  induction gaps as [|[u v] t IH]; intros f l k; [reflexivity|].
  unfold boundaries. simpl. f_equal. apply (IH v l (k + 1)).
Qed.

Lemma boundaries_length : forall gaps f l,
  length (boundaries f l gaps) = (2 * S (length gaps))%nat.
Proof.
  induction gaps as [|[u v] t IH]; intros f l; [reflexivity|].
  unfold boundaries in *. simpl in *. specialize (IH v l). rewrite app_length in *. simpl in *. lia.
Qed.

Lemma boundaries_even : forall gaps f l, Nat.even (length (boundaries f l gaps)) = true.
Proof. intros. rewrite boundaries_length, Nat.even_mul. reflexivity. Qed.

(** ** Labels *)

Definition inside (t : Z) (p : Z * Z) : bool := (fst p <? t) && (t <? snd p).
Definition in_gapb (gaps : list (Z * Z)) (t : Z) : bool := existsb (inside t) gaps.
Definition n_before (gaps : list (Z * Z)) (t : Z) : Z :=
  Z.of_nat (length (filter (fun p => snd p <=? t) gaps)).
Definition label_from (acc : option Z) (ivs : list (Z * Z * Z)) (t : Z) : option Z :=
  fold_left (label_step t) ivs acc.

Lemma label_none_before : forall gaps f l k acc t, chain f gaps -> t < f ->
  label_from acc (intervals_from f gaps l k) t = acc.
Proof.
  induction gaps as [|[u v] rest IH]; intros f l k acc t Hc Ht.
  - unfold label_from. simpl. replace (f <=? t) with false by (symmetry; apply Z.leb_gt; lia). reflexivity.
  - inversion Hc; subst. unfold label_from. simpl.
    replace (f <=? t) with false by (symmetry; apply Z.leb_gt; lia). simpl.
    apply (IH v l (k + 1) acc t); [assumption|lia].
Qed.

Lemma chain_after : forall v rest t, chain v rest -> t < v ->
  in_gapb rest t = false /\ n_before rest t = 0.
Proof.
  intros v rest t Hc Ht. pose proof (chain_In _ _ Hc) as Hin.
  assert (E1 : forall l, (forall p, In p l -> v <= fst p /\ fst p < snd p) -> existsb (inside t) l = false).
  { induction l as [|p l IHl]; intros H; [reflexivity|]. simpl.
    destruct (H p (or_introl eq_refl)) as [A B]. unfold inside at 1.
    replace (fst p <? t) with false by (symmetry; apply Z.ltb_ge; lia). simpl.
    apply IHl. intros q Hq. apply H. right; assumption. }
  assert (E2 : forall l, (forall p, In p l -> v <= fst p /\ fst p < snd p) ->
                         filter (fun p => snd p <=? t) l = []).
  { induction l as [|p l IHl]; intros H; [reflexivity|]. simpl.
    destruct (H p (or_introl eq_refl)) as [A B].
    replace (snd p <=? t) with false by (symmetry; apply Z.leb_gt; lia).
    apply IHl. intros q Hq. apply H. right; assumption. }
  split; [apply E1; assumption|]. unfold n_before. rewrite E2 by assumption. reflexivity.
Qed.

Lemma n_before_cons : forall u v rest t,
  n_before ((u, v) :: rest) t = (if v <=? t then 1 else 0) + n_before rest t.
Proof.
  intros. unfold n_before. simpl. destruct (v <=? t); simpl length; lia.
Qed.

(** The label written for a grid instant t between the first and the last
    grid instant: none strictly inside a gap, otherwise 1 + the number of gaps
    that end at or before t. *)
Lemma label_char : forall gaps lo f l k acc t, chain lo gaps -> f <= t <= l ->
  label_from acc (intervals_from f gaps l k) t =
  if in_gapb gaps t then acc else Some (k + n_before gaps t).
Proof.
  induction gaps as [|[u v] rest IH]; intros lo f l k acc t Hc Ht.
  - unfold label_from. simpl.
    replace (f <=? t) with true by (symmetry; apply Z.leb_le; lia).
    replace (t <=? l) with true by (symmetry; apply Z.leb_le; lia). simpl.
    unfold n_before. simpl. f_equal. lia.
  - inversion Hc; subst. unfold label_from.
    simpl fold_left.
    fold (label_from (if (f <=? t) && (t <=? u) then Some k else acc) (intervals_from v rest l (k + 1)) t).
    rewrite n_before_cons. unfold in_gapb. simpl existsb. unfold inside at 1. simpl fst. simpl snd.
    fold (in_gapb rest t).
    destruct (Z_le_gt_dec t u) as [Htu|Htu].
    + (* at or before the start of this gap: first interval *)
      destruct (chain_after v rest t) as [G1 G2]; [assumption|lia|].
      rewrite label_none_before by (assumption || lia).
      replace (f <=? t) with true by (symmetry; apply Z.leb_le; lia).
      replace (t <=? u) with true by (symmetry; apply Z.leb_le; lia).
      replace (u <? t) with false by (symmetry; apply Z.ltb_ge; lia).
      replace (v <=? t) with false by (symmetry; apply Z.leb_gt; lia).
      rewrite G1, G2. simpl. f_equal. lia.
    + replace (t <=? u) with false by (symmetry; apply Z.leb_gt; lia).
      rewrite andb_false_r.
      replace (u <? t) with true by (symmetry; apply Z.ltb_lt; lia).
      destruct (Z_lt_le_dec t v) as [Htv|Htv].
      * (* strictly inside this gap *)
        rewrite label_none_before by (assumption || lia).
        replace (t <? v) with true by (symmetry; apply Z.ltb_lt; lia). reflexivity.
      * (* after this gap *)
        replace (t <? v) with false by (symmetry; apply Z.ltb_ge; lia).
        replace (v <=? t) with true by (symmetry; apply Z.leb_le; lia). cbn [andb orb].
        rewrite (IH v v l (k + 1) acc t) by (assumption || lia).
        destruct (in_gapb rest t); [reflexivity|]. f_equal. lia.
Qed.

Definition label_spec (gaps : list (Z * Z)) (t : Z) : option Z :=
  if in_gapb gaps t then None else Some (1 + n_before gaps t).

Lemma label_of_char : forall gaps lo f l t, chain lo gaps -> f <= t <= l ->
  label_of (pair_up (boundaries f l gaps) 1) t = label_spec gaps t.
Proof.
  intros. rewrite pair_up_boundaries. unfold label_of.
  apply (label_char gaps lo f l 1 None t); assumption.
Qed.

Lemma in_gapb_true : forall gaps t, in_gapb gaps t = true <->
  exists u v, In (u, v) gaps /\ u < t < v.
Proof.
  intros gaps t. unfold in_gapb. rewrite existsb_exists. split.
  - intros ([u v] & Hin & Hi). unfold inside in Hi. simpl in Hi.
    apply andb_true_iff in Hi. rewrite !Z.ltb_lt in Hi. exists u, v. tauto.
  - intros (u & v & Hin & Hi). exists (u, v). split; [assumption|]. unfold inside. simpl.
    apply andb_true_iff. rewrite !Z.ltb_lt. assumption.
Qed.

(** Counting lemma for the labels of two instants. *)
Lemma filter_length_le : forall {A} (P Q : A -> bool) l,
  (forall x, In x l -> P x = true -> Q x = true) ->
  (length (filter P l) <= length (filter Q l))%nat /\
  (length (filter P l) = length (filter Q l) <-> forall x, In x l -> Q x = true -> P x = true).
Proof.
  intros A P Q l. induction l as [|a l IH]; intros H.
  - simpl. split; [lia|]. split; [intros _ x []|reflexivity].
  - assert (H' : forall x, In x l -> P x = true -> Q x = true) by (intros; apply H; [right|]; assumption).
    destruct (IH H') as [Hle Heq]. simpl.
    destruct (P a) eqn:Pa, (Q a) eqn:Qa; simpl.
    + split; [lia|]. split.
      * intros E x [<-|Hx] Hq; [assumption|]. apply Heq; [lia|assumption|assumption].
      * intros Hall. f_equal. apply Heq. intros x Hx. apply Hall. right; assumption.
    + rewrite (H a (or_introl eq_refl) Pa) in Qa. discriminate.
    + split; [lia|]. split; [lia|]. intros Hall. rewrite (Hall a (or_introl eq_refl) Qa) in Pa. discriminate.
    + split; [lia|]. split.
      * intros E x [<-|Hx] Hq; [congruence|]. apply Heq; assumption.
      * intros Hall. apply Heq. intros x Hx. apply Hall. right; assumption.
Qed.

(** Two labelled instants t <= t' carry the same label iff no gap lies between them. *)
Lemma label_spec_same : forall gaps lo t t' k k', chain lo gaps -> t <= t' ->
  label_spec gaps t = Some k -> label_spec gaps t' = Some k' ->
  (k = k' <-> ~ exists u v, In (u, v) gaps /\ t <= u /\ v <= t').
Proof.
  intros gaps lo t t' k k' Hc Hle H1 H2. unfold label_spec in *.
  destruct (in_gapb gaps t) eqn:G1; [discriminate|]. destruct (in_gapb gaps t') eqn:G2; [discriminate|].
  assert (Hk : k = 1 + n_before gaps t) by congruence.
  assert (Hk' : k' = 1 + n_before gaps t') by congruence.
  clear H1 H2. subst k k'. unfold n_before.
  destruct (filter_length_le (fun p : Z * Z => snd p <=? t) (fun p => snd p <=? t') gaps) as [L E].
  { intros x _ Hx. apply Z.leb_le in Hx. apply Z.leb_le. lia. }
  split.
  - intros Heq (u & v & Hin & Hu & Hv).
    assert (Hlen : length (filter (fun p : Z * Z => snd p <=? t) gaps)
                   = length (filter (fun p : Z * Z => snd p <=? t') gaps)) by lia.
    pose proof (proj1 E Hlen (u, v) Hin) as Hx. simpl in Hx. rewrite !Z.leb_le in Hx.
    specialize (Hx Hv). destruct (chain_In _ _ Hc _ Hin) as [_ Huv]. simpl in Huv. lia.
  - intros Hno.
    enough (Hl : length (filter (fun p : Z * Z => snd p <=? t) gaps)
                 = length (filter (fun p : Z * Z => snd p <=? t') gaps)) by (rewrite Hl; reflexivity).
    apply E. intros [u v] Hin Hq. simpl in *. apply Z.leb_le in Hq.
    apply Z.leb_le. destruct (Z_le_gt_dec v t) as [|Hgt]; [assumption|]. exfalso.
    destruct (Z_le_gt_dec t u) as [Htu|Htu].
    + apply Hno. exists u, v. tauto.
    + assert (in_gapb gaps t = true) as C by (apply in_gapb_true; exists u, v; split; [assumption|lia]).
      congruence.
Qed.

(** ** Interpolation *)

Lemma interp_from_spec : forall rest a x, incr (keys (a :: rest)) -> fst a <= x ->
  (forall z, In (x, z) (a :: rest) -> interp_from a rest x = z) /\
  (forall ra rb, In (ra, rb) (adjacent_pairs (a :: rest)) -> fst ra < x < fst rb ->
                 interp_from a rest x = lerp ra rb x).
Proof.
  induction rest as [|b rest IH]; intros a x Hs Hx.
  - split.
    + intros z [E|[]]. subst a. reflexivity.
    + intros ra rb [].
  - assert (Hs' : incr (keys (b :: rest))) by (simpl in Hs; apply incr_cons_inv in Hs; tauto).
    assert (Hab : fst a < fst b) by (simpl in Hs; apply (incr_lt_in _ _ _ Hs); left; reflexivity).
    simpl interp_from. split.
    + intros z [E|Hin].
      * subst a. simpl in *. replace (x <? fst b) with true by (symmetry; apply Z.ltb_lt; lia).
        rewrite Z.eqb_refl. reflexivity.
      * pose proof (sorted_head_le _ _ _ Hs' Hin) as Hb. simpl in Hb.
        replace (x <? fst b) with false by (symmetry; apply Z.ltb_ge; lia).
        apply (IH b x Hs' Hb). assumption.
    + intros ra rb Hin Hr.
      change (adjacent_pairs (a :: b :: rest)) with ((a, b) :: adjacent_pairs (b :: rest)) in Hin.
      destruct Hin as [E|Hin].
      * inversion E; subst ra rb. replace (x <? fst b) with true by (symmetry; apply Z.ltb_lt; lia).
        replace (x =? fst a) with false by (symmetry; apply Z.eqb_neq; lia). reflexivity.
      * destruct (adjacent_pairs_In _ _ _ Hin) as [Hra _].
        pose proof (sorted_head_le _ _ _ Hs' Hra) as Hb.
        replace (x <? fst b) with false by (symmetry; apply Z.ltb_ge; lia).
        apply (IH b x Hs'); [lia|assumption|assumption].
Qed.

Lemma interp_spec : forall a rest x, incr (keys (a :: rest)) -> fst a <= x ->
  (forall z, In (x, z) (a :: rest) -> interp a rest x = z) /\
  (forall ra rb, In (ra, rb) (adjacent_pairs (a :: rest)) -> fst ra < x < fst rb ->
                 interp a rest x = lerp ra rb x).
Proof.
  intros a rest x Hs Hx. unfold interp.
  replace (x <? fst a) with false by (symmetry; apply Z.ltb_ge; lia).
  apply interp_from_spec; assumption.
Qed.

(** Every instant within the span of the record is a sample or lies strictly
    between two adjacent samples. *)
Lemma bracket_exists : forall l (a : row) x hi, incr (keys (a :: l)) -> is_hi (keys (a :: l)) hi ->
  fst a <= x <= hi ->
  (exists z, In (x, z) (a :: l)) \/
  (exists ra rb, In (ra, rb) (adjacent_pairs (a :: l)) /\ fst ra < x < fst rb).
Proof.
  induction l as [|b l IH]; intros a x hi Hs Hhi Hx.
  - left. destruct Hhi as [[<-|[]] _]. exists (snd a). left. destruct a; simpl in *. f_equal. lia.
  - assert (Hs' : incr (keys (b :: l))) by (simpl in Hs; apply incr_cons_inv in Hs; tauto).
    assert (Hab : fst a < fst b) by (simpl in Hs; apply (incr_lt_in _ _ _ Hs); left; reflexivity).
    change (adjacent_pairs (a :: b :: l)) with ((a, b) :: adjacent_pairs (b :: l)).
    destruct (Z.eq_dec x (fst a)) as [->|Hne].
    + left. exists (snd a). left. destruct a; reflexivity.
    + destruct (Z_lt_le_dec x (fst b)) as [Hlt|Hge].
      * right. exists a, b. split; [left; reflexivity|lia].
      * assert (Hhi' : is_hi (keys (b :: l)) hi).
        { destruct Hhi as [Hin Hmax]. split.
          - destruct Hin as [E|Hin]; [|assumption]. exfalso.
            specialize (Hmax (fst b) (or_intror (or_introl eq_refl))). lia.
          - intros y Hy. apply Hmax. right; assumption. }
        destruct (IH b x hi Hs' Hhi') as [(z & Hz)|(ra & rb & Hin & Hr)]; [lia| |].
        -- left. exists z. right; assumption.
        -- right. exists ra, rb. split; [right; assumption|assumption].
Qed.

(** ** Masks and the truncating zip *)

Lemma select_map_mask : forall {A} (f : A -> bool) l, select (map f l) l = filter f l.
Proof.
  intros A f l. induction l as [|a l IH]; simpl; [reflexivity|]. rewrite IH. reflexivity.
Qed.

Lemma select_map_both : forall {A B} (f : A -> bool) (g : A -> B) l,
  select (map f l) (map g l) = map g (filter f l).
Proof.
  intros A B f g l. induction l as [|a l IH]; simpl; [reflexivity|].
  rewrite IH. destruct (f a); reflexivity.
Qed.

Lemma select_app : forall {A} m1 (l1 : list A) m2 l2, length m1 = length l1 ->
  select (m1 ++ m2) (l1 ++ l2) = select m1 l1 ++ select m2 l2.
Proof.
  intros A m1. induction m1 as [|m m1 IH]; intros l1 m2 l2 Hlen.
  - destruct l1; [reflexivity|discriminate].
  - destruct l1 as [|x l1]; [discriminate|]. simpl in Hlen. simpl.
    rewrite IH by lia. destruct m; reflexivity.
Qed.

Lemma combine_map_trunc : forall {A B} (g : A -> B) l extra,
  combine (l ++ extra) (map g l) = map (fun x => (x, g x)) l.
Proof.
  intros A B g l extra. induction l as [|a l IH]; simpl.
  - destruct extra; reflexivity.
  - rewrite IH. reflexivity.
Qed.

Lemma combine_map_self : forall {A B} (g : A -> B) l,
  combine l (map g l) = map (fun x => (x, g x)) l.
Proof. intros. rewrite <- (combine_map_trunc g l []). rewrite app_nil_r. reflexivity. Qed.

(** ** populate_water_level, closed form *)

Lemma populate_water_level_ok : forall a rest mn g c,
  let wl_t := a :: rest in
  let tg := g ++ [c] in
  let gaps := wl_gaps (keys wl_t) mn in
  incr (keys wl_t) -> min_step (keys wl_t) = Ok mn ->
  (forall t, In t tg -> hd 0 tg <= t <= last_Z tg) ->
  populate_water_level wl_t tg =
  Ok (map (fun t => (t, label_spec gaps t)) tg,
      map (fun t => (t, interp a rest t)) (filter (fun t => is_some (label_spec gaps t)) g)).
Proof.
  intros a rest mn g c wl_t tg gaps Hs Hmin Hrange. subst wl_t.
  cbv beta iota zeta delta [populate_water_level bind].
  change (map fst (a :: rest)) with (keys (a :: rest)).
  rewrite Hmin. cbv beta iota.
  fold gaps.
  rewrite boundaries_even. simpl negb. cbv iota.
  destruct (wl_gaps_chain (keys (a :: rest)) mn Hs) as [lo Hc]. fold gaps in Hc.
  assert (Hlab : map (label_of (pair_up (boundaries (hd 0 tg) (last_Z tg) gaps) 1)) tg
                 = map (label_spec gaps) tg).
  { apply map_ext_in. intros t Ht. apply (label_of_char gaps lo); [assumption|apply Hrange; assumption]. }
  rewrite Hlab. f_equal. f_equal.
  - apply combine_map_self.
  - rewrite map_map. subst tg. rewrite removelast_last. rewrite map_app.
    change (map (fun x : Z => is_some (label_spec gaps x)) [c]) with [is_some (label_spec gaps c)].
    rewrite removelast_last.
    rewrite select_app by (rewrite map_length; reflexivity).
    rewrite select_map_mask, select_map_both.
    apply combine_map_trunc.
Qed.
