From Spowtd Require Import Model.DepthView.
From Coq Require Import Lia.

(** The epoch-range join of the view selects exactly the time steps of the storm:
    for the uniform grid starting at [t0], a storm [start = t0 + s*step,
    thru = t0 + e*step) gets the sum of intensity x step length over the steps
    s <= i < e, and nothing else. *)
Lemma view_depth_indexed_gen step s e : (0 < step)%Z -> forall vs t0 i,
  view_depth (t0 + (s - i) * step) (t0 + (e - i) * step) (grid_rows t0 step vs)
  == indexed_depth i s e step vs.
Proof.
  intros Hstep. induction vs as [|v t IH]; intros t0 i.
  - unfold view_depth. simpl. reflexivity.
  - unfold view_depth. cbn [grid_rows filter indexed_depth].
    assert (Hsel : in_storm (t0 + (s - i) * step) (t0 + (e - i) * step)
                     {| r_from := t0; r_thru := t0 + step; r_mm_h := v |}
                   = ((s <=? i)%Z && (i <? e)%Z)).
    { unfold in_storm. cbn [r_from r_thru].
      destruct (s <=? i)%Z eqn:E1; destruct (i <? e)%Z eqn:E2;
        destruct (t0 + (s - i) * step <=? t0)%Z eqn:E3;
        destruct (t0 + step <=? t0 + (e - i) * step)%Z eqn:E4; try reflexivity; exfalso;
        rewrite ?Z.leb_le, ?Z.leb_gt, ?Z.ltb_lt, ?Z.ltb_ge in *; nia. }
    rewrite Hsel.
    specialize (IH (t0 + step)%Z (i + 1)%Z). unfold view_depth in IH.
    replace (t0 + step + (s - (i + 1)) * step)%Z with (t0 + (s - i) * step)%Z in IH by ring.
    replace (t0 + step + (e - (i + 1)) * step)%Z with (t0 + (e - i) * step)%Z in IH by ring.
    destruct ((s <=? i)%Z && (i <? e)%Z).
    + cbn [map qsum]. rewrite IH. unfold row_depth. cbn [r_from r_thru r_mm_h].
      replace (t0 + step - t0)%Z with step by ring. reflexivity.
    + rewrite IH. ring.
Qed.

Theorem view_depth_indexed t0 step s e vs : (0 < step)%Z ->
  view_depth (t0 + s * step) (t0 + e * step) (grid_rows t0 step vs) == indexed_depth 0 s e step vs.
Proof.
  intros Hstep. pose proof (view_depth_indexed_gen step s e Hstep vs t0 0%Z) as H.
  rewrite !Z.sub_0_r in H. exact H.
Qed.
