(** Re-basing a series to its own first instant (t - min t, as
    get_series_time_offsets does) removes any common shift. *)
From Coq Require Import ZArith List Lia.
Import ListNotations.
Open Scope Z_scope.

Fixpoint zmin_list (d : Z) (l : list Z) : Z :=
  match l with [] => d | x :: t => Z.min x (zmin_list x t) end.

Definition rebase (l : list Z) : list Z :=
  match l with [] => [] | x :: _ => map (fun t => t - zmin_list x l) l end.

Lemma zmin_list_shift k d l : zmin_list (d + k) (map (fun t => t + k) l) = zmin_list d l + k.
Proof.
  revert d. induction l as [|x t IH]; intros d; simpl; [reflexivity|]. rewrite IH. lia.
Qed.

Lemma rebase_cons x t : rebase (x :: t) = map (fun a => a - zmin_list x (x :: t)) (x :: t).
Proof. reflexivity. Qed.

Theorem rebase_shift k l : rebase (map (fun t => t + k) l) = rebase l.
Proof.
  destruct l as [|x t]; [reflexivity|].
  rewrite map_cons, !rebase_cons, <- (map_cons (fun t0 => t0 + k)).
  rewrite zmin_list_shift, map_map. apply map_ext. intros a. lia.
Qed.
