(** The float layer: a flag is on exactly when the IEEE-754 strict comparison
    holds on the corresponding sample / increment. *)
From Spowtd Require Import Model.Flags.
From Coq Require Import Lia.

Lemma heavy_flag_char thr rain i :
  nth i (heavy_flags thr rain) false = true <->
  i < length rain /\ PrimFloat.ltb thr (nth i rain 0%float) = true.
Proof.
  unfold heavy_flags, fgt. revert i. induction rain as [|r t IH]; intros i.
  - simpl. destruct i; split; try discriminate; intros (H & _); lia.
  - destruct i as [|i]; simpl.
    + split; [intros H; split; [lia|exact H]|intros (_ & H); exact H].
    + rewrite IH. split; intros (H1 & H2); split; try lia; exact H2.
Qed.

Lemma increments_length z : length (increments z) = length z - 1.
Proof.
  induction z as [|a [|b t] IH]; simpl in *; try reflexivity. rewrite IH. lia.
Qed.

Lemma increments_nth z i : S i < length z ->
  nth i (increments z) 0%float = PrimFloat.sub (nth (S i) z 0%float) (nth i z 0%float).
Proof.
  revert i. induction z as [|a [|b t] IH]; intros i Hi; simpl in Hi; try lia.
  destruct i as [|i]; [reflexivity|].
  change (increments (a :: b :: t)) with (PrimFloat.sub b a :: increments (b :: t)).
  cbn [nth]. rewrite IH by (simpl; lia). reflexivity.
Qed.

Lemma jump_flag_char thr step z i :
  nth i (jump_incr_flags thr step z) false = true <->
  S i < length z /\
  PrimFloat.ltb (jump_delta thr step) (PrimFloat.sub (nth (S i) z 0%float) (nth i z 0%float)) = true.
Proof.
  unfold jump_incr_flags, fgt.
  destruct (Nat.lt_ge_cases (S i) (length z)) as [Hlt|Hge].
  - rewrite <- (increments_nth z i Hlt).
    assert (Hi : i < length (increments z)) by (rewrite increments_length; lia).
    rewrite (nth_indep _ false (PrimFloat.ltb (jump_delta thr step) 0%float))
      by (rewrite map_length; exact Hi).
    rewrite (map_nth (fun d => PrimFloat.ltb (jump_delta thr step) d)).
    split; [intros H; split; [exact Hlt|exact H]|intros (_ & H); exact H].
  - rewrite nth_overflow by (rewrite map_length, increments_length; lia).
    split; [discriminate|intros (H & _); lia].
Qed.
