(** The Gallina function REGENERATED from the Python source of
    classify.get_mystery_jump_mask (Generated/MysteryGen.v, written by
    harness/translate.py on every run) equals the hand-written model for all
    inputs, and the function's own closing assertions can never fail.  If the
    source changes its meaning this file stops compiling. *)
From Spowtd Require Import Model.Mystery Generated.MysteryGen.
From Coq Require Import List Bool Lia.
Import ListNotations.

Lemma gen_from_eq : forall jump rain st, gen_from st jump rain = mystery_from st jump rain.
Proof.
  (* robust to any boolean expression the translator may emit for the step: the step is compared with the
     model's by exhaustion of the three booleans, never by syntactic identity *)
  induction jump as [|j jt IH]; intros rain st; [destruct rain; reflexivity|].
  destruct rain as [|r rt]; [reflexivity|].
  cbn [gen_from mystery_from].
  assert (E : gen_step st j r = (if r then false else if j then true else st))
    by (unfold gen_step; destruct st, j, r; reflexivity).
  rewrite E, IH. reflexivity.
Qed.

Theorem generated_is_model : forall jump rain, gen_mask jump rain = mystery_from true jump rain.
Proof. intros. unfold gen_mask, gen_init. apply gen_from_eq. Qed.

(** Closing assertion 1: the mask is off wherever it rains. *)
Lemma from_off_in_rain : forall jump rain st i,
  nth i rain false = true -> i < length (gen_from st jump rain) -> nth i (gen_from st jump rain) true = false.
Proof.
  induction jump as [|j jt IH]; intros rain st i Hr Hi; destruct rain as [|r rt]; simpl in *; try lia.
  destruct i as [|i].
  - subst r. unfold gen_step. destruct st, j; reflexivity.
  - apply IH; [exact Hr|lia].
Qed.

(** Closing assertion 2: the mask is on wherever a fast increment ends at a rain-free sample. *)
Lemma from_on_at_dry_jump : forall jump rain st i,
  nth i rain true = false -> nth i jump false = true -> i < length (gen_from st jump rain) ->
  nth i (gen_from st jump rain) false = true.
Proof.
  induction jump as [|j jt IH]; intros rain st i Hr Hj Hi; destruct rain as [|r rt]; simpl in *; try lia.
  destruct i as [|i].
  - subst r j. unfold gen_step. destruct st; reflexivity.
  - apply IH; [exact Hr|exact Hj|lia].
Qed.

Theorem generated_assertions_never_fail : forall jump rain,
  gen_closing_assertions = [1; 2] /\
  (forall i, i < length (gen_mask jump rain) -> nth i rain false = true -> nth i (gen_mask jump rain) true = false) /\
  (forall i, i < length (gen_mask jump rain) -> nth i rain true = false -> nth i jump false = true ->
             nth i (gen_mask jump rain) false = true).
Proof.
  intros. split; [reflexivity|]. split; intros i Hi.
  - intros Hr. apply from_off_in_rain; assumption.
  - intros Hr Hj. apply from_on_at_dry_jump; assumption.
Qed.

Lemma gen_length : forall jump rain, length jump = length rain -> length (gen_mask jump rain) = length rain.
Proof.
  intros jump rain. unfold gen_mask. generalize gen_init.
  revert rain. induction jump as [|j jt IH]; intros [|r rt] st H; simpl in *; try lia.
  rewrite IH; lia.
Qed.
