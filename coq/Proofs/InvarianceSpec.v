(** Invariance of the spread, the level means (the master curve) and the residual
    sums under the arbitrary processing choices (C08), and the origin of the
    master curve (C09). *)
From Spowtd Require Import Model.FitOffsets Proofs.QSum Proofs.FitOffsetsSpec.
From Coq Require Import Lia Lqa Permutation Relations.

Lemma qsum_perm l l' : Permutation l l' -> qsum l == qsum l'.
Proof.
  induction 1 as [|a l l' _ IH|a b l|l l' l'' _ IH1 _ IH2]; simpl.
  - reflexivity.
  - rewrite IH. reflexivity.
  - ring.
  - rewrite IH1. exact IH2.
Qed.

Lemma filter_perm {A} (p : A -> bool) l l' : Permutation l l' -> Permutation (filter p l) (filter p l').
Proof.
  induction 1 as [|a l l' _ IH|a b l|l l' l'' _ IH1 _ IH2]; simpl.
  - constructor.
  - destruct (p a); [constructor|]; exact IH.
  - destruct (p a); destruct (p b); try reflexivity. constructor.
  - eapply perm_trans; eassumption.
Qed.

(** the master curve at level h for offsets x: mean over the intervals crossing
    h of (offset + crossing value) *)
Notation master := head_mean.

Section Perm.
  Variables E E' : list entry.
  Hypothesis HP : Permutation E E'.

  Lemma at_head_perm h : Permutation (at_head E h) (at_head E' h).
  Proof. apply filter_perm. exact HP. Qed.

  Lemma master_perm x h : master E' x h == master E x h.
  Proof.
    unfold head_mean.
    rewrite (qsum_perm _ _ (Permutation_map (shifted x) (at_head_perm h))).
    rewrite (Permutation_length (at_head_perm h)). reflexivity.
  Qed.

  Lemma dev_perm x c : dev E' x c == dev E x c.
  Proof. unfold dev. rewrite master_perm. reflexivity. Qed.

  Theorem objective_perm x : objective E' x == objective E x.
  Proof.
    unfold objective.
    rewrite <- (qsum_perm _ _ (Permutation_map (fun c => dev E' x c * dev E' x c) HP)).
    apply qsum_map_ext. intros c _. rewrite dev_perm. reflexivity.
  Qed.

  Theorem resid_perm x s : resid_sum E' x s == resid_sum E x s.
  Proof.
    unfold resid_sum.
    assert (Hp : Permutation (of_series E s) (of_series E' s)) by (apply filter_perm; exact HP).
    rewrite <- (qsum_perm _ _ (Permutation_map (dev E' x) Hp)).
    apply qsum_map_ext. intros c _. apply dev_perm.
  Qed.
End Perm.

(** Transport along a map of entries that keeps the level and the shifted value
    (offset + crossing value): covers a constant shift of one interval's own
    axis (x' = x - a) and a relabelling of the intervals (x' = x o rho^-1). *)
Section Transport.
  Variable E : list entry.
  Variable f : entry -> entry.
  Variables x x' : nat -> Q.
  Hypothesis f_head : forall c, e_head (f c) = e_head c.
  Hypothesis f_shifted : forall c, In c E -> shifted x' (f c) == shifted x c.

  Lemma at_head_map_gen h l : at_head (map f l) h = map f (at_head l h).
  Proof.
    unfold at_head. induction l as [|a t IH]; simpl; [reflexivity|].
    rewrite f_head. destruct (Z.eqb (e_head a) h); simpl; rewrite IH; reflexivity.
  Qed.
  Lemma at_head_map h : at_head (map f E) h = map f (at_head E h).
  Proof. apply at_head_map_gen. Qed.

  Lemma master_transport h : master (map f E) x' h == master E x h.
  Proof.
    unfold head_mean. rewrite at_head_map, map_map, map_length.
    rewrite (qsum_map_ext (fun c => shifted x' (f c)) (shifted x) (at_head E h)); [reflexivity|].
    intros c Hc. apply f_shifted. apply at_head_in in Hc. exact (proj1 Hc).
  Qed.

  Lemma dev_transport c : In c E -> dev (map f E) x' (f c) == dev E x c.
  Proof.
    intros Hc. unfold dev. rewrite f_head, master_transport, (f_shifted c Hc). reflexivity.
  Qed.

  Theorem objective_transport : objective (map f E) x' == objective E x.
  Proof.
    unfold objective. rewrite map_map. apply qsum_map_ext. intros c Hc.
    rewrite (dev_transport c Hc). reflexivity.
  Qed.

  (** residual sums, when the intervals are renamed injectively *)
  Variable rho : nat -> nat.
  Hypothesis rho_inj : forall a b, rho a = rho b -> a = b.
  Hypothesis f_series : forall c, e_series (f c) = rho (e_series c).

  Lemma of_series_map_gen s l : of_series (map f l) (rho s) = map f (of_series l s).
  Proof.
    unfold of_series. induction l as [|a t IH]; simpl; [reflexivity|].
    rewrite f_series.
    destruct (Nat.eqb (e_series a) s) eqn:E1.
    - apply Nat.eqb_eq in E1. subst s. rewrite Nat.eqb_refl. simpl. rewrite IH. reflexivity.
    - destruct (Nat.eqb (rho (e_series a)) (rho s)) eqn:E2.
      + apply Nat.eqb_eq in E2. apply rho_inj in E2. subst s. rewrite Nat.eqb_refl in E1. discriminate.
      + exact IH.
  Qed.
  Lemma of_series_map s : of_series (map f E) (rho s) = map f (of_series E s).
  Proof. apply of_series_map_gen. Qed.

  Theorem resid_transport s : resid_sum (map f E) x' (rho s) == resid_sum E x s.
  Proof.
    unfold resid_sum. rewrite of_series_map, map_map. apply qsum_map_ext. intros c Hc.
    apply dev_transport. apply of_series_in in Hc. exact (proj1 Hc).
  Qed.
End Transport.

(** The master curve of a minimiser, measured from any reference level, does not
    depend on which minimiser was computed (which interval was the internal
    zero, in which order the rows were assembled...). *)
Section Master.
  Variable E : list entry.

  Lemma master_shift x y k h c :
    In c (at_head E h) -> (forall s, In s (ids E) -> y s == x s + k) -> master E y h == master E x h + k.
  Proof.
    intros Hc Hy. unfold head_mean. fold (nh E h).
    assert (Hnz : ~ nh E h == 0) by (apply (nh_nonzero E h c); exact Hc).
    rewrite (qsum_map_ext (shifted y) (fun c0 => shifted x c0 + k) (at_head E h)).
    - rewrite qsum_map_plus, qsum_map_const. fold (nh E h). field. exact Hnz.
    - intros c0 Hc0. unfold shifted. apply at_head_in in Hc0.
      rewrite (Hy (e_series c0)) by (apply series_in; exact (proj1 Hc0)). ring.
  Qed.

  Theorem master_choice_free x y :
    connected E ->
    (forall s, In s (ids E) -> resid_sum E x s == 0) ->
    (forall s, In s (ids E) -> resid_sum E y s == 0) ->
    forall h h' c c', In c (at_head E h) -> In c' (at_head E h') ->
      master E y h - master E y h' == master E x h - master E x h'.
  Proof.
    intros Hconn Hx Hy h h' c c' Hc Hc'.
    assert (Hobj : objective E y == objective E x).
    { pose proof (zero_resid_minimises E x Hx y). pose proof (zero_resid_minimises E y Hy x). lra. }
    pose proof (minimisers_differ_by_shift E x y Hconn Hx Hobj) as Hd.
    set (s0 := e_series c).
    assert (Hs0 : In s0 (ids E)) by (apply series_in; apply at_head_in in Hc; exact (proj1 Hc)).
    assert (Hk : forall s, In s (ids E) -> y s == x s + (y s0 - x s0)).
    { intros s Hs. pose proof (Hd s s0 Hs Hs0). lra. }
    rewrite (master_shift x y _ h c Hc Hk), (master_shift x y _ h' c' Hc' Hk). ring.
  Qed.

  (** C09: subtracting the level mean at the reference level from every offset
      puts the origin of the master curve at that level. *)
  Theorem origin_at_reference x ref c :
    In c (at_head E ref) -> master E (fun s => x s - master E x ref) ref == 0.
  Proof.
    intros Hc.
    rewrite (master_shift x (fun s => x s - master E x ref) (- master E x ref) ref c Hc).
    - ring.
    - intros s _. ring.
  Qed.

  (** and leaves all differences along the curve unchanged *)
  Theorem origin_keeps_differences x ref h h' c c' :
    In c (at_head E h) -> In c' (at_head E h') ->
    master E (fun s => x s - master E x ref) h - master E (fun s => x s - master E x ref) h'
    == master E x h - master E x h'.
  Proof.
    intros Hc Hc'.
    rewrite (master_shift x _ (- master E x ref) h c Hc) by (intros s _; ring).
    rewrite (master_shift x _ (- master E x ref) h' c' Hc') by (intros s _; ring).
    ring.
  Qed.
End Master.
