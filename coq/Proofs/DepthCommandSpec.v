(** C03, third sentence, at COMMAND level: the depth that the view
    storm_total_rain_depth (Model/DepthView.v) attributes to a storm row written
    by the whole `classify` command (Model/ClassifyCommand.v), the rainfall
    table being the dataset's own (one row per sample epoch of each stretch),
    is the sum of intensity x step / 3600 over exactly the k steps of that storm
    in its ONE stretch: no step of another storm or of another stretch
    contributes and none is missing.

    The proof shows more than the equality of the sums: the epoch-range join of
    the view SELECTS exactly the k rows of the storm's own steps
    ([command_storm_selects_own_rows]). *)
From Spowtd Require Import Model.RegridFloat.
(* DepthView last among the models: [qsum] below is Model/DepthView.v's *)
From Spowtd Require Import Model.ClassifyCommand Model.DepthView Proofs.RunsSpec Proofs.ClassifyCommandSpec.
From Coq Require Import Lia.
Close Scope Q_scope.

(** * The rainfall table of a dataset *)

(** exact rational value of a stored intensity (a finite binary64 number is a
    dyadic rational; the theorem below holds for ANY conversion, see
    [command_depth_own_steps_with], so the value chosen for inf / NaN plays no
    role in it) *)
Definition rain_Q (v : float) : Q := match float_to_Q v with Some q => q | None => 0%Q end.

(** one row per sample epoch e of the stretch: [e, e + step), that sample's intensity *)
Definition stretch_rain_rows_with (cv : float -> Q) (step : Z) (s : stretch) : list rain_row :=
  map (fun p => {| r_from := fst p; r_thru := (fst p + step)%Z; r_mm_h := cv (snd p) |})
      (combine (s_epochs s) (s_rain s)).

Definition rain_rows_with (cv : float -> Q) (step : Z) (ds : list stretch) : list rain_row :=
  flat_map (stretch_rain_rows_with cv step) ds.

Definition rain_rows_of (step : Z) (ds : list stretch) : list rain_row := rain_rows_with rain_Q step ds.

(** intensity x step length of step j (counted from sample i) of stretch s *)
Definition step_depth_with (cv : float -> Q) (step : Z) (s : stretch) (i j : nat) : Q :=
  (cv (nth (i + j) (s_rain s) 0%float) * inject_Z step / 3600)%Q.

Definition own_steps_depth_with (cv : float -> Q) (step : Z) (s : stretch) (i k : nat) : Q :=
  qsum (map (step_depth_with cv step s i) (seq 0 k)).

Definition own_steps_depth (step : Z) (s : stretch) (i k : nat) : Q := own_steps_depth_with rain_Q step s i k.

(** * Lists *)
Lemma filter_none {A} (f : A -> bool) l : (forall x, In x l -> f x = false) -> filter f l = [].
Proof.
  induction l as [|a t IH]; intros H; [reflexivity|]. simpl. rewrite (H a) by (left; reflexivity).
  apply IH. intros x Hx. apply H. right. exact Hx.
Qed.

Lemma filter_all {A} (f : A -> bool) l : (forall x, In x l -> f x = true) -> filter f l = l.
Proof.
  induction l as [|a t IH]; intros H; [reflexivity|]. simpl. rewrite (H a) by (left; reflexivity).
  f_equal. apply IH. intros x Hx. apply H. right. exact Hx.
Qed.

Lemma nth_firstn_lt {A} (d : A) k : forall l j, j < k -> nth j (firstn k l) d = nth j l d.
Proof.
  induction k as [|k IH]; intros l j Hj; [lia|].
  destruct l as [|a t]; [reflexivity|]. destruct j as [|j]; [reflexivity|]. simpl. apply IH. lia.
Qed.

Lemma increasing_app_lt A B : increasing (A ++ B) = true ->
  forall a b, In a A -> In b B -> (a < b)%Z.
Proof.
  induction A as [|a0 A' IH]; intros H a b Ha Hb; [destruct Ha|].
  change ((a0 :: A') ++ B) with (a0 :: (A' ++ B)) in H.
  destruct Ha as [->|Ha].
  - apply (increasing_head a (A' ++ B) b H). apply in_or_app. right. exact Hb.
  - apply IH; [exact (increasing_tail _ _ H)|exact Ha|exact Hb].
Qed.

Lemma increasing_app_r A B : increasing (A ++ B) = true -> increasing B = true.
Proof.
  induction A as [|a0 A' IH]; intros H; [exact H|].
  apply IH. exact (increasing_tail a0 (A' ++ B) H).
Qed.

Lemma qsum_map_nth {A} (d : A) (f : A -> Q) : forall (M : list A) (g : nat -> Q),
  (forall j, j < length M -> (f (nth j M d) == g j)%Q) ->
  (qsum (map f M) == qsum (map g (seq 0 (length M))))%Q.
Proof.
  induction M as [|a t IH]; intros g H; [reflexivity|].
  cbn [length seq map qsum]. rewrite <- seq_shift, map_map.
  apply Qplus_comp.
  - apply (H 0). simpl. lia.
  - apply (IH (fun j => g (S j))). intros j Hj. apply (H (S j)). simpl. lia.
Qed.

(** * The join of the view selects the block of the storm's own steps *)
Section Select.
  Variables (step start : Z) (A M B : list rain_row).
  Hypothesis Hstep : (0 < step)%Z.
  Hypothesis Hinc : increasing (map r_from (A ++ M ++ B)) = true.
  Hypothesis Hthru : forall r, In r (A ++ M ++ B) -> r_thru r = (r_from r + step)%Z.
  Hypothesis Hk : 1 <= length M.
  Hypothesis HM : forall j d, j < length M -> r_from (nth j M d) = (start + Z.of_nat j * step)%Z.

  Lemma select_block :
    filter (in_storm start (start + Z.of_nat (length M) * step)) (A ++ M ++ B) = M.
  Proof.
    set (d := {| r_from := 0%Z; r_thru := 0%Z; r_mm_h := 0%Q |}).
    rewrite !map_app in Hinc.
    assert (Hfirst : In start (map r_from M)).
    { apply in_map_iff. exists (nth 0 M d). split; [rewrite HM by lia; simpl; lia|apply nth_In; lia]. }
    assert (Hlast : In (start + Z.of_nat (length M - 1) * step)%Z (map r_from M)).
    { apply in_map_iff. exists (nth (length M - 1) M d). split; [rewrite HM by lia; reflexivity|apply nth_In; lia]. }
    rewrite !filter_app.
    rewrite (filter_none _ A), (filter_none _ B), (filter_all _ M); [rewrite app_nil_r; reflexivity| | |].
    - intros r Hr. destruct (In_nth M r d Hr) as (j & Hj & <-).
      assert (Hin : In (nth j M d) (A ++ M ++ B)) by (apply in_or_app; right; apply in_or_app; left; apply nth_In; exact Hj).
      unfold in_storm. rewrite (Hthru _ Hin), (HM j d Hj).
      apply andb_true_iff. split; apply Z.leb_le; nia.
    - intros r Hr.
      assert (Hin : In r (A ++ M ++ B)) by (apply in_or_app; right; apply in_or_app; right; exact Hr).
      assert (Hlt : (start + Z.of_nat (length M - 1) * step < r_from r)%Z).
      { apply (increasing_app_lt (map r_from M) (map r_from B)).
        - exact (increasing_app_r _ _ Hinc).
        - exact Hlast.
        - apply in_map. exact Hr. }
      unfold in_storm. rewrite (Hthru _ Hin). apply andb_false_iff. right. apply Z.leb_gt.
      replace (Z.of_nat (length M - 1)) with (Z.of_nat (length M) - 1)%Z in Hlt by lia. nia.
    - intros r Hr.
      assert (Hlt : (r_from r < start)%Z).
      { apply (increasing_app_lt (map r_from A) (map r_from M ++ map r_from B) Hinc).
        - apply in_map. exact Hr.
        - apply in_or_app. left. exact Hfirst. }
      unfold in_storm. apply andb_false_iff. left. apply Z.leb_gt. exact Hlt.
  Qed.
End Select.

(** * The rainfall rows of a loaded dataset *)
Section Rows.
  Variables (cv : float -> Q) (step : Z).

  Lemma stretch_rows_from s : stretch_ok step s = true ->
    map r_from (stretch_rain_rows_with cv step s) = s_epochs s.
  Proof.
    intros Hok. unfold stretch_ok in Hok. rewrite !andb_true_iff, !Nat.eqb_eq in Hok.
    destruct Hok as ((_ & Hr) & _). unfold stretch_rain_rows_with. rewrite map_map. cbn [r_from].
    apply map_fst_combine. lia.
  Qed.

  Lemma rows_from ds : forallb (stretch_ok step) ds = true ->
    map r_from (rain_rows_with cv step ds) = all_epochs ds.
  Proof.
    induction ds as [|s t IH]; intros H; [reflexivity|].
    cbn [forallb] in H. apply andb_true_iff in H. destruct H as (Hs & Ht).
    unfold rain_rows_with, all_epochs. cbn [flat_map]. rewrite map_app, (stretch_rows_from s Hs).
    f_equal. apply IH. exact Ht.
  Qed.

  Lemma rows_thru ds r : In r (rain_rows_with cv step ds) -> r_thru r = (r_from r + step)%Z.
  Proof.
    intros H. apply in_flat_map in H. destruct H as (s & _ & H).
    apply in_map_iff in H. destruct H as (p & <- & _). reflexivity.
  Qed.

  Lemma stretch_rows_length s : stretch_ok step s = true ->
    length (stretch_rain_rows_with cv step s) = length (s_epochs s).
  Proof. intros Hok. rewrite <- (stretch_rows_from s Hok), map_length. reflexivity. Qed.

  Lemma stretch_rows_nth s p d : stretch_ok step s = true -> p < length (s_epochs s) ->
    nth p (stretch_rain_rows_with cv step s) d =
    {| r_from := nth p (s_epochs s) 0%Z; r_thru := (nth p (s_epochs s) 0 + step)%Z;
       r_mm_h := cv (nth p (s_rain s) 0%float) |}.
  Proof.
    intros Hok Hp. pose proof Hok as Hok'. unfold stretch_ok in Hok'.
    rewrite !andb_true_iff, !Nat.eqb_eq in Hok'. destruct Hok' as ((_ & Hr) & _).
    unfold stretch_rain_rows_with.
    set (f := fun p0 : Z * float => {| r_from := fst p0; r_thru := (fst p0 + step)%Z; r_mm_h := cv (snd p0) |}).
    rewrite (nth_indep (map f (combine (s_epochs s) (s_rain s))) d (f (0%Z, 0%float)))
      by (rewrite map_length, combine_length; lia).
    rewrite map_nth, combine_nth by lia. reflexivity.
  Qed.
End Rows.

(** * The theorem *)
Section Depth.
  Variables (cv : float -> Q) (step : Z) (thr_s thr_j : float) (ds : list stretch)
            (scheds : list (list nat)) (c : command_rows).
  Hypothesis Hload : loaded_ok step ds = true.
  Hypothesis Hc : classify_command step thr_s thr_j ds scheds = Ok c.

  (** the rows the view joins to a storm row are exactly the k rows of the
      storm's own steps, samples i .. i+k-1 of its one stretch, in order *)
  Theorem command_storm_selects_own_rows :
    forall start thru, In (start, thru) (c_storm c) ->
    exists s i k, In s ds /\ 1 <= k /\ i + k <= length (s_epochs s) /\
      (forall j, j < k -> nth (i + j) (s_epochs s) 0%Z = (start + Z.of_nat j * step)%Z) /\
      thru = (start + Z.of_nat k * step)%Z /\
      is_run (heavy_flags thr_s (s_rain s)) i (i + k) /\
      filter (in_storm start thru) (rain_rows_with cv step ds) =
      map (fun j => {| r_from := (start + Z.of_nat j * step)%Z;
                       r_thru := (start + Z.of_nat j * step + step)%Z;
                       r_mm_h := cv (nth (i + j) (s_rain s) 0%float) |}) (seq 0 k).
  Proof.
    intros start thru Hst.
    destruct (command_storms_are_runs step thr_s thr_j ds scheds c Hload Hc start thru Hst)
      as (s & i & k & Hin & Hk & Hik & Hep & -> & Hrun).
    exists s, i, k. repeat (split; [assumption|]). split; [reflexivity|]. split; [exact Hrun|].
    destruct (loaded_ok_parts step ds Hload) as (Hstep & Hall & _).
    assert (Hinc : increasing (all_epochs ds) = true).
    { unfold loaded_ok in Hload. rewrite !andb_true_iff in Hload. tauto. }
    assert (Hok : stretch_ok step s = true) by (rewrite forallb_forall in Hall; apply Hall; exact Hin).
    destruct (in_split s ds Hin) as (ds1 & ds2 & Hds).
    set (R := stretch_rain_rows_with cv step s).
    set (M := firstn k (skipn i R)).
    assert (HlenR : length R = length (s_epochs s)) by (apply stretch_rows_length; exact Hok).
    assert (HlenM : length M = k).
    { unfold M. rewrite firstn_length, skipn_length. lia. }
    assert (Hnth : forall j d, j < k -> nth j M d =
              {| r_from := (start + Z.of_nat j * step)%Z; r_thru := (start + Z.of_nat j * step + step)%Z;
                 r_mm_h := cv (nth (i + j) (s_rain s) 0%float) |}).
    { intros j d Hj. unfold M. rewrite nth_firstn_lt by exact Hj. rewrite nth_skipn_add.
      unfold R. rewrite (stretch_rows_nth cv step s (i + j) d Hok) by lia. rewrite (Hep j Hj). reflexivity. }
    assert (Hdecomp : rain_rows_with cv step ds =
              (rain_rows_with cv step ds1 ++ firstn i R) ++ M ++ (skipn k (skipn i R) ++ rain_rows_with cv step ds2)).
    { rewrite Hds. unfold rain_rows_with. rewrite flat_map_app. cbn [flat_map]. fold R.
      rewrite <- !app_assoc. f_equal. rewrite !app_assoc. f_equal. unfold M.
      rewrite <- app_assoc, firstn_skipn, firstn_skipn. reflexivity. }
    assert (Hsel : filter (in_storm start (start + Z.of_nat k * step)) (rain_rows_with cv step ds) = M).
    { rewrite Hdecomp. rewrite <- HlenM at 1. apply select_block.
      - exact Hstep.
      - rewrite <- Hdecomp, (rows_from cv step ds Hall). exact Hinc.
      - intros r Hr. rewrite <- Hdecomp in Hr. exact (rows_thru cv step ds r Hr).
      - lia.
      - intros j d Hj. rewrite HlenM in Hj. rewrite (Hnth j d Hj). reflexivity. }
    rewrite Hsel.
    apply (nth_ext _ _ {| r_from := 0%Z; r_thru := 0%Z; r_mm_h := 0%Q |}
                       {| r_from := (start + Z.of_nat 0 * step)%Z; r_thru := (start + Z.of_nat 0 * step + step)%Z;
                          r_mm_h := cv (nth (i + 0) (s_rain s) 0%float) |}).
    - rewrite map_length, seq_length. exact HlenM.
    - intros j Hj. rewrite HlenM in Hj.
      rewrite (map_nth (fun j => {| r_from := (start + Z.of_nat j * step)%Z;
                                    r_thru := (start + Z.of_nat j * step + step)%Z;
                                    r_mm_h := cv (nth (i + j) (s_rain s) 0%float) |}) (seq 0 k) 0 j).
      rewrite seq_nth by exact Hj. rewrite (Hnth j _ Hj). reflexivity.
  Qed.

  Theorem command_depth_own_steps_with :
    forall start thru, In (start, thru) (c_storm c) ->
    exists s i k, In s ds /\ 1 <= k /\ i + k <= length (s_epochs s) /\
      (forall j, j < k -> nth (i + j) (s_epochs s) 0%Z = (start + Z.of_nat j * step)%Z) /\
      thru = (start + Z.of_nat k * step)%Z /\
      is_run (heavy_flags thr_s (s_rain s)) i (i + k) /\
      (view_depth start thru (rain_rows_with cv step ds) == own_steps_depth_with cv step s i k)%Q.
  Proof.
    intros start thru Hst.
    destruct (command_storm_selects_own_rows start thru Hst)
      as (s & i & k & Hin & Hk & Hik & Hep & Hthru & Hrun & Hsel).
    exists s, i, k. repeat (split; [assumption|]).
    unfold view_depth, own_steps_depth_with. rewrite Hsel, map_map.
    clear. induction (seq 0 k) as [|j t IH]; [reflexivity|].
    cbn [map qsum]. apply Qplus_comp; [|exact IH]. unfold row_depth, step_depth_with. cbn [r_from r_thru r_mm_h].
    replace (start + Z.of_nat j * step + step - (start + Z.of_nat j * step))%Z with step by ring.
    reflexivity.
  Qed.
End Depth.

(** with the exact rational value of each stored intensity *)
Theorem command_depth_own_steps : forall step thr_s thr_j ds scheds c,
  loaded_ok step ds = true -> classify_command step thr_s thr_j ds scheds = Ok c ->
  forall start thru, In (start, thru) (c_storm c) ->
  exists s i k, In s ds /\ 1 <= k /\ i + k <= length (s_epochs s) /\
    (forall j, j < k -> nth (i + j) (s_epochs s) 0%Z = (start + Z.of_nat j * step)%Z) /\
    thru = (start + Z.of_nat k * step)%Z /\
    is_run (heavy_flags thr_s (s_rain s)) i (i + k) /\
    (view_depth start thru (rain_rows_of step ds) == own_steps_depth step s i k)%Q.
Proof.
  intros step thr_s thr_j ds scheds c Hload Hc. exact (command_depth_own_steps_with rain_Q step thr_s thr_j ds scheds c Hload Hc).
Qed.
