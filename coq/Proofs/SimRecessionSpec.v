(** C18 — proofs about Model/SimRecession.v over the reals.

    Layout:
    1. [CurveDom]: the telescoping of Model/SimRise.v [rise_curve] for an
       integrator that is the increment of one function ON A DOMAIN (levels
       below the transmissivity ceiling), by reduction to Proofs/SimRiseSpec.v.
    2. [Recession]: the integrand Sy / (-ET - kappa T) for continuous Sy, T
       with a negative denominator on [lo, hi]; quad as an oracle for RInt.
    3. The ET query on lists.
    4. The rows of the command. *)
From Coq Require Import Reals Lra Lia List Sorted Permutation ZArith Bool.
From Coquelicot Require Import Coquelicot.
From Spowtd Require Import Model.SimRecession Proofs.SimRiseSpec.
Import ListNotations.
Local Open Scope R_scope.

(** ---- 1. rise_curve with an integrator characterised on a domain *)
Section CurveDom.
  Variable integ : R -> R -> R.
  Variable G : R -> R.
  Variable D : R -> Prop.
  Hypothesis integ_char : forall a b, D a -> D b -> integ a b = G b - G a.

  Let integ' (a b : R) : R := G b - G a.

  Lemma increments_ext_dom :
    forall t p, D p -> Forall D t -> increments integ p t = increments integ' p t.
  Proof.
    induction t as [|z t IH]; intros p Hp Ht; simpl; [reflexivity|].
    inversion Ht as [|? ? Hz Ht']; subst.
    rewrite integ_char by assumption. unfold integ' at 1.
    now rewrite IH.
  Qed.

  Lemma rise_curve_ext_dom :
    forall grid m, Forall D grid ->
      rise_curve Rops integ grid m = rise_curve Rops integ' grid m.
  Proof.
    intros [|z0 t] m Hg; [reflexivity|].
    inversion Hg as [|? ? Hz Ht]; subst.
    unfold rise_curve, raw_curve. now rewrite increments_ext_dom.
  Qed.

  (** Any two grid levels (induction over the grid is in
      SimRiseSpec.cumsum_increments_nth). *)
  Theorem curve_diff_dom :
    forall grid m W, Forall D grid -> rise_curve Rops integ grid m = Ok W ->
    forall i j d, (i < length grid)%nat -> (j < length grid)%nat ->
      nth j W d - nth i W d = G (nth j grid d) - G (nth i grid d).
  Proof.
    intros grid m W Hg H i j d Hi Hj.
    rewrite rise_curve_ext_dom in H by assumption.
    exact (curve_diff integ' G (fun a b => eq_refl) grid m W H i j d Hi Hj).
  Qed.

End CurveDom.

Lemma Forall_nth_dom :
  forall (D : R -> Prop) (l : list R) k d, Forall D l -> (k < length l)%nat -> D (nth k l d).
Proof.
  intros D l k d Hl Hk. rewrite Forall_forall in Hl. apply Hl. now apply nth_In.
Qed.

Lemma Forall_last_dom :
  forall (D : R -> Prop) (l : list R) q, Forall D l -> D q -> D (last l q).
Proof.
  induction l as [|x l IH]; intros q Hl Hq; simpl; [assumption|].
  inversion Hl as [|? ? Hx Hl']; subst.
  destruct l as [|y l']; [assumption|]. apply IH; assumption.
Qed.

Lemma last_cons_default :
  forall (l : list R) q p, last (q :: l) p = last l q.
Proof.
  induction l as [|r l IH]; intros q p; [reflexivity|].
  change (last (q :: r :: l) p) with (last (r :: l) p).
  now rewrite (IH r p), (IH r q).
Qed.

(** ---- 2. the integrand *)
Section Recession.
  Variables Sy T : R -> R.
  Variables lo hi : R.
  Variables ET kappa : R.
  Let D (z : R) : Prop := lo <= z <= hi.
  Hypothesis Sy_cont : forall z, D z -> continuous Sy z.
  Hypothesis T_cont : forall z, D z -> continuous T z.
  (** the denominator of f is negative (see [den_neg_of_signs] below) *)
  Hypothesis den_neg : forall z, D z -> - ET - kappa * T z < 0.

  Notation f := (integrand Sy T ET kappa).

  Lemma f_continuous : forall z, D z -> continuous f z.
  Proof.
    intros z Hz. unfold integrand.
    apply (continuous_mult Sy (fun y => / (- ET - kappa * T y))).
    - now apply Sy_cont.
    - apply continuous_Rinv_comp.
      + apply (continuous_minus (fun _ => - ET) (fun y => kappa * T y)).
        * apply continuous_const.
        * apply (continuous_mult (fun _ => kappa) T); [apply continuous_const|now apply T_cont].
      + specialize (den_neg z Hz). lra.
  Qed.

  Lemma D_between : forall a b z, D a -> D b -> Rmin a b <= z <= Rmax a b -> D z.
  Proof.
    intros a b z [Ha1 Ha2] [Hb1 Hb2] [Hz1 Hz2]. unfold D.
    unfold Rmin, Rmax in *. destruct (Rle_dec a b); lra.
  Qed.

  Lemma f_ex_RInt : forall a b, D a -> D b -> ex_RInt f a b.
  Proof.
    intros a b Ha Hb. apply (ex_RInt_continuous (V := R_CompleteNormedModule)).
    intros z Hz. apply f_continuous. now apply (D_between a b).
  Qed.

  (** Chasles: the integral between two levels of the domain is the increment
      of ONE function. *)
  Lemma f_chasles : forall c a b, D c -> D a -> D b ->
    RInt f a b = RInt f c b - RInt f c a.
  Proof.
    intros c a b Hc Ha Hb.
    assert (H := RInt_Chasles f c a b (f_ex_RInt c a Hc Ha) (f_ex_RInt a b Ha Hb)).
    unfold plus in H. simpl in H. lra.
  Qed.

  (** scipy.integrate.quad as an oracle for the integral of f between levels
      of the domain. *)
  Variable quad : (R -> R) -> R -> R -> R.
  Hypothesis quad_spec : forall a b, D a -> D b -> quad f a b = RInt f a b.

  Notation curve := (fun grid m => recession_curve quad Sy T grid m kappa ET).

  Lemma recession_curve_ok :
    forall grid m t, curve grid m = Ok t ->
      0 <= ET /\ 0 <= kappa /\ rise_curve Rops (quad f) grid m = Ok t.
  Proof.
    intros grid m t H. unfold recession_curve, recession_curve_gen in H.
    change (fltb Rops) with Rltb in H. unfold Rltb in H. change (f0 Rops) with 0 in H.
    destruct (Rlt_dec ET 0) as [H1|H1]; [discriminate|].
    destruct (Rlt_dec kappa 0) as [H2|H2]; [discriminate|].
    repeat split; try lra. exact H.
  Qed.

  Lemma grid_nonempty_dom :
    forall grid, Forall D grid -> grid <> [] -> D (hd 0 grid).
  Proof.
    intros [|z0 t] Hg Hne; [congruence|]. now inversion Hg.
  Qed.

  (** C18: between ANY two grid levels the simulated elapsed time differs by
      the integral of f. *)
  Theorem recession_diff :
    forall grid m t, Forall D grid -> curve grid m = Ok t ->
    forall i j d, (i < length grid)%nat -> (j < length grid)%nat ->
      nth j t d - nth i t d = RInt f (nth i grid d) (nth j grid d).
  Proof.
    intros grid m t Hg H i j d Hi Hj.
    destruct (recession_curve_ok grid m t H) as [_ [_ Hr]].
    assert (Hne : grid <> []) by (destruct grid; [simpl in Hi; lia|discriminate]).
    set (c := hd 0 grid).
    assert (Hc : D c) by now apply grid_nonempty_dom.
    assert (Hchar : forall a b, D a -> D b -> quad f a b = RInt f c b - RInt f c a).
    { intros a b Ha Hb. rewrite quad_spec by assumption. now apply f_chasles. }
    rewrite (curve_diff_dom (quad f) (fun x => RInt f c x) D Hchar grid m t Hg Hr i j d Hi Hj).
    symmetry. apply f_chasles; try assumption; now apply Forall_nth_dom.
  Qed.

  Lemma recession_length :
    forall grid m t, curve grid m = Ok t -> length t = length grid.
  Proof.
    intros grid m t H. destruct (recession_curve_ok grid m t H) as [_ [_ Hr]].
    exact (curve_length (quad f) grid m t Hr).
  Qed.

  (** Shared levels of two grids (in particular a grid and any refinement of
      it), any requested means: the same differences. *)
  Theorem recession_shared_levels :
    forall grid1 grid2 m1 m2 t1 t2,
      Forall D grid1 -> Forall D grid2 ->
      curve grid1 m1 = Ok t1 -> curve grid2 m2 = Ok t2 ->
      forall i j i' j' d,
        (i < length grid1)%nat -> (j < length grid1)%nat ->
        (i' < length grid2)%nat -> (j' < length grid2)%nat ->
        nth i grid1 d = nth i' grid2 d -> nth j grid1 d = nth j' grid2 d ->
        nth j t1 d - nth i t1 d = nth j' t2 d - nth i' t2 d.
  Proof.
    intros grid1 grid2 m1 m2 t1 t2 D1 D2 H1 H2 i j i' j' d Hi Hj Hi' Hj' Ei Ej.
    rewrite (recession_diff grid1 m1 t1 D1 H1 i j d Hi Hj).
    rewrite (recession_diff grid2 m2 t2 D2 H2 i' j' d Hi' Hj').
    now rewrite Ei, Ej.
  Qed.

  (** ... and the values themselves move by one common constant. *)
  Theorem recession_common_shift :
    forall grid1 grid2 m1 m2 t1 t2,
      Forall D grid1 -> Forall D grid2 ->
      curve grid1 m1 = Ok t1 -> curve grid2 m2 = Ok t2 ->
      exists c, forall i i' d,
        (i < length grid1)%nat -> (i' < length grid2)%nat ->
        nth i grid1 d = nth i' grid2 d ->
        nth i' t2 d = nth i t1 d + c.
  Proof.
    intros grid1 grid2 m1 m2 t1 t2 D1 D2 H1 H2.
    destruct grid1 as [|a1 r1].
    { exists 0. intros i i' d Hi. simpl in Hi. lia. }
    destruct grid2 as [|a2 r2].
    { exists 0. intros i i' d _ Hi'. simpl in Hi'. lia. }
    assert (Da1 : D a1) by now inversion D1.
    assert (Da2 : D a2) by now inversion D2.
    exists (nth 0 t2 0 - nth 0 t1 0 - RInt f a1 a2).
    intros i i' d Hi Hi' E.
    assert (E1 := recession_diff _ m1 t1 D1 H1 0%nat i d ltac:(simpl; lia) Hi).
    assert (E2 := recession_diff _ m2 t2 D2 H2 0%nat i' d ltac:(simpl; lia) Hi').
    assert (L1 := recession_length _ _ _ H1). assert (L2 := recession_length _ _ _ H2).
    rewrite (nth_indep t1 0 d) by (rewrite L1; simpl; lia).
    rewrite (nth_indep t2 0 d) by (rewrite L2; simpl; lia).
    change (nth 0 (a1 :: r1) d) with a1 in E1. change (nth 0 (a2 :: r2) d) with a2 in E2.
    assert (Di : D (nth i (a1 :: r1) d)) by now apply Forall_nth_dom.
    assert (Di' : D (nth i' (a2 :: r2) d)) by now apply Forall_nth_dom.
    rewrite (f_chasles a1 a2 (nth i' (a2 :: r2) d) Da1 Da2 Di') in E2.
    rewrite <- E in E2.
    remember (nth i (a1 :: r1) d) as zi eqn:Ezi.
    assert (P0 : RInt f a1 a1 = 0) by (rewrite RInt_point; reflexivity).
    assert (E3 := f_chasles a1 a1 zi Da1 Da1 Di).
    lra.
  Qed.

  (** Reversing the grid: the value differences between the same two levels
      are unchanged (level k of the grid is level n-1-k of the reversed one). *)
  Theorem recession_reverse :
    forall grid m1 m2 t1 t2,
      Forall D grid -> curve grid m1 = Ok t1 -> curve (rev grid) m2 = Ok t2 ->
      forall i j d, (i < length grid)%nat -> (j < length grid)%nat ->
        nth (length grid - 1 - j) t2 d - nth (length grid - 1 - i) t2 d
        = nth j t1 d - nth i t1 d.
  Proof.
    intros grid m1 m2 t1 t2 Dg H1 H2 i j d Hi Hj.
    assert (Dr : Forall D (rev grid)).
    { rewrite Forall_forall in *. intros x Hx. apply Dg. now apply in_rev. }
    symmetry.
    apply (recession_shared_levels grid (rev grid) m1 m2 t1 t2 Dg Dr H1 H2 i j _ _ d Hi Hj);
      rewrite ?rev_length; try lia.
    - rewrite rev_nth by lia. f_equal. lia.
    - rewrite rev_nth by lia. f_equal. lia.
  Qed.

  (** Time increases as the level falls, when specific yield is positive. *)
  Theorem recession_time_increases_downward :
    (forall z, D z -> 0 < Sy z) ->
    forall grid m t, Forall D grid -> curve grid m = Ok t ->
    forall i j d, (i < length grid)%nat -> (j < length grid)%nat ->
      nth j grid d < nth i grid d -> nth i t d < nth j t d.
  Proof.
    intros Sy_pos grid m t Dg H i j d Hi Hj Hlt.
    assert (E := recession_diff grid m t Dg H i j d Hi Hj).
    set (a := nth j grid d) in *. set (b := nth i grid d) in *.
    assert (Da : D a) by now apply Forall_nth_dom.
    assert (Db : D b) by now apply Forall_nth_dom.
    rewrite <- (opp_RInt_swap f a b (f_ex_RInt a b Da Db)) in E.
    unfold opp in E. simpl in E.
    assert (Hneg : RInt f a b < 0).
    { assert (H0 : RInt (fun _ : R => 0) a b = 0).
      { rewrite RInt_const. unfold scal. simpl. unfold mult. simpl. ring. }
      rewrite <- H0.
      apply RInt_lt; try assumption.
      - intros x Hx. apply continuous_const.
      - intros x Hx. apply f_continuous. unfold D in *. lra.
      - intros x Hx. unfold integrand.
        assert (Dx : D x) by (unfold D in *; lra).
        specialize (Sy_pos x Dx). specialize (den_neg x Dx).
        apply Ropp_lt_cancel. rewrite Ropp_0.
        replace (- (Sy x / (- ET - kappa * T x))) with (Sy x / (ET + kappa * T x))
          by (field; lra).
        apply Rdiv_lt_0_compat; lra. }
    lra.
  Qed.

  (** The mean of the returned curve is the requested mean (no hypothesis on
      the integrator; a curve is returned only for a non-empty grid). *)
  Theorem recession_mean :
    forall grid m t, curve grid m = Ok t -> fmean Rops t = m.
  Proof.
    intros grid m t H. destruct (recession_curve_ok grid m t H) as [_ [_ Hr]].
    exact (curve_mean (quad f) grid m t Hr).
  Qed.

  (** A grid cell split at intermediate points (the knots of the hydraulic
      functions): the integral over the cell is the sum over the pieces. *)
  Theorem piece_sum_RInt :
    forall pts p, D p -> Forall D pts ->
      piece_sum quad_ideal f p pts = RInt f p (last pts p).
  Proof.
    induction pts as [|q pts IH]; intros p Hp Hpts.
    - simpl. rewrite RInt_point. reflexivity.
    - inversion Hpts as [|? ? Hq Hrest]; subst.
      change (piece_sum quad_ideal f p (q :: pts))
        with (quad_ideal f p q + piece_sum quad_ideal f q pts).
      rewrite IH by assumption. unfold quad_ideal.
      assert (Dl : D (last pts q)) by (apply Forall_last_dom; assumption).
      assert (Hch := RInt_Chasles f p q (last pts q) (f_ex_RInt p q Hp Hq) (f_ex_RInt q _ Hq Dl)).
      unfold plus in Hch. simpl in Hch. rewrite Hch.
      now rewrite last_cons_default.
  Qed.
End Recession.

(** The sign hypotheses of the property give the negative denominator. *)
Lemma den_neg_of_signs :
  forall (T : R -> R) (ET kappa : R) (P : R -> Prop),
    0 <= ET -> 0 <= kappa -> (0 < ET \/ 0 < kappa) ->
    (forall z, P z -> 0 < T z) ->
    forall z, P z -> - ET - kappa * T z < 0.
Proof.
  intros T ET kappa P HE Hk Hnz HT z Hz. specialize (HT z Hz).
  destruct Hnz as [H|H]; nra.
Qed.

(** T >= 0 suffices when ET > 0. *)
Lemma den_neg_of_ET_pos :
  forall (T : R -> R) (ET kappa : R) (P : R -> Prop),
    0 < ET -> 0 <= kappa -> (forall z, P z -> 0 <= T z) ->
    forall z, P z -> - ET - kappa * T z < 0.
Proof.
  intros T ET kappa P HE Hk HT z Hz. specialize (HT z Hz). nra.
Qed.

(** ---- zero curvature: the link with the simulated rise curve (C17) *)
Section ZeroCurvature.
  Variables Sy T : R -> R.
  Variables lo hi ET : R.
  Let D (z : R) : Prop := lo <= z <= hi.
  Hypothesis Sy_cont : forall z, D z -> continuous Sy z.
  Hypothesis ET_pos : 0 < ET.
  Variable quad : (R -> R) -> R -> R -> R.
  Hypothesis quad_spec : forall g a b, D a -> D b ->
    (forall z, D z -> continuous g z) -> quad g a b = RInt g a b.

  Lemma Sy_ex_RInt : forall a b, D a -> D b -> ex_RInt Sy a b.
  Proof.
    intros a b Ha Hb. apply (ex_RInt_continuous (V := R_CompleteNormedModule)).
    intros z Hz. apply Sy_cont. unfold D in *. unfold Rmin, Rmax in Hz.
    destruct (Rle_dec a b); lra.
  Qed.

  (** With zero curvature: elapsed time x ET = storage released, W being the
      simulated rise curve (Model/SimRise.v with the integral of Sy). *)
  Theorem zero_curvature_storage :
    forall grid m mW t W, Forall D grid ->
      recession_curve quad Sy T grid m 0 ET = Ok t ->
      rise_curve Rops (quad Sy) grid mW = Ok W ->
      forall i j d, (i < length grid)%nat -> (j < length grid)%nat ->
        ET * (nth j t d - nth i t d) = - (nth j W d - nth i W d).
  Proof.
    intros grid m mW t W Dg Ht HW i j d Hi Hj.
    set (g := fun z : R => Sy z * (- / ET)).
    assert (Eg : forall z, integrand Sy T ET 0 z = g z).
    { intros z. unfold integrand, g. field. lra. }
    assert (g_cont : forall z, D z -> continuous g z).
    { intros z Hz. apply (continuous_mult Sy (fun _ => - / ET)).
      - now apply Sy_cont.
      - apply continuous_const. }
    assert (f_cont : forall z, D z -> continuous (integrand Sy T ET 0) z).
    { intros z Hz. apply (continuous_ext g); [intros y; symmetry; apply Eg|now apply g_cont]. }
    (* time differences *)
    assert (Et : nth j t d - nth i t d = RInt (integrand Sy T ET 0) (nth i grid d) (nth j grid d)).
    { unfold recession_curve, recession_curve_gen in Ht.
      change (fltb Rops) with Rltb in Ht. unfold Rltb in Ht. change (f0 Rops) with 0 in Ht.
      destruct (Rlt_dec ET 0); [discriminate|]. destruct (Rlt_dec 0 0); [lra|].
      assert (Hne : grid <> []) by (destruct grid; [simpl in Hi; lia|discriminate]).
      set (c := hd 0 grid).
      assert (Hc : D c) by (destruct grid; [congruence|now inversion Dg]).
      assert (Hex : forall a b, D a -> D b -> ex_RInt (integrand Sy T ET 0) a b).
      { intros a b Ha Hb. apply (ex_RInt_continuous (V := R_CompleteNormedModule)).
        intros z Hz. apply f_cont. unfold D in *. unfold Rmin, Rmax in Hz.
        destruct (Rle_dec a b); lra. }
      assert (Hch : forall a b, D a -> D b ->
                RInt (integrand Sy T ET 0) a b
                = RInt (integrand Sy T ET 0) c b - RInt (integrand Sy T ET 0) c a).
      { intros a b Ha Hb.
        assert (H := RInt_Chasles _ c a b (Hex c a Hc Ha) (Hex a b Ha Hb)).
        unfold plus in H. simpl in H. lra. }
      assert (Hchar : forall a b, D a -> D b ->
                quad (integrand Sy T ET 0) a b
                = RInt (integrand Sy T ET 0) c b - RInt (integrand Sy T ET 0) c a).
      { intros a b Ha Hb. rewrite quad_spec by assumption. now apply Hch. }
      rewrite (curve_diff_dom _ (fun x => RInt (integrand Sy T ET 0) c x) D Hchar grid m t Dg Ht
                              i j d Hi Hj).
      symmetry. apply Hch; now apply Forall_nth_dom. }
    (* storage differences *)
    assert (EW : nth j W d - nth i W d = RInt Sy (nth i grid d) (nth j grid d)).
    { assert (Hne : grid <> []) by (destruct grid; [simpl in Hi; lia|discriminate]).
      set (c := hd 0 grid).
      assert (Hc : D c) by (destruct grid; [congruence|now inversion Dg]).
      assert (Hch : forall a b, D a -> D b -> RInt Sy a b = RInt Sy c b - RInt Sy c a).
      { intros a b Ha Hb.
        assert (H := RInt_Chasles _ c a b (Sy_ex_RInt c a Hc Ha) (Sy_ex_RInt a b Ha Hb)).
        unfold plus in H. simpl in H. lra. }
      assert (Hchar : forall a b, D a -> D b -> quad Sy a b = RInt Sy c b - RInt Sy c a).
      { intros a b Ha Hb. rewrite quad_spec by assumption. now apply Hch. }
      rewrite (curve_diff_dom _ (fun x => RInt Sy c x) D Hchar grid mW W Dg HW i j d Hi Hj).
      symmetry. apply Hch; now apply Forall_nth_dom. }
    rewrite Et, EW.
    set (a := nth i grid d). set (b := nth j grid d).
    assert (Da : D a) by now apply Forall_nth_dom.
    assert (Db : D b) by now apply Forall_nth_dom.
    assert (Hs : RInt (fun z => (- / ET) * Sy z) a b = (- / ET) * RInt Sy a b)
      by exact (RInt_scal (V := R_CompleteNormedModule) Sy a b (- / ET) (Sy_ex_RInt a b Da Db)).
    rewrite (RInt_ext (V := R_CompleteNormedModule) (integrand Sy T ET 0)
                      (fun z => (- / ET) * Sy z) a b).
    - rewrite Hs. field. lra.
    - intros z _. rewrite Eg. unfold g. exact (Rmult_comm _ _).
  Qed.
End ZeroCurvature.

(** ---- 3. the ET query *)

(** Which steps the join selects: the steps [from, thru) lying inside a zeta
    interval whose start is the start of a recession interval of the master
    curve (every step of the interval, not only the first). *)
Theorem et_selected_In :
  forall {F : Type} (db : tables (F:=F)) (e : Z * Z * F),
    In e (et_selected db) <->
    In e (et_steps db) /\
    exists s thru, In s (rec_starts db) /\ In (s, thru) (zeta_ivs db) /\
                   (s <= fst (fst e))%Z /\ (snd (fst e) <= thru)%Z.
Proof.
  intros F db e. unfold et_selected. rewrite in_flat_map. split.
  - intros [s [Hs H]]. apply in_flat_map in H. destruct H as [[zs zt] [Hzi H]].
    simpl fst in H. destruct (Z.eqb_spec zs s) as [->|Hne]; [|contradiction].
    apply filter_In in H. destruct H as [He Hin]. unfold step_in in Hin.
    apply andb_true_iff in Hin. destruct Hin as [H1 H2].
    apply Z.leb_le in H1. apply Z.leb_le in H2. simpl in H1, H2.
    split; [assumption|]. exists s, zt. auto.
  - intros [He [s [thru [Hs [Hzi [H1 H2]]]]]]. exists s. split; [assumption|].
    apply in_flat_map. exists (s, thru). split; [assumption|].
    simpl fst. rewrite Z.eqb_refl. apply filter_In. split; [assumption|].
    unfold step_in. simpl. apply andb_true_iff. split; now apply Z.leb_le.
Qed.

Lemma NoDup_app_intro :
  forall {A} (l1 l2 : list A), NoDup l1 -> NoDup l2 -> (forall x, In x l1 -> ~ In x l2) ->
    NoDup (l1 ++ l2).
Proof.
  induction l1 as [|a l1 IH]; intros l2 H1 H2 Hd; simpl; [assumption|].
  inversion H1 as [|? ? Ha H1']; subst. constructor.
  - intros Hin. apply in_app_or in Hin. destruct Hin as [Hin|Hin]; [contradiction|].
    exact (Hd a (or_introl eq_refl) Hin).
  - apply IH; try assumption. intros x Hx. apply Hd. now right.
Qed.

Lemma NoDup_flat_map_disjoint :
  forall {A B} (f : A -> list B) (l : list A),
    NoDup l -> (forall x, In x l -> NoDup (f x)) ->
    (forall x y z, In x l -> In y l -> x <> y -> In z (f x) -> In z (f y) -> False) ->
    NoDup (flat_map f l).
Proof.
  induction l as [|a l IH]; intros Hl Hf Hd; simpl; [constructor|].
  inversion Hl as [|? ? Ha Hl']; subst.
  apply NoDup_app_intro.
  - apply Hf. now left.
  - apply IH; try assumption.
    + intros x Hx. apply Hf. now right.
    + intros x y z Hx Hy. apply Hd; now right.
  - intros z Hz Hin. apply in_flat_map in Hin. destruct Hin as [y [Hy Hzy]].
    apply (Hd a y z); try assumption; [now left|now right|].
    intros E. subst y. contradiction.
Qed.

(** Each step is counted once: distinct rows in the three tables (primary
    keys) and zeta intervals that share no step (they are disjoint runs of
    the record). *)
Theorem et_selected_NoDup :
  forall {F : Type} (db : tables (F:=F)),
    NoDup (rec_starts db) -> NoDup (zeta_ivs db) -> NoDup (et_steps db) ->
    (forall zi zi' (e : Z * Z * F), In zi (zeta_ivs db) -> In zi' (zeta_ivs db) -> zi <> zi' ->
       step_in zi e = true -> step_in zi' e = true -> False) ->
    NoDup (et_selected db).
Proof.
  intros F db Hr Hz He Hdis. unfold et_selected.
  apply NoDup_flat_map_disjoint; [assumption| |].
  - intros s _. apply NoDup_flat_map_disjoint; [assumption| |].
    + intros zi _. destruct (fst zi =? s)%Z; [|constructor]. now apply NoDup_filter.
    + intros zi zi' e Hzi Hzi' Hne H1 H2.
      destruct (fst zi =? s)%Z; [|contradiction]. destruct (fst zi' =? s)%Z; [|contradiction].
      apply filter_In in H1. apply filter_In in H2.
      exact (Hdis zi zi' e Hzi Hzi' Hne (proj2 H1) (proj2 H2)).
  - intros s s' e _ _ Hne H1 H2.
    apply in_flat_map in H1. destruct H1 as [zi [Hzi H1]].
    apply in_flat_map in H2. destruct H2 as [zi' [Hzi' H2]].
    destruct (Z.eqb_spec (fst zi) s) as [E1|]; [|contradiction].
    destruct (Z.eqb_spec (fst zi') s') as [E2|]; [|contradiction].
    apply filter_In in H1. apply filter_In in H2.
    apply (Hdis zi zi' e Hzi Hzi'); [|exact (proj2 H1)|exact (proj2 H2)].
    intros E. subst zi'. congruence.
Qed.

Lemma Ok_inj : forall {A} (a b : A), Ok a = Ok b -> a = b.
Proof. intros A a b H. congruence. Qed.

Lemma INR_24 : INR 24 = 24.
Proof. rewrite INR_IZR_INZ. reflexivity. Qed.
Lemma INR_10 : INR 10 = 10.
Proof. rewrite INR_IZR_INZ. reflexivity. Qed.
Lemma INR_1000 : INR 1000 = 1000.
Proof. rewrite INR_IZR_INZ. reflexivity. Qed.
Lemma INR_3600_24 : INR 3600 * INR 24 = 86400.
Proof. rewrite !INR_IZR_INZ. rewrite <- mult_IZR. reflexivity. Qed.

(** The value: 24 x (sum over the selected rows / their number), refused
    when there is no row (avg is NULL) or when negative. *)
Theorem et_mm_d_value :
  forall (db : tables (F:=R)) e, et_mm_d Rops db = Ok e ->
    let vs := map snd (et_selected db) in
    vs <> [] /\ e = 24 * (fsum Rops vs / INR (length vs)) /\ 0 <= e.
Proof.
  intros db e H vs. unfold et_mm_d in H. fold vs in H.
  destruct vs as [|v0 vt] eqn:Ev; [discriminate|].
  cbv zeta in H. change (fltb Rops) with Rltb in H. unfold Rltb in H.
  change (f0 Rops) with 0 in H.
  destruct (Rlt_dec _ 0) as [Hneg|Hpos]; [discriminate|].
  apply Ok_inj in H. subst e. split; [discriminate|].
  unfold fmean. change (fofnat Rops 24) with (INR 24). rewrite INR_24.
  change (fdiv Rops) with Rdiv. change (fmul Rops) with Rmult.
  change (fofnat Rops (length (v0 :: vt))) with (INR (length (v0 :: vt))).
  split; [ring|].
  unfold fmean in Hpos. change (fofnat Rops 24) with (INR 24) in Hpos. rewrite INR_24 in Hpos.
  change (fdiv Rops) with Rdiv in Hpos. change (fmul Rops) with Rmult in Hpos.
  change (fofnat Rops (length (v0 :: vt))) with (INR (length (v0 :: vt))) in Hpos.
  lra.
Qed.

Theorem et_mm_d_no_row :
  forall (db : tables (F:=R)), et_selected db = [] -> et_mm_d Rops db = Err EType.
Proof. intros db H. unfold et_mm_d. now rewrite H. Qed.

(** Duration of a step, s. *)
Definition step_duration (e : Z * Z * R) : R := IZR (snd (fst e) - fst (fst e)).

Lemma fsum_nil : fsum Rops [] = 0.
Proof. reflexivity. Qed.

Lemma fsum_uniform :
  forall (l : list (Z * Z * R)) d, (forall s, In s l -> step_duration s = d) ->
    fsum Rops (map (fun s => snd s * step_duration s) l) = d * fsum Rops (map snd l) /\
    fsum Rops (map step_duration l) = INR (length l) * d.
Proof.
  induction l as [|x l IH]; intros d Hd.
  - simpl map. rewrite !fsum_nil. simpl. split; ring.
  - destruct (IH d (fun s Hs => Hd s (or_intror Hs))) as [E1 E2].
    change (map (fun s => snd s * step_duration s) (x :: l))
      with (snd x * step_duration x :: map (fun s => snd s * step_duration s) l).
    change (map snd (x :: l)) with (snd x :: map snd l).
    change (map step_duration (x :: l)) with (step_duration x :: map step_duration l).
    rewrite !fsum_cons, E1, E2, (Hd x (or_introl eq_refl)).
    change (length (x :: l)) with (S (length l)). rewrite S_INR. split; ring.
Qed.

(** Time steps are uniform (one time grid): the average over rows IS the
    time-weighted average rate over the selected steps, in mm/d. *)
Theorem et_is_time_average :
  forall (db : tables (F:=R)) e d, et_mm_d Rops db = Ok e -> 0 < d ->
    (forall s, In s (et_selected db) -> step_duration s = d) ->
    e = 24 * (fsum Rops (map (fun s => snd s * step_duration s) (et_selected db))
              / fsum Rops (map step_duration (et_selected db))).
Proof.
  intros db e d H Hd Hu.
  destruct (et_mm_d_value db e H) as [Hne [He _]].
  destruct (fsum_uniform (et_selected db) d Hu) as [E1 E2].
  rewrite E1, E2, He. rewrite map_length.
  assert (Hn : INR (length (et_selected db)) <> 0).
  { apply not_0_INR. intros E0. apply Hne. apply length_zero_iff_nil in E0. now rewrite E0. }
  field. split; lra.
Qed.

(** ---- 4. the rows of the command *)

Lemma StronglySorted_snoc :
  forall (Rel : R -> R -> Prop) l a, StronglySorted Rel l -> Forall (fun x => Rel x a) l ->
    StronglySorted Rel (l ++ [a]).
Proof.
  induction l as [|x l IH]; intros a Hs Hf; simpl.
  - repeat constructor.
  - inversion Hs as [|? ? Hs' Hx]; subst. inversion Hf as [|? ? Hxa Hf']; subst.
    constructor; [now apply IH|].
    apply Forall_app. split; [assumption|]. now constructor.
Qed.

Lemma StronglySorted_rev_ge :
  forall l, StronglySorted Rle l -> StronglySorted (fun a b => b <= a) (rev l).
Proof.
  induction l as [|x l IH]; intros Hs; simpl; [constructor|].
  inversion Hs as [|? ? Hs' Hx]; subst.
  apply StronglySorted_snoc; [now apply IH|].
  rewrite Forall_forall in *. intros y Hy. apply Hx. now apply in_rev.
Qed.

Lemma by_level_sorted_levels :
  forall l : list (R * R), Sorted by_level l -> StronglySorted Rle (map fst l).
Proof.
  intros l Hs.
  apply Sorted_StronglySorted; [intros a b c; apply Rle_trans|].
  induction Hs as [|a l Hs IH Hhd]; simpl; constructor; [assumption|].
  destruct Hhd as [|b l Hab]; simpl; constructor. exact Hab.
Qed.

Lemma zip3_length_min :
  forall a b c : list R, length b = length a -> length c = length a ->
    length (zip3 a b c) = length a.
Proof.
  induction a as [|x a IH]; intros b c Hb Hc; destruct b; destruct c; simpl in *;
    try discriminate; auto.
Qed.

Lemma master_rows_R :
  forall (db : tables (F:=R)) rows, master_rows Rops db = Ok rows ->
    rows = map (fun r => (fst r / 10, snd r / 86400)) (sort_rows Rops (master db)).
Proof.
  intros db rows H. unfold master_rows in H.
  destruct (sort_rows Rops (master db)) as [|r0 rest]; [discriminate|].
  apply Ok_inj in H. subst rows. apply map_ext. intros r.
  change (fdiv Rops) with Rdiv. change (fmul Rops) with Rmult.
  change (fofnat Rops 3600) with (INR 3600). change (fofnat Rops 24) with (INR 24).
  change (fofnat Rops 10) with (INR 10).
  now rewrite INR_10, INR_3600_24.
Qed.

Lemma bind_ok : forall {A B} (a : A) (f : A -> res B), bind (Ok a) f = f a.
Proof. reflexivity. Qed.

(** The table written by `spowtd simulate recession`. *)
Theorem simulate_recession_R_rows :
  forall quad Sy T peat (db : tables (F:=R)) rows,
    simulate_recession_R quad Sy T peat db = Ok rows ->
    let sorted := sort_rows Rops (master db) in
    let zeta_cm := map (fun r => fst r / 10) sorted in
    let levels := map fst sorted in
    let measured := map (fun r => snd r / 86400) sorted in
    exists c et sim,
      curvature_row db = Ok c /\ et_mm_d Rops db = Ok et /\
      Permutation (master db) sorted /\
      recession_curve quad Sy (T_m2_d peat T) levels (fmean Rops measured) (c / 1000) et = Ok sim /\
      rows = rev (zip3 levels measured sim) /\
      (* the level column is 10 x the centimetre value, i.e. millimetres ... *)
      map (fun r => fst (fst r)) rows = rev (map (fun zc => zc * 10) zeta_cm) /\
      map (fun r => fst (fst r)) rows = rev levels /\
      (* ... from the highest to the lowest *)
      StronglySorted (fun a b => b <= a) (map (fun r => fst (fst r)) rows) /\
      map (fun r => snd (fst r)) rows = rev measured /\
      map snd rows = rev sim /\
      simulate_recession_observations Rops
        (recession_curve quad Sy (T_m2_d peat T)) db = Ok (map snd rows).
Proof.
  intros quad Sy T peat db rows H sorted zeta_cm levels measured.
  unfold simulate_recession_R, simulate_recession in H.
  unfold simulate_recession_observations.
  unfold sim_args in *.
  destruct (curvature_row db) as [c|e] eqn:Ec; [|discriminate].
  rewrite bind_ok in *.
  destruct (master_rows Rops db) as [mr|e] eqn:Em; [|discriminate].
  rewrite bind_ok in *.
  apply master_rows_R in Em. fold sorted in Em.
  destruct (et_mm_d Rops db) as [et|e] eqn:Ee; [|discriminate].
  rewrite !bind_ok in *.
  assert (Ecm : map fst mr = zeta_cm).
  { subst mr. rewrite map_map. reflexivity. }
  assert (Emeas : map snd mr = measured).
  { subst mr. rewrite map_map. reflexivity. }
  rewrite Ecm, Emeas in *.
  assert (Elev : map (fun z => fmul Rops z (fofnat Rops 10)) zeta_cm = levels).
  { unfold zeta_cm, levels. rewrite map_map. apply map_ext. intros r.
    change (fmul Rops) with Rmult. change (fofnat Rops 10) with (INR 10). rewrite INR_10.
    field. }
  assert (Ekap : fdiv Rops c (fofnat Rops 1000) = c / 1000).
  { change (fdiv Rops) with Rdiv. change (fofnat Rops 1000) with (INR 1000). now rewrite INR_1000. }
  unfold recession_rows in H.
  rewrite Elev, Ekap in *.
  destruct (recession_curve quad Sy (T_m2_d peat T) levels (fmean Rops measured) (c / 1000) et)
    as [sim|e] eqn:Esim; [|discriminate].
  rewrite bind_ok in *.
  apply Ok_inj in H. subst rows.
  exists c, et, sim.
  assert (Lsim : length sim = length levels).
  { unfold recession_curve, recession_curve_gen in Esim.
    destruct (fltb Rops et (f0 Rops)); [discriminate|].
    destruct (fltb Rops (c / 1000) (f0 Rops)); [discriminate|].
    exact (curve_length _ _ _ _ Esim). }
  assert (Lmeas : length measured = length levels).
  { unfold measured, levels. now rewrite !map_length. }
  destruct (zip3_spec levels measured sim Lmeas Lsim) as [P1 [P2 P3]].
  rewrite !map_rev, P1, P2, P3.
  split; [reflexivity|]. split; [reflexivity|].
  split; [apply sort_rows_perm|].
  split; [exact Esim|].
  split; [reflexivity|].
  split.
  { f_equal. unfold zeta_cm, levels. rewrite map_map. apply map_ext. intros r. field. }
  split; [reflexivity|].
  split.
  { apply StronglySorted_rev_ge. unfold levels. apply by_level_sorted_levels.
    apply sort_rows_sorted. }
  split; [reflexivity|]. split; reflexivity.
Qed.

Theorem simulate_recession_no_curvature :
  forall quad Sy T peat (db : tables (F:=R)),
    curvature db = [] -> simulate_recession_R quad Sy T peat db = Err EValue.
Proof.
  intros quad Sy T peat db H. unfold simulate_recession_R, simulate_recession, sim_args, curvature_row.
  now rewrite H.
Qed.

(** ---- the statements under the property's own sign hypotheses *)
Section Signs.
  Variables Sy T : R -> R.
  Variables lo hi ET kappa : R.
  Hypothesis Sy_cont : forall z, lo <= z <= hi -> continuous Sy z.
  Hypothesis T_cont : forall z, lo <= z <= hi -> continuous T z.
  Hypothesis T_pos : forall z, lo <= z <= hi -> 0 < T z.
  Hypothesis ET_nonneg : 0 <= ET.
  Hypothesis kappa_nonneg : 0 <= kappa.
  Hypothesis not_both_zero : 0 < ET \/ 0 < kappa.
  Variable quad : (R -> R) -> R -> R -> R.
  Hypothesis quad_spec : forall a b, lo <= a <= hi -> lo <= b <= hi ->
    quad (integrand Sy T ET kappa) a b = RInt (integrand Sy T ET kappa) a b.

  Let dn : forall z, lo <= z <= hi -> - ET - kappa * T z < 0 :=
    den_neg_of_signs T ET kappa (fun z => lo <= z <= hi) ET_nonneg kappa_nonneg not_both_zero T_pos.

  Theorem signs_diff :
    forall grid m t, Forall (fun z => lo <= z <= hi) grid ->
      recession_curve quad Sy T grid m kappa ET = Ok t ->
      forall i j d, (i < length grid)%nat -> (j < length grid)%nat ->
        nth j t d - nth i t d = RInt (integrand Sy T ET kappa) (nth i grid d) (nth j grid d).
  Proof. exact (recession_diff Sy T lo hi ET kappa Sy_cont T_cont dn quad quad_spec). Qed.

  Theorem signs_refine :
    forall grid1 grid2 m1 m2 t1 t2,
      Forall (fun z => lo <= z <= hi) grid1 -> Forall (fun z => lo <= z <= hi) grid2 ->
      recession_curve quad Sy T grid1 m1 kappa ET = Ok t1 ->
      recession_curve quad Sy T grid2 m2 kappa ET = Ok t2 ->
      forall i j i' j' d,
        (i < length grid1)%nat -> (j < length grid1)%nat ->
        (i' < length grid2)%nat -> (j' < length grid2)%nat ->
        nth i grid1 d = nth i' grid2 d -> nth j grid1 d = nth j' grid2 d ->
        nth j t1 d - nth i t1 d = nth j' t2 d - nth i' t2 d.
  Proof. exact (recession_shared_levels Sy T lo hi ET kappa Sy_cont T_cont dn quad quad_spec). Qed.

  Theorem signs_common_shift :
    forall grid1 grid2 m1 m2 t1 t2,
      Forall (fun z => lo <= z <= hi) grid1 -> Forall (fun z => lo <= z <= hi) grid2 ->
      recession_curve quad Sy T grid1 m1 kappa ET = Ok t1 ->
      recession_curve quad Sy T grid2 m2 kappa ET = Ok t2 ->
      exists c, forall i i' d,
        (i < length grid1)%nat -> (i' < length grid2)%nat ->
        nth i grid1 d = nth i' grid2 d ->
        nth i' t2 d = nth i t1 d + c.
  Proof. exact (recession_common_shift Sy T lo hi ET kappa Sy_cont T_cont dn quad quad_spec). Qed.

  Theorem signs_reverse :
    forall grid m1 m2 t1 t2,
      Forall (fun z => lo <= z <= hi) grid ->
      recession_curve quad Sy T grid m1 kappa ET = Ok t1 ->
      recession_curve quad Sy T (rev grid) m2 kappa ET = Ok t2 ->
      forall i j d, (i < length grid)%nat -> (j < length grid)%nat ->
        nth (length grid - 1 - j) t2 d - nth (length grid - 1 - i) t2 d
        = nth j t1 d - nth i t1 d.
  Proof. exact (recession_reverse Sy T lo hi ET kappa Sy_cont T_cont dn quad quad_spec). Qed.

  Theorem signs_time_increases_downward :
    (forall z, lo <= z <= hi -> 0 < Sy z) ->
    forall grid m t, Forall (fun z => lo <= z <= hi) grid ->
      recession_curve quad Sy T grid m kappa ET = Ok t ->
      forall i j d, (i < length grid)%nat -> (j < length grid)%nat ->
        nth j grid d < nth i grid d -> nth i t d < nth j t d.
  Proof.
    exact (recession_time_increases_downward Sy T lo hi ET kappa Sy_cont T_cont dn quad quad_spec).
  Qed.

  Theorem signs_cell_split :
    forall pts p, lo <= p <= hi -> Forall (fun z => lo <= z <= hi) pts ->
      piece_sum quad_ideal (integrand Sy T ET kappa) p pts
      = RInt (integrand Sy T ET kappa) p (last pts p).
  Proof. exact (piece_sum_RInt Sy T lo hi ET kappa Sy_cont T_cont dn). Qed.
End Signs.

(** The mean needs no hypothesis at all. *)
Theorem recession_mean_any :
  forall quad Sy T grid m kappa ET t,
    recession_curve quad Sy T grid m kappa ET = Ok t -> fmean Rops t = m.
Proof.
  intros quad Sy T grid m kappa ET t H.
  unfold recession_curve, recession_curve_gen in H.
  destruct (fltb Rops ET (f0 Rops)); [discriminate|].
  destruct (fltb Rops kappa (f0 Rops)); [discriminate|].
  exact (curve_mean _ grid m t H).
Qed.

(** What the function refuses. *)
Theorem recession_refusals :
  forall quad Sy T grid m kappa ET,
    (ET < 0 -> recession_curve quad Sy T grid m kappa ET = Err EAssert) /\
    (0 <= ET -> kappa < 0 -> recession_curve quad Sy T grid m kappa ET = Err EAssert) /\
    (0 <= ET -> 0 <= kappa -> grid = [] -> recession_curve quad Sy T grid m kappa ET = Err EIndex) /\
    (0 <= ET -> 0 <= kappa -> grid <> [] ->
     exists t, recession_curve quad Sy T grid m kappa ET = Ok t).
Proof.
  intros quad Sy T grid m kappa ET.
  unfold recession_curve, recession_curve_gen.
  change (fltb Rops) with Rltb. unfold Rltb. change (f0 Rops) with 0.
  repeat split.
  - intros H. destruct (Rlt_dec ET 0); [reflexivity|lra].
  - intros H1 H2. destruct (Rlt_dec ET 0); [lra|]. destruct (Rlt_dec kappa 0); [reflexivity|lra].
  - intros H1 H2 ->. destruct (Rlt_dec ET 0); [lra|]. destruct (Rlt_dec kappa 0); [lra|reflexivity].
  - intros H1 H2 Hne. destruct (Rlt_dec ET 0); [lra|]. destruct (Rlt_dec kappa 0); [lra|].
    destruct grid as [|z0 t]; [congruence|]. eexists. reflexivity.
Qed.
