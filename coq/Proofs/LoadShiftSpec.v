(** `spowtd load` does not depend on the time origin (C07, model of load).

    Adding the same integer d (ANY integer, not only a multiple of the time
    step) to the epoch of every row of the three input series commutes with
    the model of load: the result is the same [res] - the same error kind
    when load refuses - and, when load accepts, every stored epoch (grid
    instants, from/thru of the rainfall and ET rows, water-level epochs, the
    three staging tables) is moved by d while the step, the zone name, the
    data-interval labels and every value are unchanged.  The interpolated
    water levels are EQUAL (Leibniz equality on Q, not only Qeq): [lerp] only
    uses differences of epochs, and (b + d) - (a + d) and b - a are the same
    integer.

    The totalised defaults of the model ([hd 0], [last _ 0], [nth _ _ 0]) are
    not shift equivariant on an empty grid; the proof shows that they are never
    reached there: populate_grid_time either refuses or returns a non-empty
    grid. *)
From Spowtd Require Import Model.Load Model.ClassifyCommand Proofs.ClassifyCommandSpec
  Proofs.LoadClassifyLink Model.LoadText Proofs.TimeZoneSpec.
From Coq Require Import Lia QArith PrimFloat.
Local Open Scope Z_scope.

(** * The shift *)

Definition map_res {A B} (f : A -> B) (x : res A) : res B :=
  match x with Ok a => Ok (f a) | Err e => Err e end.

Definition sh (d t : Z) : Z := t + d.
Definition shift_row (d : Z) (r : row) : row := (fst r + d, snd r).
Definition shift_series (d : Z) (l : list row) : list row := map (shift_row d) l.
Definition shift_step_row (d : Z) (r : step_row) : step_row :=
  (fst (fst r) + d, snd (fst r) + d, snd r).
Definition shift_grid_row (d : Z) (p : Z * option Z) : Z * option Z := (fst p + d, snd p).

Definition shift_loaded (d : Z) (L : loaded) : loaded :=
  {| ld_step := ld_step L;
     ld_tz := ld_tz L;
     ld_grid := map (shift_grid_row d) (ld_grid L);
     ld_rain := map (shift_step_row d) (ld_rain L);
     ld_et := map (shift_step_row d) (ld_et L);
     ld_wl := shift_series d (ld_wl L);
     ld_rain_staging := shift_series d (ld_rain_staging L);
     ld_et_staging := shift_series d (ld_et_staging L);
     ld_wl_staging := shift_series d (ld_wl_staging L) |}.

(** * Comparisons and lists *)

Lemma ltb_sh d a b : (a + d <? b + d) = (a <? b).
Proof. destruct (Z.ltb_spec (a + d) (b + d)), (Z.ltb_spec a b); try reflexivity; lia. Qed.
Lemma leb_sh d a b : (a + d <=? b + d) = (a <=? b).
Proof. destruct (Z.leb_spec (a + d) (b + d)), (Z.leb_spec a b); try reflexivity; lia. Qed.
Lemma eqb_sh d a b : (a + d =? b + d) = (a =? b).
Proof. destruct (Z.eqb_spec (a + d) (b + d)), (Z.eqb_spec a b); try reflexivity; lia. Qed.

Lemma ls_filter_map {A B} (f : B -> bool) (g : A -> B) l :
  filter f (map g l) = map g (filter (fun x => f (g x)) l).
Proof.
  induction l as [|a l IH]; simpl; [reflexivity|]. destruct (f (g a)); simpl; rewrite IH; reflexivity.
Qed.

Lemma ls_filter_ext {A} (f g : A -> bool) l : (forall x, f x = g x) -> filter f l = filter g l.
Proof.
  intros H. induction l as [|a l IH]; simpl; [reflexivity|]. rewrite H, IH. reflexivity.
Qed.

Lemma ls_map_filter_ext {A B} (F G : A -> B) (f g : A -> bool) l :
  (forall x, f x = g x) -> (forall x, F x = G x) -> map F (filter f l) = map G (filter g l).
Proof. intros H1 H2. rewrite (ls_filter_ext f g l H1). apply map_ext. exact H2. Qed.

Lemma ls_forallb_map {A B} (f : B -> bool) (g : A -> B) l :
  forallb f (map g l) = forallb (fun x => f (g x)) l.
Proof. induction l as [|a l IH]; simpl; [reflexivity|]. rewrite IH. reflexivity. Qed.

Lemma ls_forallb_ext {A} (f g : A -> bool) l : (forall x, f x = g x) -> forallb f l = forallb g l.
Proof.
  intros H. induction l as [|a l IH]; simpl; [reflexivity|]. rewrite H, IH. reflexivity.
Qed.

Lemma ls_last_map {A B} (f : A -> B) l x y : l <> [] -> last (map f l) y = f (last l x).
Proof.
  induction l as [|a l IH]; intros H; [contradiction|]. destruct l as [|b t]; [reflexivity|].
  change (last (map f (a :: b :: t)) y) with (last (map f (b :: t)) y).
  change (last (a :: b :: t) x) with (last (b :: t) x). apply IH. discriminate.
Qed.

Lemma ls_removelast_map {A B} (f : A -> B) l : removelast (map f l) = map f (removelast l).
Proof.
  induction l as [|a l IH]; [reflexivity|]. destruct l as [|b t]; [reflexivity|].
  change (removelast (map f (a :: b :: t))) with (f a :: removelast (map f (b :: t))).
  change (removelast (a :: b :: t)) with (a :: removelast (b :: t)).
  rewrite IH. reflexivity.
Qed.

Lemma ls_select_map {A B} (f : A -> B) m : forall l, select m (map f l) = map f (select m l).
Proof.
  induction m as [|b m IH]; intros [|x l]; simpl; try reflexivity.
  rewrite IH. destruct b; reflexivity.
Qed.

Lemma ls_combine_map_l {A A' B} (f : A -> A') (l : list A) (m : list B) :
  combine (map f l) m = map (fun p => (f (fst p), snd p)) (combine l m).
Proof.
  revert m. induction l as [|a t IH]; intros [|b m]; simpl; try reflexivity. rewrite IH. reflexivity.
Qed.

Lemma ls_adjacent_pairs_map {A B} (f : A -> B) l :
  adjacent_pairs (map f l) = map (fun p => (f (fst p), f (snd p))) (adjacent_pairs l).
Proof.
  induction l as [|a l IH]; [reflexivity|]. destruct l as [|b t]; [reflexivity|].
  change (adjacent_pairs (a :: b :: t)) with ((a, b) :: adjacent_pairs (b :: t)).
  change (adjacent_pairs (map f (a :: b :: t))) with ((f a, f b) :: adjacent_pairs (map f (b :: t))).
  rewrite IH. reflexivity.
Qed.

Lemma keys_shift d l : map fst (shift_series d l) = map (sh d) (map fst l).
Proof. unfold shift_series. rewrite !map_map. reflexivity. Qed.

(** * Staging *)

Lemma ins_row_shift d r l :
  ins_row (shift_row d r) (shift_series d l) = map_res (shift_series d) (ins_row r l).
Proof.
  induction l as [|h t IH]; [reflexivity|].
  change (shift_series d (h :: t)) with (shift_row d h :: shift_series d t).
  cbn [ins_row].
  change (fst (shift_row d r)) with (fst r + d). change (fst (shift_row d h)) with (fst h + d).
  rewrite ltb_sh, eqb_sh. destruct (fst r <? fst h); [reflexivity|].
  destruct (fst r =? fst h); [reflexivity|].
  rewrite IH. destruct (ins_row r t); reflexivity.
Qed.

Lemma stage_from_shift d rows : forall acc,
  stage_from (shift_series d acc) (shift_series d rows) = map_res (shift_series d) (stage_from acc rows).
Proof.
  induction rows as [|r rest IH]; intros acc; [reflexivity|].
  change (shift_series d (r :: rest)) with (shift_row d r :: shift_series d rest).
  cbn [stage_from]. rewrite ins_row_shift. destruct (ins_row r acc) as [acc'|e]; [|reflexivity].
  cbn [map_res bind]. apply IH.
Qed.

Lemma stage_shift d rows : stage (shift_series d rows) = map_res (shift_series d) (stage rows).
Proof. exact (stage_from_shift d rows []). Qed.

(** * The grid *)

Lemma zmin_l_shift d l : forall a, zmin_l (a + d) (map (sh d) l) = zmin_l a l + d.
Proof.
  induction l as [|b t IH]; intros a; [reflexivity|]. cbn [map zmin_l]. rewrite <- IH.
  f_equal. unfold sh. lia.
Qed.

Lemma zmax_l_shift d l : forall a, zmax_l (a + d) (map (sh d) l) = zmax_l a l + d.
Proof.
  induction l as [|b t IH]; intros a; [reflexivity|]. cbn [map zmax_l]. rewrite <- IH.
  f_equal. unfold sh. lia.
Qed.

Lemma wl_span_shift d wl_t :
  wl_span (shift_series d wl_t) = option_map (fun p => (fst p + d, snd p + d)) (wl_span wl_t).
Proof.
  unfold wl_span. rewrite keys_shift. destruct (map fst wl_t) as [|a t]; [reflexivity|].
  cbn [map option_map fst snd]. unfold sh at 1 3. rewrite zmin_l_shift, zmax_l_shift. reflexivity.
Qed.

Lemma grid_rain_epochs_shift d rain_t wl_t :
  grid_rain_epochs (shift_series d rain_t) (shift_series d wl_t)
  = map (sh d) (grid_rain_epochs rain_t wl_t).
Proof.
  unfold grid_rain_epochs. rewrite wl_span_shift. destruct (wl_span wl_t) as [[lo hi]|]; [|reflexivity].
  cbn [option_map fst snd]. rewrite keys_shift, ls_filter_map. f_equal. apply ls_filter_ext.
  intros x. unfold sh. rewrite !leb_sh. reflexivity.
Qed.

Lemma diffs_shift d l : diffs (map (sh d) l) = diffs l.
Proof.
  induction l as [|a l IH]; [reflexivity|]. destruct l as [|b t]; [reflexivity|].
  change (diffs (a :: b :: t)) with ((b - a) :: diffs (b :: t)).
  change (diffs (map (sh d) (a :: b :: t))) with ((sh d b - sh d a) :: diffs (map (sh d) (b :: t))).
  rewrite IH. f_equal. unfold sh. lia.
Qed.

Lemma uniform_step_shift d g : uniform_step (map (sh d) g) = uniform_step g.
Proof. unfold uniform_step. rewrite diffs_shift. reflexivity. Qed.

Lemma last_Z_shift d l : l <> [] -> last_Z (map (sh d) l) = last_Z l + d.
Proof. intros H. unfold last_Z. rewrite (ls_last_map (sh d) l 0 0 H). reflexivity. Qed.

Lemma hd_shift d l : l <> [] -> hd 0 (map (sh d) l) = hd 0 l + d.
Proof. destruct l; [contradiction|reflexivity]. Qed.

Definition shift_grid (d : Z) (gs : list Z * Z) : list Z * Z := (map (sh d) (fst gs), snd gs).

Lemma populate_grid_time_shift d rain_t wl_t :
  populate_grid_time (shift_series d rain_t) (shift_series d wl_t)
  = map_res (shift_grid d) (populate_grid_time rain_t wl_t).
Proof.
  unfold populate_grid_time. rewrite grid_rain_epochs_shift, uniform_step_shift.
  set (g := grid_rain_epochs rain_t wl_t).
  destruct (uniform_step g) as [step|e] eqn:E; [|reflexivity].
  assert (Hg : g <> []) by (intros ->; discriminate E).
  cbn [bind map_res]. unfold shift_grid. cbn [fst snd]. rewrite map_app, last_Z_shift by assumption.
  cbn [map]. change (sh d (last_Z g + step)) with (last_Z g + step + d).
  replace (last_Z g + d + step) with (last_Z g + step + d) by lia. reflexivity.
Qed.

Lemma populate_grid_time_nonempty rain_t wl_t tg step :
  populate_grid_time rain_t wl_t = Ok (tg, step) -> tg <> [].
Proof.
  unfold populate_grid_time. destruct (uniform_step _); [|discriminate]. cbn [bind].
  intros H. inversion H. intros E. apply app_eq_nil in E. destruct E as [_ E]. discriminate E.
Qed.

(** * Rainfall and ET on the grid *)

Lemma mem_Z_shift d x l : mem_Z (x + d) (map (sh d) l) = mem_Z x l.
Proof.
  induction l as [|a l IH]; [reflexivity|]. cbn [map mem_Z]. unfold sh at 1. rewrite eqb_sh, IH. reflexivity.
Qed.

Lemma nth_shift d i l : (i < length l)%nat -> nth i (map (sh d) l) 0 = nth i l 0 + d.
Proof.
  intros H. rewrite (nth_indep (map (sh d) l) 0 (sh d 0)) by (rewrite map_length; exact H).
  rewrite map_nth. reflexivity.
Qed.

Lemma regrid_select_shift d staged tg step : tg <> [] ->
  regrid_select (shift_series d staged) (map (sh d) tg) step
  = map (shift_step_row d) (regrid_select staged tg step).
Proof.
  intros H. unfold regrid_select. rewrite map_length.
  rewrite nth_shift by (destruct tg; [contradiction|cbn [length]; lia]).
  unfold shift_series. rewrite ls_filter_map, !map_map.
  apply ls_map_filter_ext.
  - intros r. unfold shift_row. cbn [fst]. rewrite mem_Z_shift, leb_sh. reflexivity.
  - intros r. unfold shift_step_row, shift_row. cbn [fst snd]. do 2 f_equal. lia.
Qed.

Lemma step_row_ok_shift d tg r :
  step_row_ok (map (sh d) tg) (shift_step_row d r) = step_row_ok tg r.
Proof.
  destruct r as [[f t] v]. unfold step_row_ok, shift_step_row. cbn [fst snd].
  rewrite ltb_sh, !mem_Z_shift. reflexivity.
Qed.

Lemma regrid_shift d staged tg step : tg <> [] ->
  regrid (shift_series d staged) (map (sh d) tg) step
  = map_res (map (shift_step_row d)) (regrid staged tg step).
Proof.
  intros H. unfold regrid. rewrite regrid_select_shift by assumption. rewrite ls_forallb_map.
  rewrite (ls_forallb_ext _ (step_row_ok tg)) by (intros r; apply step_row_ok_shift).
  destruct (forallb _ _); reflexivity.
Qed.

Lemma et_missing_shift d et_t tg :
  et_missing (shift_series d et_t) (map (sh d) tg) = map (sh d) (et_missing et_t tg).
Proof.
  unfold et_missing. rewrite ls_filter_map. f_equal. apply ls_filter_ext. intros e.
  rewrite keys_shift. unfold sh at 1. rewrite mem_Z_shift. reflexivity.
Qed.

Lemma populate_et_shift d et_t tg step : tg <> [] ->
  populate_et (shift_series d et_t) (map (sh d) tg) step
  = map_res (map (shift_step_row d)) (populate_et et_t tg step).
Proof.
  intros H. unfold populate_et. rewrite et_missing_shift.
  destruct (et_missing et_t tg); [apply regrid_shift; assumption|reflexivity].
Qed.

(** * Water level *)

Definition shift_iv (d : Z) (iv : Z * Z * Z) : Z * Z * Z := (fst (fst iv) + d, snd (fst iv) + d, snd iv).
Definition shift_pr (d : Z) (p : Z * Z) : Z * Z := (fst p + d, snd p + d).

Lemma min_step_shift d zt : min_step (map (sh d) zt) = min_step zt.
Proof. unfold min_step. rewrite diffs_shift. reflexivity. Qed.

Lemma wl_gaps_shift d zt mn : wl_gaps (map (sh d) zt) mn = map (shift_pr d) (wl_gaps zt mn).
Proof.
  unfold wl_gaps. rewrite ls_adjacent_pairs_map.
  rewrite (ls_filter_map _ (fun p => (sh d (fst p), sh d (snd p)))).
  unfold shift_pr, sh. f_equal. apply ls_filter_ext. intros p. cbn [fst snd].
  replace (snd p + d - (fst p + d)) with (snd p - fst p) by lia. reflexivity.
Qed.

Lemma boundaries_shift d f l gaps :
  boundaries (f + d) (l + d) (map (shift_pr d) gaps) = map (sh d) (boundaries f l gaps).
Proof.
  unfold boundaries. rewrite !map_app. cbn [map]. f_equal. f_equal.
  induction gaps as [|p t IH]; [reflexivity|]. cbn [map flat_map]. rewrite map_app, IH. reflexivity.
Qed.

Lemma pair_up_shift_aux d l : forall k,
  pair_up (map (sh d) l) k = map (shift_iv d) (pair_up l k) /\
  forall a, pair_up (map (sh d) (a :: l)) k = map (shift_iv d) (pair_up (a :: l) k).
Proof.
  induction l as [|b t IH]; intros k.
  - split; [reflexivity|]. intros a. reflexivity.
  - split; [apply (proj2 (IH k))|]. intros a.
    change (pair_up (a :: b :: t) k) with ((a, b, k) :: pair_up t (k + 1)).
    change (pair_up (map (sh d) (a :: b :: t)) k)
      with ((sh d a, sh d b, k) :: pair_up (map (sh d) t) (k + 1)).
    rewrite (proj1 (IH (k + 1))). reflexivity.
Qed.

Lemma pair_up_shift d l k : pair_up (map (sh d) l) k = map (shift_iv d) (pair_up l k).
Proof. apply pair_up_shift_aux. Qed.

Lemma label_step_shift d t acc iv : label_step (t + d) acc (shift_iv d iv) = label_step t acc iv.
Proof.
  destruct iv as [[s e] k]. unfold label_step, shift_iv. cbn [fst snd]. rewrite !leb_sh. reflexivity.
Qed.

Lemma label_of_shift d ivs t : label_of (map (shift_iv d) ivs) (t + d) = label_of ivs t.
Proof.
  unfold label_of. generalize (@None Z) as acc.
  induction ivs as [|iv r IH]; intros acc; [reflexivity|]. cbn [map fold_left].
  rewrite label_step_shift. apply IH.
Qed.

(** np.interp: the slope and the offset use epoch differences only, so the
    value is the same rational - equal, not merely Qeq. *)
Lemma lerp_shift d a b x : lerp (shift_row d a) (shift_row d b) (x + d) = lerp a b x.
Proof.
  unfold lerp, shift_row. cbn [fst snd].
  replace (fst b + d - (fst a + d)) with (fst b - fst a) by lia.
  replace (x + d - (fst a + d)) with (x - fst a) by lia. reflexivity.
Qed.

Lemma interp_from_shift d rest : forall a x,
  interp_from (shift_row d a) (shift_series d rest) (x + d) = interp_from a rest x.
Proof.
  induction rest as [|b r IH]; intros a x; [reflexivity|].
  change (shift_series d (b :: r)) with (shift_row d b :: shift_series d r).
  cbn [interp_from]. rewrite lerp_shift, IH. unfold shift_row. cbn [fst snd].
  rewrite ltb_sh, eqb_sh. reflexivity.
Qed.

Lemma interp_shift d a rest x :
  interp (shift_row d a) (shift_series d rest) (x + d) = interp a rest x.
Proof.
  unfold interp. rewrite interp_from_shift. unfold shift_row. cbn [fst snd]. rewrite ltb_sh. reflexivity.
Qed.

Definition shift_gw (d : Z) (gw : list (Z * option Z) * list row) : list (Z * option Z) * list row :=
  (map (shift_grid_row d) (fst gw), shift_series d (snd gw)).

Lemma populate_water_level_shift d wl_t tg : tg <> [] ->
  populate_water_level (shift_series d wl_t) (map (sh d) tg)
  = map_res (shift_gw d) (populate_water_level wl_t tg).
Proof.
  intros H. destruct wl_t as [|a rest]; [reflexivity|].
  change (shift_series d (a :: rest)) with (shift_row d a :: shift_series d rest).
  unfold populate_water_level.
  change (shift_row d a :: shift_series d rest) with (shift_series d (a :: rest)).
  rewrite keys_shift, min_step_shift.
  destruct (min_step (map fst (a :: rest))) as [mn|e]; [|reflexivity]. cbn [bind].
  rewrite wl_gaps_shift, hd_shift, last_Z_shift by assumption. rewrite boundaries_shift, map_length.
  destruct (negb (Nat.even (length _))); [reflexivity|].
  rewrite pair_up_shift. set (ivs := pair_up _ 1).
  assert (EL : map (label_of (map (shift_iv d) ivs)) (map (sh d) tg) = map (label_of ivs) tg).
  { rewrite map_map. apply map_ext. intros t. apply label_of_shift. }
  rewrite EL.
  assert (EZ : map (interp (shift_row d a) (shift_series d rest)) (removelast (map (sh d) tg))
               = map (interp a rest) (removelast tg)).
  { rewrite ls_removelast_map, map_map. apply map_ext. intros t. apply interp_shift. }
  rewrite EZ. cbn [map_res]. unfold shift_gw. cbn [fst snd].
  rewrite ls_select_map, !ls_combine_map_l. reflexivity.
Qed.

(** * load *)

Lemma load_staged_shift d tz rain_t et_t wl_t :
  load_staged tz (shift_series d rain_t) (shift_series d et_t) (shift_series d wl_t)
  = map_res (shift_loaded d) (load_staged tz rain_t et_t wl_t).
Proof.
  unfold load_staged. rewrite populate_grid_time_shift.
  destruct (populate_grid_time rain_t wl_t) as [[tg step]|e] eqn:E; [|reflexivity].
  pose proof (populate_grid_time_nonempty _ _ _ _ E) as Hne.
  cbn [map_res bind shift_grid fst snd].
  rewrite regrid_shift by assumption. destruct (regrid rain_t tg step) as [rain_g|e]; [|reflexivity].
  cbn [map_res bind].
  rewrite populate_et_shift by assumption. destruct (populate_et et_t tg step) as [et_g|e]; [|reflexivity].
  cbn [map_res bind].
  rewrite populate_water_level_shift by assumption.
  destruct (populate_water_level wl_t tg) as [gw|e]; [|reflexivity].
  reflexivity.
Qed.

(** Shifting the epoch of every row of the three inputs by the same integer
    commutes with load, refusals included. *)
Theorem load_shift : forall d pop tz rain et wl,
  load_model pop tz (shift_series d rain) (shift_series d et) (shift_series d wl)
  = map_res (shift_loaded d) (load_model pop tz rain et wl).
Proof.
  intros d pop tz rain et wl. unfold load_model. destruct pop; [reflexivity|].
  rewrite !stage_shift.
  destruct (stage rain) as [rain_t|e]; [|reflexivity]. cbn [map_res bind].
  destruct (stage et) as [et_t|e]; [|reflexivity]. cbn [map_res bind].
  destruct (stage wl) as [wl_t|e]; [|reflexivity]. cbn [map_res bind].
  apply load_staged_shift.
Qed.

Corollary load_shift_ok : forall d pop tz rain et wl L,
  load_model pop tz rain et wl = Ok L ->
  load_model pop tz (shift_series d rain) (shift_series d et) (shift_series d wl) = Ok (shift_loaded d L).
Proof. intros d pop tz rain et wl L E. rewrite load_shift, E. reflexivity. Qed.

Corollary load_shift_err : forall d pop tz rain et wl e,
  load_model pop tz rain et wl = Err e ->
  load_model pop tz (shift_series d rain) (shift_series d et) (shift_series d wl) = Err e.
Proof. intros d pop tz rain et wl e E. rewrite load_shift, E. reflexivity. Qed.

(** * load, then classify

    The stretches classify reads from the tables of the shifted load are the
    shifted stretches (same labels, same rainfall and level values, every
    epoch moved by d); with [command_shift] the composition load ; classify is
    shift equivariant end to end in the model.  [fr], [fz] (how a stored REAL
    is read back as a binary64 value) are arbitrary. *)

Definition shift_jr (d : Z) (x : Z * Q * Q) : Z * Q * Q := (fst (fst x) + d, snd (fst x), snd x).

Lemma ls_flat_map_ext {A B} (f g : A -> list B) l : (forall x, f x = g x) -> flat_map f l = flat_map g l.
Proof. intros H. induction l as [|a l IH]; simpl; [reflexivity|]. rewrite H, IH. reflexivity. Qed.

Lemma join_wl_shift d wlt rr :
  join_wl (shift_series d wlt) (shift_step_row d rr) = map (shift_jr d) (join_wl wlt rr).
Proof.
  unfold join_wl, shift_series. rewrite flat_map_map_l, map_flat_map. apply ls_flat_map_ext. intros wr.
  change (fst (shift_row d wr)) with (fst wr + d).
  change (fst (fst (shift_step_row d rr))) with (fst (fst rr) + d).
  rewrite eqb_sh. destruct (fst wr =? fst (fst rr)); reflexivity.
Qed.

Lemma join_rain_shift d raint wlt e :
  join_rain (map (shift_step_row d) raint) (shift_series d wlt) (e + d)
  = map (shift_jr d) (join_rain raint wlt e).
Proof.
  unfold join_rain. rewrite flat_map_map_l, map_flat_map. apply ls_flat_map_ext. intros rr.
  change (fst (fst (shift_step_row d rr))) with (fst (fst rr) + d).
  rewrite eqb_sh. destruct (fst (fst rr) =? e); [apply join_wl_shift|reflexivity].
Qed.

Lemma join_grid_shift d grid raint wlt k :
  join_grid (map (shift_grid_row d) grid) (map (shift_step_row d) raint) (shift_series d wlt) k
  = map (shift_jr d) (join_grid grid raint wlt k).
Proof.
  unfold join_grid. rewrite flat_map_map_l, map_flat_map. apply ls_flat_map_ext. intros gr.
  change (snd (shift_grid_row d gr)) with (snd gr). change (fst (shift_grid_row d gr)) with (fst gr + d).
  destruct (label_is k (snd gr)); [apply join_rain_shift|reflexivity].
Qed.

Lemma labels_of_shift d L : labels_of (shift_loaded d L) = labels_of L.
Proof. unfold labels_of, shift_loaded. cbn [ld_grid]. rewrite flat_map_map_l. reflexivity. Qed.

Lemma join_rows_shift d L k : join_rows (shift_loaded d L) k = map (shift_jr d) (join_rows L k).
Proof. unfold join_rows, shift_loaded. cbn [ld_grid ld_rain ld_wl]. apply join_grid_shift. Qed.

Section Stretches.
Variables fr fz : Q -> float.

Lemma stretch_of_rows_shift d k rows :
  stretch_of_rows fr fz k (map (shift_jr d) rows) = shift_stretch d (stretch_of_rows fr fz k rows).
Proof.
  unfold stretch_of_rows, shift_stretch. cbn [s_label s_epochs s_rain s_zeta]. rewrite !map_map. reflexivity.
Qed.

(** The stretches read from the shifted load are the shifted stretches. *)
Theorem stretches_of_load_shift d L :
  stretches_of_load fr fz (shift_loaded d L) = map (shift_stretch d) (stretches_of_load fr fz L).
Proof.
  unfold stretches_of_load. rewrite labels_of_shift, map_map. apply map_ext. intros k.
  rewrite join_rows_shift. apply stretch_of_rows_shift.
Qed.

(** load, then the classify command on the tables load wrote *)
Definition load_then_classify (pop : bool) (tz : String.string) (rain et wl : list row)
  (thr_s thr_j : float) (scheds : list (list nat)) : res (loaded * command_rows) :=
  bind (load_model pop tz rain et wl) (fun L =>
  bind (classify_command (ld_step L) thr_s thr_j (stretches_of_load fr fz L) scheds) (fun c =>
  Ok (L, c))).

(** Accepted inputs: every table of load and of classify is the shifted one. *)
Theorem load_then_classify_shift : forall d pop tz rain et wl thr_s thr_j scheds L c,
  load_then_classify pop tz rain et wl thr_s thr_j scheds = Ok (L, c) ->
  load_then_classify pop tz (shift_series d rain) (shift_series d et) (shift_series d wl)
    thr_s thr_j scheds = Ok (shift_loaded d L, shift_command d c).
Proof.
  intros d pop tz rain et wl thr_s thr_j scheds L c. unfold load_then_classify.
  rewrite load_shift. destruct (load_model pop tz rain et wl) as [L0|e] eqn:E; [|discriminate].
  cbn [bind map_res].
  destruct (classify_command (ld_step L0) thr_s thr_j (stretches_of_load fr fz L0) scheds) as [c0|e] eqn:Ec;
    [|discriminate].
  cbn [bind]. intros H. inversion H; subst L0 c0. clear H.
  rewrite stretches_of_load_shift. change (ld_step (shift_loaded d L)) with (ld_step L).
  rewrite (command_shift d _ _ _ _ _ c (load_then_classify_structure fr fz _ _ _ _ _ _ E) Ec).
  reflexivity.
Qed.

End Stretches.

(** The shift by -d undoes the shift by d. *)
Lemma shift_series_inv d l : shift_series (- d) (shift_series d l) = l.
Proof.
  unfold shift_series. rewrite map_map. rewrite <- (map_id l) at 2. apply map_ext. intros [t v].
  unfold shift_row. cbn [fst snd]. f_equal. lia.
Qed.

(** Refusals: a refusal stays a refusal; when it is load that refuses, with
    the same error kind ([load_shift]).  (That a refusal of classify keeps its
    kind is not proved: [command_shift] is stated for accepted datasets.) *)
Theorem load_then_classify_shift_refusal : forall fr fz d pop tz rain et wl thr_s thr_j scheds e,
  load_then_classify fr fz pop tz rain et wl thr_s thr_j scheds = Err e ->
  exists e', load_then_classify fr fz pop tz (shift_series d rain) (shift_series d et) (shift_series d wl)
               thr_s thr_j scheds = Err e'.
Proof.
  intros fr fz d pop tz rain et wl thr_s thr_j scheds e H.
  destruct (load_then_classify fr fz pop tz (shift_series d rain) (shift_series d et) (shift_series d wl)
              thr_s thr_j scheds) as [[L' c']|e'] eqn:E'; [|exists e'; reflexivity].
  apply (load_then_classify_shift fr fz (- d)) in E'. rewrite !shift_series_inv in E'.
  rewrite E' in H. discriminate H.
Qed.

(** * The same wall-clock data declared in another fixed-offset zone

    In a zone with a fixed offset every timestamp text is stored as (seconds on
    the zone's clock - offset) ([stamp_fixed], C11).  Hence declaring the same
    files in the zone of offset off2 instead of off1 shifts every input epoch by
    off1 - off2, and by [load_shift] every loaded epoch: same refusals (same
    kind), same step, labels and values; only the recorded zone name differs. *)

Definition with_tz (tz : String.string) (L : loaded) : loaded :=
  {| ld_step := ld_step L; ld_tz := tz; ld_grid := ld_grid L; ld_rain := ld_rain L; ld_et := ld_et L;
     ld_wl := ld_wl L; ld_rain_staging := ld_rain_staging L; ld_et_staging := ld_et_staging L;
     ld_wl_staging := ld_wl_staging L |}.

Lemma load_staged_tz tz tz' rain_t et_t wl_t :
  load_staged tz' rain_t et_t wl_t = map_res (with_tz tz') (load_staged tz rain_t et_t wl_t).
Proof.
  unfold load_staged. destruct (populate_grid_time rain_t wl_t) as [gs|e]; [|reflexivity]. cbn [bind].
  destruct (regrid rain_t (fst gs) (snd gs)) as [rain_g|e]; [|reflexivity]. cbn [bind].
  destruct (populate_et et_t (fst gs) (snd gs)) as [et_g|e]; [|reflexivity]. cbn [bind].
  destruct (populate_water_level wl_t (fst gs)) as [gw|e]; reflexivity.
Qed.

Lemma stamp_fixed_total off dst s :
  stamp (fixed_zone off dst) s
  = match parse_datetime s with Some c => Stamp (local_secs c - off) | None => Refuse end.
Proof.
  destruct (parse_datetime s) as [c|] eqn:P.
  - apply (stamp_fixed off dst s c P).
  - apply stamp_refuse_iff. exact P.
Qed.

Lemma stage_text_from_zone off1 dst1 off2 dst2 rows : forall acc,
  stage_text_from (fixed_zone off2 dst2) (shift_series (off1 - off2) acc) rows
  = map_res (shift_series (off1 - off2)) (stage_text_from (fixed_zone off1 dst1) acc rows).
Proof.
  induction rows as [|[s v] rest IH]; intros acc; [reflexivity|]. cbn [stage_text_from].
  rewrite !stamp_fixed_total. destruct (parse_datetime s) as [c|]; [|reflexivity].
  replace (local_secs c - off2, v) with (shift_row (off1 - off2) (local_secs c - off1, v))
    by (unfold shift_row; cbn [fst snd]; f_equal; lia).
  rewrite ins_row_shift. destruct (ins_row (local_secs c - off1, v) acc) as [acc'|e]; [|reflexivity].
  cbn [map_res bind]. apply IH.
Qed.

Theorem load_text_zone_change : forall off1 dst1 off2 dst2 pop tz1 tz2 rain et wl,
  load_text_model pop tz2 (fixed_zone off2 dst2) rain et wl
  = map_res (fun L => with_tz tz2 (shift_loaded (off1 - off2) L))
      (load_text_model pop tz1 (fixed_zone off1 dst1) rain et wl).
Proof.
  intros off1 dst1 off2 dst2 pop tz1 tz2 rain et wl. unfold load_text_model.
  destruct pop; [reflexivity|]. unfold stage_text.
  change (@nil row) with (shift_series (off1 - off2) []) at 1 2 3.
  rewrite !(stage_text_from_zone off1 dst1 off2 dst2).
  destruct (stage_text_from (fixed_zone off1 dst1) [] rain) as [rain_t|e]; [|reflexivity]. cbn [map_res bind].
  destruct (stage_text_from (fixed_zone off1 dst1) [] et) as [et_t|e]; [|reflexivity]. cbn [map_res bind].
  destruct (stage_text_from (fixed_zone off1 dst1) [] wl) as [wl_t|e]; [|reflexivity]. cbn [map_res bind].
  rewrite (load_staged_tz tz1 tz2), load_staged_shift.
  destruct (load_staged tz1 rain_t et_t wl_t); reflexivity.
Qed.
