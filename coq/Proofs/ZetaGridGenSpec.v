(** The two bounds of the level grid as REGENERATED from the Python source of
    zeta_grid.populate_zeta_grid (Generated/ZetaGridGen.v, written by
    harness/translate.py on every run) are the model's: floor of min/step and
    ceiling of max/step.  A change of the rounding (int() truncation, floor
    division, an off-by-one) makes this file stop compiling. *)
From Spowtd Require Import Model.ZetaGrid Generated.ZetaGridGen.
From Coq Require Import ZArith QArith Qround PrimFloat.

Lemma generated_bounds : forall qlo qhi : Q,
  gen_grid_lo qlo qhi = Qfloor qlo /\ gen_grid_hi qlo qhi = Qceiling qhi.
Proof. intros. split; reflexivity. Qed.

Theorem generated_grid_is_model : forall zmin zmax step : float,
  grid_of_bounds zmin zmax step =
  match float_to_Q (PrimFloat.div zmin step), float_to_Q (PrimFloat.div zmax step) with
  | Some lo, Some hi => Ok (zrange (gen_grid_lo lo hi) (gen_grid_hi lo hi))
  | _, _ => Err EOther
  end.
Proof.
  intros. unfold grid_of_bounds.
  destruct (float_to_Q (PrimFloat.div zmin step)) as [lo|]; [|reflexivity].
  destruct (float_to_Q (PrimFloat.div zmax step)) as [hi|]; [|reflexivity].
  destruct (generated_bounds lo hi) as [-> ->]. reflexivity.
Qed.
