(** Characterisation of the "mystery jump" state machine and of the
    interstorm flag, for all boolean vectors. *)
From Spowtd Require Import Model.Mystery Proofs.RunsSpec.
From Coq Require Import Lia.

(** "quiet since r": samples r+1..i are rain-free and are not the end of a fast
    increment. *)
Definition quiet (jump rain : list bool) (r i : nat) : Prop :=
  forall j, r < j -> j <= i -> nth j rain false = false /\ nth j jump false = false.

Definition dry_since_rain (jump rain : list bool) (i : nat) : Prop :=
  exists r, r <= i /\ nth r rain false = true /\ quiet jump rain r i.

Lemma mystery_from_length st jump rain :
  length jump = length rain -> length (mystery_from st jump rain) = length rain.
Proof.
  revert st rain. induction jump as [|j jt IH]; intros st [|r rt] H; simpl in *; try lia.
  f_equal. apply IH. lia.
Qed.

Lemma mystery_from_nth jump : forall rain st i,
  length jump = length rain -> i < length rain ->
  (nth i (mystery_from st jump rain) true = false <->
   (dry_since_rain jump rain i \/
    (st = false /\ forall j, j <= i -> nth j rain false = false /\ nth j jump false = false))).
Proof.
  induction jump as [|jb jt IH]; intros [|rb rt] st i Hlen Hi; simpl in Hlen, Hi; try lia.
  cbn [mystery_from].
  set (st' := if rb then false else if jb then true else st).
  destruct i as [|i].
  - cbn [nth]. unfold dry_since_rain, quiet. split.
    + intros Hst. destruct rb.
      * left. exists 0. split; [lia|]. split; [reflexivity|]. intros j H1 H2. lia.
      * right. destruct jb; [unfold st' in Hst; discriminate|]. unfold st' in Hst.
        split; [exact Hst|]. intros j Hj. assert (j = 0) by lia. subst. simpl. auto.
    + intros [(r & Hr & Hrain & _)|(Hst & Hq)].
      * assert (r = 0) by lia. subst. simpl in Hrain. subst. reflexivity.
      * specialize (Hq 0 (Nat.le_refl _)). simpl in Hq. destruct Hq as (-> & ->). exact Hst.
  - cbn [nth]. rewrite (IH rt st' i) by lia. unfold dry_since_rain, quiet. split.
    + intros [(r & Hr & Hrain & Hq)|(Hst & Hq)].
      * left. exists (S r). split; [lia|]. split; [exact Hrain|].
        intros j H1 H2. destruct j as [|j]; [lia|]. simpl. apply Hq; lia.
      * destruct rb.
        -- left. exists 0. split; [lia|]. split; [reflexivity|].
           intros j H1 H2. destruct j as [|j]; [lia|]. simpl. apply Hq; lia.
        -- right. destruct jb; [unfold st' in Hst; discriminate|]. unfold st' in Hst.
           split; [exact Hst|]. intros j Hj. destruct j as [|j]; [simpl; auto|].
           simpl. apply Hq; lia.
    + intros [(r & Hr & Hrain & Hq)|(Hst & Hq)].
      * destruct r as [|r].
        -- simpl in Hrain. subst rb. right. split; [reflexivity|].
           intros j Hj. specialize (Hq (S j)). simpl in Hq. apply Hq; lia.
        -- left. exists r. split; [lia|]. split; [exact Hrain|].
           intros j H1 H2. specialize (Hq (S j)). simpl in Hq. apply Hq; lia.
      * right. pose proof (Hq 0 (Nat.le_0_l _)) as H0. simpl in H0. destruct H0 as (-> & ->).
        split; [exact Hst|]. intros j Hj. specialize (Hq (S j)). simpl in Hq. apply Hq; lia.
Qed.

(** The stored "unexplained rise" flag is false exactly when there was rain at or
    before the sample and everything since has been quiet. *)
Theorem mystery_char jump rain i :
  length jump = length rain -> i < length rain ->
  (nth i (mystery_from true jump rain) true = false <-> dry_since_rain jump rain i).
Proof.
  intros Hlen Hi. rewrite (mystery_from_nth jump rain true i Hlen Hi).
  split; [intros [H|(H & _)]; [exact H|discriminate]|intros H; left; exact H].
Qed.

Lemma interstorm_from_nth myst : forall rain i,
  length myst = length rain -> i < length rain ->
  nth i (interstorm_from myst rain) false = negb (nth i myst true) && negb (nth i rain false).
Proof.
  induction myst as [|m mt IH]; intros [|r rt] i Hlen Hi; simpl in Hlen, Hi; try lia.
  destruct i as [|i]; simpl; [reflexivity|]. apply IH; lia.
Qed.

Lemma interstorm_from_length myst : forall rain,
  length myst = length rain -> length (interstorm_from myst rain) = length rain.
Proof.
  induction myst as [|m mt IH]; intros [|r rt] H; simpl in *; try lia. f_equal. apply IH; lia.
Qed.

Lemma interstorm_flags_length jump rain :
  length jump = length rain -> length (interstorm_flags jump rain) = length rain.
Proof.
  intros H. unfold interstorm_flags. apply interstorm_from_length. apply mystery_from_length. exact H.
Qed.

(** A sample is flagged interstorm iff it is rain-free, some earlier sample had
    rain, and every sample since the last rainy one is rain-free and does not
    end a fast increment. *)
Theorem interstorm_char jump rain i :
  length jump = length rain -> i < length rain ->
  (nth i (interstorm_flags jump rain) false = true <->
   nth i rain false = false /\
   exists r, r < i /\ nth r rain false = true /\ quiet jump rain r i).
Proof.
  intros Hlen Hi. unfold interstorm_flags.
  rewrite interstorm_from_nth by (rewrite ?mystery_from_length; lia).
  rewrite andb_true_iff, !negb_true_iff, (mystery_char jump rain i Hlen Hi).
  unfold dry_since_rain. split.
  - intros ((r & Hr & Hrain & Hq) & Hdry). split; [exact Hdry|].
    exists r. split; [|split; [exact Hrain|exact Hq]].
    destruct (Nat.eq_dec r i) as [->|]; [rewrite Hrain in Hdry; discriminate|lia].
  - intros (Hdry & r & Hr & Hrain & Hq). split; [|exact Hdry].
    exists r. split; [lia|split; [exact Hrain|exact Hq]].
Qed.

(** Recorded interstorm intervals, as (first sample, last sample): exactly the
    maximal runs of the interstorm flag that have at least two samples. *)
Theorem interstorm_intervals_exact jump rain a b :
  In (a, b) (interstorm_intervals jump rain) <->
  a < b /\ is_run (interstorm_flags jump rain) a (S b).
Proof.
  unfold interstorm_intervals, long_runs. rewrite in_map_iff. split.
  - intros ([s e] & Heq & Hin). simpl in Heq. inversion Heq; subst.
    apply filter_In in Hin. destruct Hin as (Hin & Hlen). cbn [fst snd] in Hlen.
    apply Nat.ltb_lt in Hlen. apply true_runs_spec in Hin.
    split; [lia|]. replace (S (e - 1)) with e by lia. exact Hin.
  - intros (Hab & Hrun). exists (a, S b). split; [simpl; f_equal; lia|].
    apply filter_In. split; [apply true_runs_spec; exact Hrun|].
    cbn [fst snd]. apply Nat.ltb_lt. lia.
Qed.

(** The first sample of a stretch is never interstorm (so run detection is never
    handed a vector that starts with True from this caller). *)
Corollary interstorm_first_false jump rain :
  length jump = length rain -> nth 0 (interstorm_flags jump rain) false = false.
Proof.
  intros Hlen. destruct rain as [|r rt].
  - destruct jump; [reflexivity|simpl in Hlen; lia].
  - destruct (nth 0 (interstorm_flags jump (r :: rt)) false) eqn:E; [|reflexivity].
    apply (interstorm_char jump (r :: rt) 0 Hlen) in E; [|simpl; lia].
    destruct E as (_ & r0 & Hr & _). lia.
Qed.
