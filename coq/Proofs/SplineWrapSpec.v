(** Proofs about Model/SplineWrap.v at the real-number instance [Rops].

    Oracle contract of FITPACK (Section hypotheses, tested on the real tck at
    every run of the check):
    - [splint_in]    : inside the knot range splint is the increment of ONE
                       function [P] (i.e. splint is additive there);
    - [splint_above] : splint(a, xmax) = 0 for a >= xmax (FITPACK treats the
                       spline as zero outside its knots; the code relies on it
                       when both limits lie above the range);
    and, for the analytic statement only,
    - [P_deriv], [ev_cont] : P' = ev on the knot range, ev continuous there. *)
From Coq Require Import Reals Lra.
From Coquelicot Require Import Coquelicot.
From Spowtd Require Import Model.SplineWrap.
Local Open Scope R_scope.

Ltac break_if :=
  match goal with
  | |- context [Rlt_dec ?x ?y] => destruct (Rlt_dec x y)
  | |- context [Req_EM_T ?x ?y] => destruct (Req_EM_T x y)
  | |- context [Rle_dec ?x ?y] => destruct (Rle_dec x y)
  | H : context [Rlt_dec ?x ?y] |- _ => destruct (Rlt_dec x y)
  | H : context [Rle_dec ?x ?y] |- _ => destruct (Rle_dec x y)
  end.

Section WrapR.
  Variables (xmin xmax : R).
  Variable ev : R -> R.
  Variable splint : R -> R -> R.
  Variable P : R -> R.
  Hypothesis dom : xmin < xmax.
  Hypothesis splint_in :
    forall a b, xmin <= a -> a <= b -> b <= xmax -> splint a b = P b - P a.
  Hypothesis splint_above : forall a, xmax <= a -> splint a xmax = 0.

  Notation clampR := (clamp Rops xmin xmax).
  Notation callR := (call Rops xmin xmax ev).
  Notation integR := (integrate Rops xmin xmax ev splint).

  (** The single function whose increments are the integrals. *)
  Definition Fc (x : R) : R :=
    P (clampR x) + ev xmin * (Rmin x xmin - xmin) + ev xmax * (Rmax x xmax - xmax).

  Lemma clamp_below : forall x, x <= xmin -> clampR x = xmin.
  Proof.
    intros x Hx. unfold clamp; simpl. unfold Rmin, Rmax.
    repeat break_if; lra.
  Qed.

  Lemma clamp_above : forall x, xmax <= x -> clampR x = xmax.
  Proof.
    intros x Hx. unfold clamp; simpl. unfold Rmin, Rmax.
    repeat break_if; lra.
  Qed.

  Lemma clamp_inside : forall x, xmin <= x <= xmax -> clampR x = x.
  Proof.
    intros x Hx. unfold clamp; simpl. unfold Rmin, Rmax.
    repeat break_if; lra.
  Qed.

  Lemma clamp_range : forall x, xmin <= clampR x <= xmax.
  Proof.
    intros x. unfold clamp; simpl. unfold Rmin, Rmax.
    repeat break_if; lra.
  Qed.

  Lemma clamp_idem : forall x, clampR (clampR x) = clampR x.
  Proof. intros x. apply clamp_inside, clamp_range. Qed.

  (** Constant outside the knot range. *)
  Lemma call_below : forall x, x <= xmin -> callR x = ev xmin.
  Proof. intros x Hx. unfold call. now rewrite clamp_below. Qed.

  Lemma call_above : forall x, xmax <= x -> callR x = ev xmax.
  Proof. intros x Hx. unfold call. now rewrite clamp_above. Qed.

  Lemma call_inside : forall x, xmin <= x <= xmax -> callR x = ev x.
  Proof. intros x Hx. unfold call. now rewrite clamp_inside. Qed.

  Lemma call_clamp : forall x, callR x = callR (clampR x).
  Proof. intros x. unfold call. now rewrite clamp_idem. Qed.

  (** Position of a point w.r.t. the knot range. *)
  Lemma Fc_below : forall x, x <= xmin -> Fc x = P xmin + ev xmin * (x - xmin).
  Proof.
    intros x Hx. unfold Fc. rewrite clamp_below by lra.
    rewrite Rmin_left by lra. rewrite Rmax_right by lra. ring.
  Qed.

  Lemma Fc_inside : forall x, xmin <= x <= xmax -> Fc x = P x.
  Proof.
    intros x Hx. unfold Fc. rewrite clamp_inside by lra.
    rewrite Rmin_right by lra. rewrite Rmax_right by lra. ring.
  Qed.

  Lemma Fc_above : forall x, xmax <= x -> Fc x = P xmax + ev xmax * (x - xmax).
  Proof.
    intros x Hx. unfold Fc. rewrite clamp_above by lra.
    rewrite Rmin_right by lra. rewrite Rmax_left by lra. ring.
  Qed.

  (** The ordered body, by position of the two limits (6 cases). *)
  Lemma integrate_ordered_char :
    forall a b, a <= b ->
      integrate_ordered Rops xmin xmax ev splint a b = Fc b - Fc a.
  Proof.
    intros a b Hab.
    unfold integrate_ordered; simpl. unfold Reqb, Rltb.
    destruct (Req_EM_T a b) as [E|NE].
    { subst b. ring. }
    assert (Hlt : a < b) by lra.
    destruct (Rlt_dec a xmin) as [Ha|Ha];
    destruct (Rlt_dec xmin b) as [Hb|Hb];
    destruct (Rlt_dec xmax b) as [Hc|Hc]; try lra.
    - (* a < xmin, b > xmax *)
      rewrite (call_below xmin) by lra.
      rewrite (call_above (Rmax a xmax)) by (apply Rmax_r).
      rewrite (Rmin_left xmin b) by lra. rewrite (Rmax_right a xmin) by lra.
      rewrite (Rmin_left xmax b) by lra. rewrite (Rmax_right a xmax) by lra.
      rewrite splint_in by lra.
      rewrite (Fc_below a) by lra. rewrite (Fc_above b) by lra. ring.
    - (* a < xmin < b <= xmax *)
      rewrite (call_below xmin) by lra.
      rewrite (Rmin_left xmin b) by lra. rewrite (Rmax_right a xmin) by lra.
      rewrite (Rmin_right xmax b) by lra.
      rewrite splint_in by lra.
      rewrite (Fc_below a) by lra. rewrite (Fc_inside b) by lra. ring.
    - (* a < b <= xmin *)
      rewrite (call_below xmin) by lra.
      rewrite (Rmin_right xmin b) by lra.
      rewrite !Fc_below by lra. ring.
    - (* xmin <= a, b > xmax *)
      rewrite (call_above (Rmax a xmax)) by (apply Rmax_r).
      rewrite (Rmax_left a xmin) by lra. rewrite (Rmin_left xmax b) by lra.
      destruct (Rle_dec a xmax) as [Hax|Hax].
      + rewrite (Rmax_right a xmax) by lra.
        rewrite splint_in by lra.
        rewrite (Fc_inside a) by lra. rewrite (Fc_above b) by lra. ring.
      + rewrite (Rmax_left a xmax) by lra.
        rewrite splint_above by lra.
        rewrite !Fc_above by lra. ring.
    - (* xmin <= a < b <= xmax *)
      rewrite (Rmax_left a xmin) by lra. rewrite (Rmin_right xmax b) by lra.
      rewrite splint_in by lra.
      rewrite !Fc_inside by lra. ring.
  Qed.

  (** integrate a b = Fc b - Fc a for ALL a, b (any position, any order). *)
  Theorem integrate_char : forall a b, integR a b = Fc b - Fc a.
  Proof.
    intros a b. unfold integrate; simpl. unfold Rltb.
    destruct (Rlt_dec b a) as [H|H].
    - rewrite integrate_ordered_char by lra. ring.
    - apply integrate_ordered_char. lra.
  Qed.

  Theorem integrate_additive :
    forall a b c, integR a c = integR a b + integR b c.
  Proof. intros a b c. rewrite !integrate_char. ring. Qed.

  Theorem integrate_antisym : forall a b, integR b a = - integR a b.
  Proof. intros a b. rewrite !integrate_char. ring. Qed.

  Theorem integrate_same : forall a, integR a a = 0.
  Proof. intros a. rewrite integrate_char. ring. Qed.

  Theorem integrate_below :
    forall a b, a <= xmin -> b <= xmin -> integR a b = ev xmin * (b - a).
  Proof.
    intros a b Ha Hb. rewrite integrate_char, !Fc_below by lra. ring.
  Qed.

  Theorem integrate_above :
    forall a b, xmax <= a -> xmax <= b -> integR a b = ev xmax * (b - a).
  Proof.
    intros a b Ha Hb. rewrite integrate_char, !Fc_above by lra. ring.
  Qed.

  Theorem integrate_inside :
    forall a b, xmin <= a <= xmax -> xmin <= b <= xmax -> integR a b = P b - P a.
  Proof.
    intros a b Ha Hb. rewrite integrate_char, !Fc_inside by lra. ring.
  Qed.

  (** Straddling the lower end: the code's three-part sum. *)
  Theorem integrate_straddle_all :
    forall a b, a <= xmin -> xmax <= b ->
      integR a b = ev xmin * (xmin - a) + (P xmax - P xmin) + ev xmax * (b - xmax).
  Proof.
    intros a b Ha Hb. rewrite integrate_char, (Fc_below a), (Fc_above b) by lra. ring.
  Qed.

  (** ---------------------------------------------------------------- area *)
  Section Area.
    (** Inside the knot range splint is the integral of splev. *)
    Hypothesis ev_RInt :
      forall a b, xmin <= a -> a <= b -> b <= xmax -> is_RInt ev a b (P b - P a).

    Lemma is_RInt_ev_inside :
      forall a b, xmin <= a -> a <= b -> b <= xmax -> is_RInt ev a b (P b - P a).
    Proof. exact ev_RInt. Qed.

    Lemma is_RInt_call_const :
      forall a b c, (forall x, Rmin a b < x < Rmax a b -> callR x = c) ->
        is_RInt callR a b (c * (b - a)).
    Proof.
      intros a b c H.
      apply (is_RInt_ext (fun _ => c)).
      - intros x Hx. symmetry. now apply H.
      - replace (c * (b - a)) with (scal (b - a) c).
        + apply (@is_RInt_const R_CompleteNormedModule).
        + unfold scal; simpl. unfold mult; simpl. ring.
    Qed.

    (** The integral from the lower knot to any point. *)
    Lemma is_RInt_from_xmin : forall x, is_RInt callR xmin x (Fc x - Fc xmin).
    Proof.
      intros x.
      rewrite (Fc_inside xmin) by lra.
      destruct (Rle_dec x xmin) as [H1|H1].
      - rewrite Fc_below by lra.
        replace (P xmin + ev xmin * (x - xmin) - P xmin) with (ev xmin * (x - xmin)) by ring.
        apply is_RInt_call_const.
        intros y Hy. rewrite Rmin_right, Rmax_left in Hy by lra.
        apply call_below. lra.
      - destruct (Rle_dec x xmax) as [H2|H2].
        + rewrite Fc_inside by lra.
          apply (is_RInt_ext ev).
          * intros y Hy. rewrite Rmin_left, Rmax_right in Hy by lra.
            symmetry. apply call_inside. lra.
          * apply is_RInt_ev_inside; lra.
        + rewrite Fc_above by lra.
          replace (P xmax + ev xmax * (x - xmax) - P xmin)
            with (plus (P xmax - P xmin) (ev xmax * (x - xmax)))
            by (unfold plus; simpl; ring).
          apply (is_RInt_Chasles callR xmin xmax x).
          * apply (is_RInt_ext ev).
            -- intros y Hy. rewrite Rmin_left, Rmax_right in Hy by lra.
               symmetry. apply call_inside. lra.
            -- apply is_RInt_ev_inside; lra.
          * apply is_RInt_call_const.
            intros y Hy. rewrite Rmin_left, Rmax_right in Hy by lra.
            apply call_above. lra.
    Qed.

    (** [integrate a b] IS the integral of the clamped function, any a, b. *)
    Theorem integrate_is_RInt : forall a b, is_RInt callR a b (integR a b).
    Proof.
      intros a b. rewrite integrate_char.
      replace (Fc b - Fc a)
        with (plus (opp (Fc a - Fc xmin)) (Fc b - Fc xmin))
        by (unfold plus, opp; simpl; ring).
      apply (is_RInt_Chasles callR a xmin b).
      - apply (@is_RInt_swap R_NormedModule callR a xmin (Fc a - Fc xmin)).
        apply is_RInt_from_xmin.
      - apply is_RInt_from_xmin.
    Qed.

    Theorem integrate_area : forall a b, integR a b = RInt callR a b.
    Proof.
      intros a b. symmetry. apply is_RInt_unique. apply integrate_is_RInt.
    Qed.

    Theorem integrate_nonneg :
      (forall x, xmin <= x <= xmax -> 0 <= ev x) ->
      forall a b, a <= b -> 0 <= integR a b.
    Proof.
      intros Hpos a b Hab.
      rewrite integrate_area.
      apply RInt_ge_0; try assumption.
      - exists (integR a b). apply integrate_is_RInt.
      - intros x _. unfold call. apply Hpos. apply clamp_range.
    Qed.
  End Area.

  (** The usual sufficient condition: P' = ev and ev continuous on the range. *)
  Lemma ev_RInt_of_deriv :
    (forall x, xmin <= x <= xmax -> is_derive P x (ev x)) ->
    (forall x, xmin <= x <= xmax -> continuous ev x) ->
    forall a b, xmin <= a -> a <= b -> b <= xmax -> is_RInt ev a b (P b - P a).
  Proof.
    intros P_deriv ev_cont a b Ha Hab Hb.
    apply (is_RInt_derive P ev a b).
    - intros x Hx. rewrite Rmin_left, Rmax_right in Hx by lra.
      apply P_deriv. lra.
    - intros x Hx. rewrite Rmin_left, Rmax_right in Hx by lra.
      apply ev_cont. lra.
  Qed.
End WrapR.

(** ---- the statements of Properties/C14.v, packaged *)
Lemma call_cases :
  forall (xmin xmax : R) (ev : R -> R), xmin < xmax ->
  forall x,
    (x <= xmin -> call Rops xmin xmax ev x = ev xmin) /\
    (xmax <= x -> call Rops xmin xmax ev x = ev xmax) /\
    (xmin <= x <= xmax -> call Rops xmin xmax ev x = ev x).
Proof.
  intros xmin xmax ev dom x. split; [|split]; intro H.
  - now apply call_below.
  - now apply call_above.
  - now apply call_inside.
Qed.

Lemma integrate_below_above :
  forall (xmin xmax : R) (ev : R -> R) (splint : R -> R -> R) (P : R -> R),
    xmin < xmax ->
    (forall a b, xmin <= a -> a <= b -> b <= xmax -> splint a b = P b - P a) ->
    (forall a, xmax <= a -> splint a xmax = 0) ->
    forall a b,
      (a <= xmin -> b <= xmin -> integrate Rops xmin xmax ev splint a b = ev xmin * (b - a)) /\
      (xmax <= a -> xmax <= b -> integrate Rops xmin xmax ev splint a b = ev xmax * (b - a)).
Proof.
  intros xmin xmax ev splint P dom Hin Hab a b. split.
  - now apply (integrate_below xmin xmax ev splint P).
  - now apply (integrate_above xmin xmax ev splint P).
Qed.

Lemma integrate_area_pack :
  forall (xmin xmax : R) (ev : R -> R) (splint : R -> R -> R) (P : R -> R),
    xmin < xmax ->
    (forall a b, xmin <= a -> a <= b -> b <= xmax -> splint a b = P b - P a) ->
    (forall a, xmax <= a -> splint a xmax = 0) ->
    (forall a b, xmin <= a -> a <= b -> b <= xmax -> is_RInt ev a b (P b - P a)) ->
    forall a b,
      is_RInt (call Rops xmin xmax ev) a b (integrate Rops xmin xmax ev splint a b) /\
      integrate Rops xmin xmax ev splint a b = RInt (call Rops xmin xmax ev) a b.
Proof.
  intros xmin xmax ev splint P dom Hin Hab HI a b. split.
  - now apply (integrate_is_RInt xmin xmax ev splint P).
  - now apply (integrate_area xmin xmax ev splint P).
Qed.

Lemma integrate_area_deriv :
  forall (xmin xmax : R) (ev : R -> R) (splint : R -> R -> R) (P : R -> R),
    xmin < xmax ->
    (forall a b, xmin <= a -> a <= b -> b <= xmax -> splint a b = P b - P a) ->
    (forall a, xmax <= a -> splint a xmax = 0) ->
    (forall x, xmin <= x <= xmax -> is_derive P x (ev x)) ->
    (forall x, xmin <= x <= xmax -> continuous ev x) ->
    forall a b,
      integrate Rops xmin xmax ev splint a b = RInt (call Rops xmin xmax ev) a b.
Proof.
  intros xmin xmax ev splint P dom Hin Hab HP Hc a b.
  apply (integrate_area xmin xmax ev splint P); try assumption.
  now apply ev_RInt_of_deriv.
Qed.
