(** C18 — lemmas and Ltac used by the generated case files: the integral of
    the model's integrand over one piece of a grid cell (no knot of either
    hydraulic function strictly inside) is reduced to an integral of an
    elementary expression (the branch conditions of the spline wrapper and of
    the transmissivity's closed form are decided by [lra] from a < x < b),
    which the [integral] tactic of the Interval library encloses. *)
From Coq Require Import Reals List Lra QArith Qreals.
From Coquelicot Require Import Coquelicot.
From Interval Require Import Tactic.
From Spowtd Require Import Model.Util Model.Transm Model.TransmEval Model.Peatclsm
  Model.SplineWrapPP Model.SimRecession.
Import ListNotations.
Open Scope R_scope.

Lemma RInt_ext_lt :
  forall (f g : R -> R) a b, a < b -> (forall x, a < x < b -> f x = g x) ->
    RInt f a b = RInt g a b.
Proof.
  intros f g a b Hab H. apply RInt_ext. intros x Hx.
  rewrite Rmin_left, Rmax_right in Hx by lra. now apply H.
Qed.

Lemma RInt_ext_gt :
  forall (f g : R -> R) a b, b < a -> (forall x, b < x < a -> f x = g x) ->
    RInt f a b = RInt g a b.
Proof.
  intros f g a b Hab H. apply RInt_ext. intros x Hx.
  rewrite Rmin_right, Rmax_left in Hx by lra. now apply H.
Qed.

(** Real-valued knots / segments from the exact rational ones. *)
Definition RofQs (l : list Q) : list R := map Q2R l.
Definition segsR (s : list (Q * list Q)) : list (R * list R) :=
  map (fun p => (Q2R (fst p), map Q2R (snd p))) s.
Definition pairsR (l : list (Q * Q)) : list (R * R) := map (fun p => (Q2R (fst p), Q2R (snd p))) l.

(** The cubic computed inside Coq from the knots ([] when the computation
    does not deliver a spline meeting every not-a-knot condition). *)
Definition nak_or_nil (knots values : list Q) : list (Q * list Q) :=
  match Qnak_pp knots values with Some s => s | None => [] end.

Ltac decide_min_max :=
  repeat match goal with
         | |- context [Rmin ?a ?b] =>
             first [ rewrite (Rmin_left a b) by lra | rewrite (Rmin_right a b) by lra ]
         | |- context [Rmax ?a ?b] =>
             first [ rewrite (Rmax_left a b) by lra | rewrite (Rmax_right a b) by lra ]
         end.

Ltac decide_lt_all :=
  repeat match goal with
         | |- context [Rlt_dec ?a ?b] => decide_Rlt a b
         end.

(** [unfold_consts] is supplied by the case file: it unfolds the file's own
    constants (knots, segments). *)
Ltac reduce_integrand unfold_consts :=
  cbv beta iota delta [integrand];
  unfold_consts;
  cbv beta iota delta [T_m2_d T_formula];
  cbv beta iota delta [RofQs segsR pairsR map Q2R Qnum Qden fst snd
                       pp_call call clamp pp_xmin pp_xmax hd last lin_pp
                       fmin fmax fltb fadd fsub fmul fdiv f0 Rops];
  decide_min_max;
  cbv beta iota delta [pp_eval horner Rltb fltb fadd fsub fmul fdiv f0 Rops];
  decide_lt_all;
  T_closed_eval.

(** Rewrites every [RInt (integrand ..) p q] of the goal into the integral of
    the reduced expression. *)
Ltac rewrite_pieces unfold_consts :=
  repeat match goal with
         | |- context [RInt (integrand ?S ?T ?e ?k) ?p ?q] =>
             first
               [ erewrite (RInt_ext_lt (integrand S T e k) _ p q);
                 [ | lra | intros ?x ?Hx; reduce_integrand unfold_consts; reflexivity ]
               | erewrite (RInt_ext_gt (integrand S T e k) _ p q);
                 [ | lra | intros ?x ?Hx; reduce_integrand unfold_consts; reflexivity ] ]
         end.

(** Encloses every remaining integral (absolute width 2^w) and forgets it. *)
Ltac intro_pieces w :=
  repeat match goal with
         | |- context [RInt ?g ?p ?q] =>
             let I := fresh "I" in
             let HI := fresh "HI" in
             first [ integral_intro (RInt g p q) with (i_prec 70, i_width w) as HI
                   | integral_intro (RInt g p q) with (i_prec 90, i_width w, i_fuel 400) as HI ];
             set (I := RInt g p q) in *; clearbody I
         end.

Ltac cell_reduce unfold_consts w :=
  cbv beta iota delta [piece_sum quad_ideal];
  rewrite_pieces unfold_consts;
  intro_pieces w.
