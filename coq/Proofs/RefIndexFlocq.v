(** C09, float layer, GENERAL theorems about [reference_index] (Model/RefIndex.v,
    bit-exact binary64 model of rise.py / recession.py:
      index = int(round(ref/step)); refused unless |ref - index*step| <= 1e-8).

    Proved over the reals with Flocq (IEEE754.PrimFloat bridge + Bmult/Bdiv/
    Bminus_correct + relative error of rounding to nearest):

    - [multiples_accepted_general]: for every finite step with
      2^-1022 <= step (normal) and every integer |k| < 2^51 with |k|*step <= 2^1023,
      the float product k*step is accepted and mapped to k.
    - [multiples_accepted_float_hyps]: same, hypotheses as float comparisons.
    - [near_multiple_accepted]: any float within 1e-8 - slack of k*step (and
      within step/4), |k| < 2^50, is accepted and mapped to k.
    - [accepted_near_multiple] / [off_grid_refused]: anything accepted with
      index k lies within 1e-8 (+ rounding slack) of k*step, so a level farther
      than that from every multiple of the step is refused. *)
From Coq Require Import ZArith Reals Lra Lia Psatz.
From Flocq Require Import Core.Core IEEE754.BinarySingleNaN IEEE754.PrimFloat Relative.
From Spowtd Require Import Model.RefIndex Proofs.RegridFlocq.
From Coq Require Import PrimFloat Uint63 FloatOps SpecFloat.

Local Open Scope R_scope.

Local Notation fexp64 := (SpecFloat.fexp prec emax).
Local Notation rnd := (round radix2 fexp64 (round_mode mode_NE)).
Local Notation finite x := (BinarySingleNaN.is_finite (Prim2B x) = true).
Local Notation Hp := Flocq.IEEE754.PrimFloat.Hprec.
Local Notation Hm := Flocq.IEEE754.PrimFloat.Hmax.

Local Existing Instance Flocq.IEEE754.PrimFloat.Hprec.
Local Existing Instance Flocq.IEEE754.PrimFloat.Hmax.
Local Instance fexp64_valid : Valid_exp fexp64 := @fexp_correct prec emax Hp.
Local Instance rnd_valid : Valid_rnd (round_mode mode_NE) := valid_rnd_round_mode mode_NE.

(** * 1. The exact integer rounding [round_half_even] *)

Definition rhe_mag (m : positive) (e : Z) : Z :=
  let mz := Zpos m in
  if (0 <=? e)%Z then (mz * 2 ^ e)%Z
  else
    let d := (2 ^ (- e))%Z in
    let q := (mz / d)%Z in
    let r := (mz mod d)%Z in
    let half := (d / 2)%Z in
    if (half <? r)%Z then (q + 1)%Z
    else if (r =? half)%Z then (if Z.even q then q else q + 1)%Z
    else q.

Lemma rhe_unfold x :
  round_half_even x =
  match Prim2SF x with
  | S754_zero _ => Some 0%Z
  | S754_finite s m e => Some (if s then (- rhe_mag m e)%Z else rhe_mag m e)
  | _ => None
  end.
Proof. reflexivity. Qed.

Lemma rhe_mag_Z m e : (e < 0)%Z ->
  (- 2 ^ (- e) <= 2 * (rhe_mag m e * 2 ^ (- e) - Zpos m) <= 2 ^ (- e))%Z.
Proof.
  intros He. unfold rhe_mag.
  destruct (0 <=? e)%Z eqn:E; [apply Z.leb_le in E; lia|]. clear E.
  set (d := (2 ^ (- e))%Z).
  assert (Hd : (d = 2 * 2 ^ (- e - 1))%Z).
  { unfold d. replace (- e)%Z with (1 + (- e - 1))%Z at 1 by lia.
    rewrite Z.pow_add_r by lia. reflexivity. }
  assert (Hh : (0 < 2 ^ (- e - 1))%Z) by (apply Z.pow_pos_nonneg; lia).
  set (h := (2 ^ (- e - 1))%Z) in *.
  assert (Hhalf : (d / 2 = h)%Z).
  { rewrite Hd, Z.mul_comm. apply Z.div_mul. lia. }
  cbv zeta. rewrite Hhalf.
  pose proof (Z.div_mod (Zpos m) d ltac:(lia)) as Hdm.
  pose proof (Z.mod_pos_bound (Zpos m) d ltac:(lia)) as Hr.
  set (q := (Zpos m / d)%Z) in *. set (r := (Zpos m mod d)%Z) in *.
  destruct (h <? r)%Z eqn:E1; [apply Z.ltb_lt in E1|apply Z.ltb_ge in E1].
  - nia.
  - destruct (r =? h)%Z eqn:E2; [apply Z.eqb_eq in E2|apply Z.eqb_neq in E2].
    + destruct (Z.even q); nia.
    + nia.
Qed.

Lemma rhe_mag_close m e :
  Rabs (IZR (rhe_mag m e) - IZR (Zpos m) * bpow radix2 e) <= / 2.
Proof.
  destruct (Z_lt_le_dec e 0) as [He|He].
  - pose proof (rhe_mag_Z m e He) as [H1 H2].
    apply IZR_le in H1, H2.
    rewrite opp_IZR in H1. rewrite mult_IZR, minus_IZR, mult_IZR in H1, H2.
    assert (Hb : IZR (2 ^ (- e)) = bpow radix2 (- e)).
    { rewrite <- IZR_Zpower by lia. reflexivity. }
    rewrite Hb in H1, H2.
    assert (HD : 0 < bpow radix2 (- e)) by apply bpow_gt_0.
    rewrite (bpow_opp radix2 e) in H1, H2, HD.
    assert (HE : 0 < bpow radix2 e) by apply bpow_gt_0.
    set (B := bpow radix2 e) in *. set (V := IZR (rhe_mag m e)) in *.
    set (M := IZR (Z.pos m)) in *.
    assert (HBB : B * / B = 1) by (field; lra).
    apply Rabs_le. split.
    + apply Rmult_le_reg_r with (/ B); [exact HD|].
      replace ((V - M * B) * / B) with (V * / B - M * (B * / B)) by ring. rewrite HBB. lra.
    + apply Rmult_le_reg_r with (/ B); [exact HD|].
      replace ((V - M * B) * / B) with (V * / B - M * (B * / B)) by ring. rewrite HBB. lra.
  - unfold rhe_mag. destruct (0 <=? e)%Z eqn:E; [|apply Z.leb_gt in E; lia].
    cbv zeta. rewrite mult_IZR.
    replace (IZR (2 ^ e)) with (bpow radix2 e) by (rewrite <- IZR_Zpower by lia; reflexivity).
    rewrite Rminus_diag_eq by reflexivity. rewrite Rabs_R0. lra.
Qed.

Lemma fval_finite_SF x s m e :
  Prim2SF x = S754_finite s m e ->
  finite x /\ fval x = IZR (cond_Zopp s (Zpos m)) * bpow radix2 e.
Proof.
  unfold fval. rewrite <- B2SF_Prim2B.
  destruct (Prim2B x) as [s'|s'| |s' m' e' H]; simpl; try discriminate.
  intros E. inversion E. subst. split; reflexivity.
Qed.

Lemma rhe_close x z : round_half_even x = Some z -> Rabs (IZR z - fval x) <= / 2.
Proof.
  rewrite rhe_unfold. destruct (Prim2SF x) as [s|s| |s m e] eqn:E; try discriminate.
  - intros H. inversion H. unfold fval. rewrite <- B2SF_Prim2B in E.
    destruct (Prim2B x); simpl in E; try discriminate. simpl.
    rewrite Rminus_diag_eq by reflexivity. rewrite Rabs_R0. lra.
  - intros H. inversion H. clear H. destruct (fval_finite_SF x s m e E) as [_ ->].
    pose proof (rhe_mag_close m e) as C.
    destruct s.
    + change (cond_Zopp true (Z.pos m)) with (- Z.pos m)%Z. rewrite !opp_IZR.
      replace (- IZR (rhe_mag m e) - - IZR (Z.pos m) * bpow radix2 e)
        with (- (IZR (rhe_mag m e) - IZR (Z.pos m) * bpow radix2 e)) by ring.
      rewrite Rabs_Ropp. exact C.
    + exact C.
Qed.

Lemma rhe_some_finite x z : round_half_even x = Some z -> finite x.
Proof.
  rewrite rhe_unfold, <- B2SF_Prim2B.
  destruct (Prim2B x); simpl; try discriminate; reflexivity.
Qed.

Lemma rhe_finite_some x : finite x -> exists z, round_half_even x = Some z.
Proof.
  rewrite rhe_unfold, <- B2SF_Prim2B.
  destruct (Prim2B x); simpl; try discriminate; eauto.
Qed.

(** the integer returned is the unique one within 1/2 of the float *)
Lemma rhe_unique x z k :
  round_half_even x = Some z -> Rabs (fval x - IZR k) < / 2 -> z = k.
Proof.
  intros H Hk. apply rhe_close in H.
  apply Rabs_le_inv in H. apply Rabs_lt_inv in Hk.
  assert (H1 : IZR (z - k) < 1) by (rewrite minus_IZR; lra).
  assert (H2 : -1 < IZR (z - k)) by (rewrite minus_IZR; lra).
  apply lt_IZR in H1, H2. lia.
Qed.

(** * 2. [float_of_Z] is exact below 2^53 *)

Lemma generic_IZR n : (Z.abs n < 2 ^ 53)%Z -> generic_format radix2 fexp64 (IZR n).
Proof.
  intros Hn. apply (generic_format_FLT radix2 (-1074) 53).
  exists (Float radix2 n 0); simpl.
  - unfold F2R. simpl. ring.
  - exact Hn.
  - lia.
Qed.

Lemma of_uint63_exact n : (0 <= n < 2 ^ 53)%Z ->
  finite (of_uint63 (of_Z n)) /\ fval (of_uint63 (of_Z n)) = IZR n.
Proof.
  intros Hn. unfold fval.
  rewrite of_int63_equiv. rewrite of_Z_spec.
  rewrite Z.mod_small by (change wB with (2 ^ 63)%Z; lia).
  pose proof (binary_normalize_correct prec emax Hp Hm mode_NE n 0 false) as H.
  cbv zeta in H.
  assert (Hx : F2R (Float radix2 n 0) = IZR n) by (unfold F2R; simpl; ring).
  rewrite Hx in H. rewrite round_generic in H; [| apply rnd_valid | apply generic_IZR; lia].
  rewrite Rlt_bool_true in H.
  - destruct H as (H1 & H2 & _). split; assumption.
  - rewrite <- abs_IZR. apply Rlt_le_trans with (IZR (2 ^ 53)).
    + apply IZR_lt. lia.
    + change (IZR (2 ^ 53)) with (IZR (Zpower radix2 53)). rewrite IZR_Zpower by lia.
      apply bpow_le. unfold emax. lia.
Qed.

Lemma float_of_Z_exact k : (Z.abs k < 2 ^ 53)%Z ->
  finite (float_of_Z k) /\ fval (float_of_Z k) = IZR k.
Proof.
  intros Hk. unfold float_of_Z. destruct (k <? 0)%Z eqn:E.
  - apply Z.ltb_lt in E. destruct (of_uint63_exact (- k) ltac:(lia)) as [F V].
    unfold fval in *. rewrite opp_equiv, is_finite_Bopp, B2R_Bopp, V, opp_IZR.
    split; [exact F|ring].
  - apply Z.ltb_ge in E. apply of_uint63_exact. lia.
Qed.

(** * 3. Correct rounding of the float operations, over the reals *)

Lemma bpow1023_generic : generic_format radix2 fexp64 (bpow radix2 1023).
Proof. apply generic_format_bpow. vm_compute. discriminate. Qed.

Lemma no_overflow x : Rabs x <= bpow radix2 1023 ->
  Rlt_bool (Rabs (rnd x)) (bpow radix2 emax) = true.
Proof.
  intros H. apply Rlt_bool_true.
  apply Rle_lt_trans with (bpow radix2 1023).
  - apply abs_round_le_generic; [apply fexp64_valid|apply rnd_valid|apply bpow1023_generic|exact H].
  - apply bpow_lt. unfold emax. lia.
Qed.

Lemma mul_correct a b :
  finite a -> finite b -> Rabs (fval a * fval b) <= bpow radix2 1023 ->
  finite (a * b)%float /\ fval (a * b)%float = rnd (fval a * fval b).
Proof.
  intros Fa Fb Hb. unfold fval in *. rewrite mul_equiv.
  pose proof (Bmult_correct prec emax Hp Hm mode_NE (Prim2B a) (Prim2B b)) as H.
  rewrite (no_overflow _ Hb) in H. destruct H as (H1 & H2 & _).
  rewrite H2, Fa, Fb. split; [reflexivity|exact H1].
Qed.

Lemma div_correct a b :
  finite a -> fval b <> 0 -> Rabs (fval a / fval b) <= bpow radix2 1023 ->
  finite (a / b)%float /\ fval (a / b)%float = rnd (fval a / fval b).
Proof.
  intros Fa Zb Hb. unfold fval in *. rewrite div_equiv.
  pose proof (Bdiv_correct prec emax Hp Hm mode_NE (Prim2B a) (Prim2B b) Zb) as H.
  rewrite (no_overflow _ Hb) in H. destruct H as (H1 & H2 & _).
  rewrite H2, Fa. split; [reflexivity|exact H1].
Qed.

Definition u53 : R := / 9007199254740992.

Lemma bpow_m53 : bpow radix2 (-53) = u53.
Proof. unfold u53. simpl. reflexivity. Qed.

Lemma rnd_rel x : bpow radix2 (-1022) <= Rabs x ->
  exists eps, Rabs eps <= u53 /\ rnd x = x * (1 + eps).
Proof.
  intros Hx.
  destruct (relative_error_N_FLT_ex radix2 (-1074) 53 Hp (fun t => negb (Z.even t)) x Hx)
    as (eps & He & Hr).
  exists eps. split; [|exact Hr].
  replace u53 with (/ 2 * bpow radix2 (- (53) + 1)); [exact He|].
  unfold u53. simpl. lra.
Qed.

Lemma core_close (k : Z) (e1 e2 : R) :
  (Z.abs k < 2 ^ 51)%Z -> Rabs e1 <= u53 -> Rabs e2 <= u53 ->
  Rabs (IZR k * (1 + e1) * (1 + e2) - IZR k) < / 2.
Proof.
  intros Hk H1 H2.
  assert (HK : Rabs (IZR k) <= 2251799813685247).
  { rewrite <- abs_IZR. apply IZR_le. lia. }
  set (K := IZR k) in *.
  replace (K * (1 + e1) * (1 + e2) - K) with (K * (e1 + e2 + e1 * e2)) by ring.
  rewrite Rabs_mult.
  assert (Ht : Rabs (e1 + e2 + e1 * e2) <= 2 * u53 + u53 * u53).
  { eapply Rle_trans; [apply Rabs_triang|]. apply Rplus_le_compat.
    - eapply Rle_trans; [apply Rabs_triang|]. lra.
    - rewrite Rabs_mult. apply Rmult_le_compat; try apply Rabs_pos; assumption. }
  apply Rle_lt_trans with (2251799813685247 * (2 * u53 + u53 * u53)).
  - apply Rmult_le_compat; try apply Rabs_pos; assumption.
  - unfold u53. lra.
Qed.

(** * 4. The acceptance test on identical operands *)

Definition c1e8 : float := 0x1.5798ee2308c3ap-27%float.

Lemma c1e8_SF : Prim2SF c1e8 = S754_finite false 6044629098073146 (-79).
Proof. vm_compute. reflexivity. Qed.

Lemma c1e8_pos : finite c1e8 /\ 0 < fval c1e8.
Proof.
  destruct (fval_finite_SF _ _ _ _ c1e8_SF) as [F V]. split; [exact F|].
  rewrite V. simpl cond_Zopp. apply Rmult_lt_0_compat; [apply IZR_lt; lia|apply bpow_gt_0].
Qed.

Lemma sub_self_leb p : finite p -> ((abs (p - p)) <=? c1e8)%float = true.
Proof.
  intros Fp. rewrite leb_equiv, abs_equiv, sub_equiv.
  pose proof (Bminus_correct prec emax Hp Hm mode_NE (Prim2B p) (Prim2B p) Fp Fp) as H.
  rewrite Rminus_diag_eq in H by reflexivity.
  rewrite round_0 in H by apply rnd_valid.
  rewrite Rabs_R0, Rlt_bool_true in H by apply bpow_gt_0.
  destruct H as (H1 & H2 & _).
  destruct c1e8_pos as [Fc Pc].
  rewrite Bleb_correct; [|rewrite is_finite_Babs; exact H2|exact Fc].
  rewrite B2R_Babs, H1, Rabs_R0. apply Rle_bool_true. unfold fval in Pc. lra.
Qed.

(** * 5. Every multiple of the step is accepted and mapped to its index *)

Theorem multiples_accepted_general : forall (step : float) (k : Z),
  finite step ->
  bpow radix2 (-1022) <= fval step ->                 (* positive and normal *)
  (Z.abs k < 2 ^ 51)%Z ->
  IZR (Z.abs k) * fval step <= bpow radix2 1023 ->     (* the product does not overflow *)
  reference_index (PrimFloat.mul (float_of_Z k) step) step = Ok k.
Proof.
  intros step k Fs Hs Hk Hov.
  assert (Spos : 0 < fval step).
  { eapply Rlt_le_trans; [apply (bpow_gt_0 radix2 (-1022))|exact Hs]. }
  destruct (float_of_Z_exact k ltac:(lia)) as [Fk Vk].
  assert (Habs : Rabs (IZR k * fval step) = IZR (Z.abs k) * fval step).
  { rewrite Rabs_mult, abs_IZR, (Rabs_pos_eq (fval step)) by lra. reflexivity. }
  destruct (mul_correct (float_of_Z k) step Fk Fs) as [Fp Vp].
  { rewrite Vk, Habs. exact Hov. }
  rewrite Vk in Vp.
  set (p := (float_of_Z k * step)%float) in *.
  (* relative error of the product *)
  assert (E1 : exists e1, Rabs e1 <= u53 /\ fval p = IZR k * fval step * (1 + e1)).
  { destruct (Z.eq_dec k 0) as [->|Hk0].
    - exists 0. split; [rewrite Rabs_R0; unfold u53; lra|].
      rewrite Vp, Rmult_0_l, round_0 by apply rnd_valid. ring.
    - rewrite Vp. apply rnd_rel. rewrite Habs.
      assert (1 <= IZR (Z.abs k)) by (apply IZR_le; lia).
      nra. }
  destruct E1 as (e1 & He1 & Vp1).
  assert (Hquo : fval p / fval step = IZR k * (1 + e1)).
  { rewrite Vp1. field. lra. }
  assert (Hk51 : Rabs (IZR k) <= 2251799813685247).
  { rewrite <- abs_IZR. apply IZR_le. lia. }
  assert (He1' : - u53 <= e1 <= u53) by (apply Rabs_le_inv; exact He1).
  assert (Hq1 : Rabs (IZR k * (1 + e1)) <= 2 * Rabs (IZR k)).
  { rewrite Rabs_mult, Rmult_comm. apply Rmult_le_compat_r; [apply Rabs_pos|].
    apply Rabs_le. unfold u53 in He1'. lra. }
  destruct (div_correct p step Fp ltac:(lra)) as [Fq Vq].
  { rewrite Hquo. eapply Rle_trans; [exact Hq1|].
    apply Rle_trans with (bpow radix2 52).
    - simpl. lra.
    - apply bpow_le. lia. }
  rewrite Hquo in Vq.
  set (q := (p / step)%float) in *.
  assert (E2 : exists e2, Rabs e2 <= u53 /\ fval q = IZR k * (1 + e1) * (1 + e2)).
  { destruct (Z.eq_dec k 0) as [->|Hk0].
    - exists 0. split; [rewrite Rabs_R0; unfold u53; lra|].
      rewrite Vq, Rmult_0_l, round_0 by apply rnd_valid. ring.
    - rewrite Vq. apply rnd_rel. rewrite Rabs_mult.
      assert (1 <= Rabs (IZR k)).
      { rewrite <- abs_IZR. apply IZR_le. lia. }
      assert (/ 2 <= Rabs (1 + e1)).
      { rewrite Rabs_pos_eq; unfold u53 in He1'; lra. }
      apply Rle_trans with (1 * / 2).
      + apply Rle_trans with (bpow radix2 (-1)); [apply bpow_le; lia|simpl; lra].
      + apply Rmult_le_compat; try lra. }
  destruct E2 as (e2 & He2 & Vq2).
  assert (Hclose : Rabs (fval q - IZR k) < / 2).
  { rewrite Vq2. apply core_close; assumption. }
  destruct (rhe_finite_some q Fq) as (z & Hz).
  assert (z = k) by (eapply rhe_unique; eassumption). subst z.
  unfold reference_index. fold p. fold q. rewrite Hz. cbv zeta. fold p.
  change 0x1.5798ee2308c3ap-27%float with c1e8.
  rewrite (sub_self_leb p Fp). reflexivity.
Qed.

(** The same theorem with hypotheses that are float comparisons (checkable by
    [vm_compute] on a concrete step): the step is a normal number not above 2^970. *)

Lemma Bleb_between_finite (L X U : binary_float prec emax) :
  BinarySingleNaN.is_finite L = true -> BinarySingleNaN.is_finite U = true ->
  Bleb L X = true -> Bleb X U = true ->
  BinarySingleNaN.is_finite X = true /\ B2R L <= B2R X <= B2R U.
Proof.
  intros FL FU H1 H2.
  assert (FX : BinarySingleNaN.is_finite X = true).
  { destruct X as [s|s| |s m e H]; try reflexivity;
      destruct L, U; try discriminate; destruct s; discriminate. }
  split; [exact FX|].
  rewrite Bleb_correct in H1, H2 by assumption.
  split.
  - destruct (Rle_bool_spec (B2R L) (B2R X)); [assumption|discriminate].
  - destruct (Rle_bool_spec (B2R X) (B2R U)); [assumption|discriminate].
Qed.

Lemma fval_min_normal : finite 0x1p-1022%float /\ fval 0x1p-1022%float = bpow radix2 (-1022).
Proof.
  assert (E : Prim2SF 0x1p-1022%float = S754_finite false 4503599627370496 (-1074))
    by (vm_compute; reflexivity).
  destruct (fval_finite_SF _ _ _ _ E) as [F V]. split; [exact F|].
  rewrite V. simpl cond_Zopp.
  change (IZR 4503599627370496) with (bpow radix2 52).
  rewrite <- bpow_plus. reflexivity.
Qed.

Lemma fval_2p970 : finite 0x1p+970%float /\ fval 0x1p+970%float = bpow radix2 970.
Proof.
  assert (E : Prim2SF 0x1p+970%float = S754_finite false 4503599627370496 918)
    by (vm_compute; reflexivity).
  destruct (fval_finite_SF _ _ _ _ E) as [F V]. split; [exact F|].
  rewrite V. simpl cond_Zopp.
  change (IZR 4503599627370496) with (bpow radix2 52).
  rewrite <- bpow_plus. reflexivity.
Qed.

Lemma general_hyps_of_float_hyps : forall (step : float) (k : Z),
  (0x1p-1022 <=? step)%float = true -> (step <=? 0x1p+970)%float = true ->
  (Z.abs k < 2 ^ 51)%Z ->
  finite step /\ bpow radix2 (-1022) <= fval step /\
  IZR (Z.abs k) * fval step <= bpow radix2 1023.
Proof.
  intros step k H1 H2 Hk. rewrite leb_equiv in H1, H2.
  destruct fval_min_normal as [FL VL]. destruct fval_2p970 as [FU VU].
  destruct (Bleb_between_finite _ _ _ FL FU H1 H2) as [Fs [B1 B2]].
  fold (fval 0x1p-1022%float) in B1. fold (fval step) in B1, B2. fold (fval 0x1p+970%float) in B2.
  rewrite VL in B1. rewrite VU in B2.
  split; [exact Fs|]. split; [exact B1|].
  apply Rle_trans with (bpow radix2 51 * bpow radix2 970).
  - apply Rmult_le_compat.
    + apply IZR_le. lia.
    + eapply Rle_trans; [apply Rlt_le, (bpow_gt_0 radix2 (-1022))|exact B1].
    + change (bpow radix2 51) with (IZR (2 ^ 51)). apply IZR_le. lia.
    + exact B2.
  - rewrite <- bpow_plus. apply bpow_le. lia.
Qed.

Theorem multiples_accepted_float_hyps : forall (step : float) (k : Z),
  (0x1p-1022 <=? step)%float = true -> (step <=? 0x1p+970)%float = true ->
  (Z.abs k < 2 ^ 51)%Z ->
  reference_index (PrimFloat.mul (float_of_Z k) step) step = Ok k.
Proof.
  intros step k H1 H2 Hk.
  destruct (general_hyps_of_float_hyps step k H1 H2 Hk) as (Fs & B1 & B2).
  apply multiples_accepted_general; assumption.
Qed.

(** * 6. The refusal side: anything accepted is within 1e-8 (+ rounding slack)
      of the multiple it is mapped to *)

Definition c1e8_next : float := 0x1.5798ee2308c3bp-27%float.

Lemma c1e8_next_SF : Prim2SF c1e8_next = S754_finite false 6044629098073147 (-79).
Proof. vm_compute. reflexivity. Qed.

Lemma c1e8_lt_next : fval c1e8 < fval c1e8_next.
Proof.
  destruct (fval_finite_SF _ _ _ _ c1e8_SF) as [_ ->].
  destruct (fval_finite_SF _ _ _ _ c1e8_next_SF) as [_ ->].
  simpl cond_Zopp. apply Rmult_lt_compat_r; [apply bpow_gt_0|apply IZR_lt; lia].
Qed.

Lemma c1e8_next_bound : fval c1e8_next <= 1.0000000000000002e-8.
Proof.
  destruct (fval_finite_SF _ _ _ _ c1e8_next_SF) as [_ ->].
  simpl. lra.
Qed.

Lemma rnd_lt_inv x y : generic_format radix2 fexp64 y -> Rabs (rnd x) < y -> Rabs x < y.
Proof.
  intros Gy H. destruct (Rlt_le_dec (Rabs x) y) as [L|L]; [exact L|]. exfalso.
  destruct (Rle_lt_dec 0 x) as [P|N].
  - rewrite Rabs_pos_eq in L by exact P.
    assert (y <= rnd x).
    { rewrite <- (round_generic radix2 fexp64 (round_mode mode_NE) y Gy).
      apply round_le; [apply fexp64_valid|apply rnd_valid|exact L]. }
    apply Rabs_lt_inv in H. lra.
  - rewrite Rabs_left in L by exact N.
    assert (rnd x <= - y).
    { rewrite <- (round_generic radix2 fexp64 (round_mode mode_NE) (- y)
                    (generic_format_opp _ _ _ Gy)).
      apply round_le; [apply fexp64_valid|apply rnd_valid|lra]. }
    apply Rabs_lt_inv in H. lra.
Qed.

Lemma leb_c_finite (D : binary_float prec emax) :
  Bleb (Babs D) (Prim2B c1e8) = true -> BinarySingleNaN.is_finite D = true.
Proof.
  unfold Bleb. rewrite B2SF_Prim2B, c1e8_SF.
  destruct D as [s|s| |s m e H]; simpl; try discriminate; reflexivity.
Qed.

Lemma sub_finite_inv (A B : binary_float prec emax) :
  BinarySingleNaN.is_finite (Bminus mode_NE A B) = true ->
  BinarySingleNaN.is_finite A = true -> BinarySingleNaN.is_finite B = true.
Proof.
  destruct B as [s|s| |s m e H]; try reflexivity;
    destruct A as [s'|s'| |s' m' e' H']; simpl; discriminate.
Qed.

Lemma half_bpow_m1074 : / 2 * bpow radix2 (-1074) = bpow radix2 (-1075).
Proof.
  change (-1075)%Z with (-1 + -1074)%Z. rewrite bpow_plus.
  change (bpow radix2 (-1)) with (/ 2). reflexivity.
Qed.

Definition slack (k : Z) (step : float) : R :=
  bpow radix2 (-53) * Rabs (IZR k * fval step) + bpow radix2 (-1075).

Theorem accepted_near_multiple : forall (ref step : float) (k : Z),
  finite ref -> finite step -> 0 < fval step ->
  Rabs (fval ref) <= bpow radix2 51 * fval step ->
  reference_index ref step = Ok k ->
  (Z.abs k <= 2 ^ 51)%Z /\
  Rabs (IZR k - fval ref / fval step) <= / 2 + bpow radix2 (-2) /\
  Rabs (fval ref - IZR k * fval step) < 1.0000000000000002e-8 + slack k step.
Proof.
  intros ref step k Fr Fs Spos Hmag H. unfold reference_index in H.
  destruct (round_half_even (ref / step)) as [z|] eqn:Hz; [|discriminate].
  cbv zeta in H.
  destruct (abs (ref - float_of_Z z * step) <=? 0x1.5798ee2308c3ap-27)%float eqn:Hl;
    [|discriminate].
  inversion H. subst z. clear H.
  pose proof (rhe_some_finite _ _ Hz) as Fq.
  pose proof (div_round ref step ltac:(lra) Fq) as Vq.
  assert (Hquo : Rabs (fval ref / fval step) <= bpow radix2 51).
  { unfold Rdiv. rewrite Rabs_mult, (Rabs_pos_eq (/ fval step)).
    - apply Rmult_le_reg_r with (fval step); [exact Spos|].
      rewrite Rmult_assoc, Rinv_l, Rmult_1_r by lra. exact Hmag.
    - left. apply Rinv_0_lt_compat. exact Spos. }
  assert (G51 : generic_format radix2 fexp64 (bpow radix2 51)).
  { apply generic_format_bpow. vm_compute. discriminate. }
  assert (Hq : Rabs (fval (ref / step)%float) <= bpow radix2 51).
  { rewrite Vq. apply abs_round_le_generic;
      [apply fexp64_valid|apply rnd_valid|exact G51|exact Hquo]. }
  pose proof (rhe_close _ _ Hz) as Hc.
  assert (Hk : (Z.abs k <= 2 ^ 51)%Z).
  { assert (IZR (Z.abs k) < IZR (2 ^ 51 + 1)).
    { rewrite abs_IZR, plus_IZR. change (IZR (2 ^ 51)) with (bpow radix2 51).
      apply Rabs_le_inv in Hc. apply Rabs_le_inv in Hq.
      apply Rabs_lt. lra. }
    apply lt_IZR in H. lia. }
  split; [exact Hk|].
  split.
  { (* nearest index of the real quotient, up to the rounding of the quotient *)
    assert (Herr : Rabs (fval (ref / step)%float - fval ref / fval step) <= bpow radix2 (-2)).
    { rewrite Vq.
      eapply Rle_trans; [apply error_le_half_ulp; apply fexp64_valid|].
      apply Rle_trans with (/ 2 * Ulp.ulp radix2 fexp64 (bpow radix2 51)).
      - apply Rmult_le_compat_l; [lra|]. apply ulp_le; [apply fexp64_valid| |].
        + apply FLT.FLT_exp_monotone.
        + rewrite (Rabs_pos_eq (bpow radix2 51)) by apply bpow_ge_0. exact Hquo.
      - rewrite ulp_bpow. simpl. lra. }
    replace (IZR k - fval ref / fval step)
      with ((IZR k - fval (ref / step)%float) + (fval (ref / step)%float - fval ref / fval step)) by ring.
    eapply Rle_trans; [apply Rabs_triang|]. lra. }
  destruct (float_of_Z_exact k ltac:(lia)) as [Fk Vk].
  change 0x1.5798ee2308c3ap-27%float with c1e8 in Hl.
  rewrite leb_equiv, abs_equiv, sub_equiv, mul_equiv in Hl.
  pose proof (leb_c_finite _ Hl) as FD.
  pose proof (sub_finite_inv _ _ FD Fr) as FP.
  (* the product k*step *)
  pose proof (Bmult_correct prec emax Hp Hm mode_NE (Prim2B (float_of_Z k)) (Prim2B step)) as HM.
  destruct (Rlt_bool _ _) in HM.
  2:{ exfalso. rewrite <- is_finite_SF_B2SF, HM in FP. simpl in FP. discriminate. }
  destruct HM as (VP & _).
  fold (fval (float_of_Z k)) in VP. fold (fval step) in VP. rewrite Vk in VP.
  (* the difference *)
  pose proof (Bminus_correct prec emax Hp Hm mode_NE _ _ Fr FP) as HD.
  destruct (Rlt_bool _ _) in HD.
  2:{ exfalso. destruct HD as [HD _]. rewrite <- is_finite_SF_B2SF, HD in FD.
      simpl in FD. discriminate. }
  destruct HD as (VD & _).
  destruct c1e8_pos as [Fc _].
  rewrite Bleb_correct in Hl; [|rewrite is_finite_Babs; exact FD|exact Fc].
  rewrite B2R_Babs, VD in Hl.
  destruct (Rle_bool_spec (Rabs (rnd (B2R (Prim2B ref) -
              B2R (Bmult mode_NE (Prim2B (float_of_Z k)) (Prim2B step))))) (B2R (Prim2B c1e8)))
    as [Hle|]; [|discriminate].
  fold (fval c1e8) in Hle. fold (fval ref) in Hle.
  assert (Hd : Rabs (fval ref - B2R (Bmult mode_NE (Prim2B (float_of_Z k)) (Prim2B step)))
               < fval c1e8_next).
  { apply rnd_lt_inv.
    - apply generic_format_B2R.
    - eapply Rle_lt_trans; [exact Hle|apply c1e8_lt_next]. }
  rewrite VP in Hd.
  destruct (error_N_FLT radix2 (-1074) 53 ltac:(lia) (fun t => negb (Z.even t)) (IZR k * fval step))
    as (eps & eta & Heps & Heta & _ & Hr).
  change (round radix2 (FLT_exp (-1074) 53) (Znearest (fun t => negb (Z.even t))) (IZR k * fval step))
    with (rnd (IZR k * fval step)) in Hr.
  rewrite half_bpow_m1074 in Heta.
  replace (/ 2 * bpow radix2 (- (53) + 1)) with (bpow radix2 (-53)) in Heps by (simpl; lra).
  unfold slack.
  set (x := IZR k * fval step) in *.
  replace (fval ref - x) with ((fval ref - rnd x) + (x * eps + eta)) by (rewrite Hr; ring).
  eapply Rle_lt_trans; [apply Rabs_triang|].
  apply Rplus_lt_le_compat.
  - eapply Rlt_le_trans; [exact Hd|apply c1e8_next_bound].
  - eapply Rle_trans; [apply Rabs_triang|]. apply Rplus_le_compat; [|exact Heta].
    rewrite Rabs_mult, Rmult_comm. apply Rmult_le_compat_r; [apply Rabs_pos|exact Heps].
Qed.

Lemma reference_index_err ref step e : reference_index ref step = Err e -> e = EValue.
Proof.
  unfold reference_index. destruct (round_half_even _); [|congruence].
  cbv zeta. destruct (_ <=? _)%float; congruence.
Qed.

(** A level farther than 1e-8 (+ slack) from EVERY multiple of the step is refused. *)
Theorem off_grid_refused : forall (ref step : float),
  finite ref -> finite step -> 0 < fval step ->
  Rabs (fval ref) <= bpow radix2 51 * fval step ->
  (forall k : Z, (Z.abs k <= 2 ^ 51)%Z ->
     1.0000000000000002e-8 + slack k step <= Rabs (fval ref - IZR k * fval step)) ->
  reference_index ref step = Err EValue.
Proof.
  intros ref step Fr Fs Spos Hmag Hfar.
  destruct (reference_index ref step) as [k|e] eqn:E.
  - exfalso. destruct (accepted_near_multiple ref step k Fr Fs Spos Hmag E) as (Hk & _ & Hn).
    specialize (Hfar k Hk). lra.
  - f_equal. eapply reference_index_err. exact E.
Qed.

(** * 7. Acceptance of any float close enough to a multiple (covers references
      typed as decimal text, e.g. 0.3 on a 0.1 grid, which is not the float
      product 3*0.1): the converse of [accepted_near_multiple]. *)

Lemma c1e8_ge : 1e-8 <= fval c1e8.
Proof.
  destruct (fval_finite_SF _ _ _ _ c1e8_SF) as [_ ->]. simpl. lra.
Qed.

Lemma sub_leb_close a b :
  finite a -> finite b -> Rabs (fval a - fval b) <= fval c1e8 ->
  ((abs (a - b)) <=? c1e8)%float = true.
Proof.
  intros Fa Fb Hab. rewrite leb_equiv, abs_equiv, sub_equiv.
  assert (Gc : generic_format radix2 fexp64 (fval c1e8)) by apply generic_format_B2R.
  assert (Hc : fval c1e8 <= bpow radix2 1023).
  { destruct (fval_finite_SF _ _ _ _ c1e8_SF) as [_ ->]. simpl cond_Zopp.
    apply Rle_trans with (bpow radix2 53 * bpow radix2 (-79)).
    - apply Rmult_le_compat_r; [apply bpow_ge_0|].
      change (bpow radix2 53) with (IZR (2 ^ 53)). apply IZR_le. lia.
    - rewrite <- bpow_plus. apply bpow_le. lia. }
  pose proof (Bminus_correct prec emax Hp Hm mode_NE (Prim2B a) (Prim2B b) Fa Fb) as H.
  fold (fval a) in H. fold (fval b) in H.
  rewrite (no_overflow _ (Rle_trans _ _ _ Hab Hc)) in H.
  destruct H as (H1 & H2 & _).
  destruct c1e8_pos as [Fc _].
  rewrite Bleb_correct; [|rewrite is_finite_Babs; exact H2|exact Fc].
  rewrite B2R_Babs, H1. apply Rle_bool_true.
  apply abs_round_le_generic; [apply fexp64_valid|apply rnd_valid|exact Gc|exact Hab].
Qed.

Theorem near_multiple_accepted : forall (ref step : float) (k : Z),
  finite ref -> finite step -> 0 < fval step ->
  (Z.abs k < 2 ^ 50)%Z ->
  Rabs (fval ref - IZR k * fval step) <= / 4 * fval step ->
  Rabs (fval ref - IZR k * fval step) + slack k step <= 1e-8 ->
  reference_index ref step = Ok k.
Proof.
  intros ref step k Fr Fs Spos Hk Hq4 Hd.
  set (s := fval step) in *. set (r := fval ref) in *.
  unfold slack in Hd. fold s in Hd. set (x := IZR k * s) in *.
  rewrite bpow_m53 in Hd.
  assert (Heta : 0 < bpow radix2 (-1075)) by apply bpow_gt_0.
  assert (Hx : Rabs x <= bpow radix2 1023).
  { apply Rle_trans with (bpow radix2 53 * 1e-8).
    - pose proof (Rabs_pos (r - x)). unfold u53 in Hd.
      change (bpow radix2 53) with 9007199254740992. lra.
    - apply Rle_trans with (bpow radix2 53 * bpow radix2 0).
      + apply Rmult_le_compat_l; [apply bpow_ge_0|]. simpl. lra.
      + rewrite <- bpow_plus. apply bpow_le. lia. }
  destruct (float_of_Z_exact k ltac:(lia)) as [Fk Vk].
  (* the quotient *)
  assert (Hquo : Rabs (r / s - IZR k) <= / 4).
  { replace (r / s - IZR k) with ((r - x) * / s) by (unfold x; field; lra).
    rewrite Rabs_mult, (Rabs_pos_eq (/ s)) by (left; apply Rinv_0_lt_compat; exact Spos).
    apply Rmult_le_reg_r with s; [exact Spos|].
    rewrite Rmult_assoc, Rinv_l, Rmult_1_r by lra. exact Hq4. }
  assert (HK : Rabs (IZR k) <= 1125899906842623).
  { rewrite <- abs_IZR. apply IZR_le. lia. }
  assert (Hquo50 : Rabs (r / s) <= bpow radix2 50).
  { replace (r / s) with ((r / s - IZR k) + IZR k) by ring.
    eapply Rle_trans; [apply Rabs_triang|].
    change (bpow radix2 50) with 1125899906842624. lra. }
  destruct (div_correct ref step Fr ltac:(fold s; lra)) as [Fq Vq].
  { fold r. fold s. eapply Rle_trans; [exact Hquo50|]. apply bpow_le. lia. }
  fold r in Vq. fold s in Vq.
  assert (Herr : Rabs (fval (ref / step)%float - r / s) <= / 8).
  { rewrite Vq.
    eapply Rle_trans; [apply error_le_half_ulp; apply fexp64_valid|].
    apply Rle_trans with (/ 2 * Ulp.ulp radix2 fexp64 (bpow radix2 50)).
    - apply Rmult_le_compat_l; [lra|]. apply ulp_le; [apply fexp64_valid| |].
      + apply FLT.FLT_exp_monotone.
      + rewrite (Rabs_pos_eq (bpow radix2 50)) by apply bpow_ge_0. exact Hquo50.
    - rewrite ulp_bpow. simpl. lra. }
  assert (Hclose : Rabs (fval (ref / step)%float - IZR k) < / 2).
  { replace (fval (ref / step)%float - IZR k)
      with ((fval (ref / step)%float - r / s) + (r / s - IZR k)) by ring.
    eapply Rle_lt_trans; [apply Rabs_triang|]. lra. }
  destruct (rhe_finite_some _ Fq) as (z & Hz).
  assert (z = k) by (eapply rhe_unique; eassumption). subst z.
  unfold reference_index. rewrite Hz. cbv zeta.
  (* the product and the difference *)
  destruct (mul_correct (float_of_Z k) step Fk Fs) as [Fp Vp].
  { rewrite Vk. exact Hx. }
  rewrite Vk in Vp. fold s in Vp. fold x in Vp.
  destruct (error_N_FLT radix2 (-1074) 53 ltac:(lia) (fun t => negb (Z.even t)) x)
    as (eps & eta & Heps & Heta' & _ & Hr).
  change (round radix2 (FLT_exp (-1074) 53) (Znearest (fun t => negb (Z.even t))) x)
    with (rnd x) in Hr.
  rewrite half_bpow_m1074 in Heta'.
  replace (/ 2 * bpow radix2 (- (53) + 1)) with u53 in Heps by (unfold u53; simpl; lra).
  change 0x1.5798ee2308c3ap-27%float with c1e8.
  rewrite sub_leb_close; [reflexivity|exact Fr|exact Fp|].
  fold r. rewrite Vp, Hr.
  replace (r - (x * (1 + eps) + eta)) with ((r - x) + - (x * eps + eta)) by ring.
  eapply Rle_trans; [apply Rabs_triang|]. rewrite Rabs_Ropp.
  apply Rle_trans with 1e-8; [|apply c1e8_ge].
  eapply Rle_trans; [|exact Hd].
  apply Rplus_le_compat_l.
  eapply Rle_trans; [apply Rabs_triang|]. apply Rplus_le_compat; [|exact Heta'].
  rewrite Rabs_mult, Rmult_comm. apply Rmult_le_compat_r; [apply Rabs_pos|exact Heps].
Qed.

(** * 8. Non-vacuity: concrete inputs meeting the hypotheses; tightness of 2^51 *)

Ltac fval_of f F V :=
  let v := eval vm_compute in (Prim2SF f) in
  let E := fresh "E" in
  assert (E : Prim2SF f = v) by (vm_compute; reflexivity);
  destruct (fval_finite_SF _ _ _ _ E) as [F V]; clear E; simpl cond_Zopp in V.

Definition f0_1 : float := 0x1.999999999999ap-4%float.   (* 0.1 *)
Definition f0_3 : float := 0x1.3333333333333p-2%float.   (* 0.3 as decimal text *)
Definition f2_5 : float := 0x1.4p+1%float.               (* 2.5 *)

Example general_hyps_example :
  finite f0_1 /\ bpow radix2 (-1022) <= fval f0_1 /\ (Z.abs 12345 < 2 ^ 51)%Z /\
  IZR (Z.abs 12345) * fval f0_1 <= bpow radix2 1023 /\
  reference_index (PrimFloat.mul (float_of_Z 12345) f0_1) f0_1 = Ok 12345%Z.
Proof.
  destruct (general_hyps_of_float_hyps f0_1 12345) as (F & B1 & B2);
    [vm_compute; reflexivity|vm_compute; reflexivity|lia|].
  split; [exact F|]. split; [exact B1|]. split; [lia|]. split; [exact B2|].
  vm_compute. reflexivity.
Qed.

(** the bound 2^51 cannot be raised to 2^52: an odd k between them whose
    product with 0.1, divided by 0.1, rounds to k + 1/2, hence to k + 1 *)
Example bound_2p51_tight :
  (2 ^ 51 < 4007345515705267 < 2 ^ 52)%Z /\
  reference_index (PrimFloat.mul (float_of_Z 4007345515705267) f0_1) f0_1 = Err EValue.
Proof. split; [lia|vm_compute; reflexivity]. Qed.

Lemma bpow_m1075_small : bpow radix2 (-1075) <= u53.
Proof. rewrite <- bpow_m53. apply bpow_le. lia. Qed.

Example near_multiple_example :
  finite f0_3 /\ finite f0_1 /\ 0 < fval f0_1 /\ (Z.abs 3 < 2 ^ 50)%Z /\
  Rabs (fval f0_3 - IZR 3 * fval f0_1) <= / 4 * fval f0_1 /\
  Rabs (fval f0_3 - IZR 3 * fval f0_1) + slack 3 f0_1 <= 1e-8 /\
  f0_3 <> PrimFloat.mul (float_of_Z 3) f0_1 /\
  reference_index f0_3 f0_1 = Ok 3%Z.
Proof.
  fval_of f0_3 F3 V3. fval_of f0_1 F1 V1. unfold slack. rewrite bpow_m53.
  pose proof bpow_m1075_small as Hs. pose proof (bpow_gt_0 radix2 (-1075)) as Hs'.
  rewrite V3, V1. unfold u53 in *. simpl bpow.
  split; [exact F3|]. split; [exact F1|]. split; [lra|]. split; [lia|].
  split; [apply Rabs_le; lra|].
  split; [unfold Rabs; destruct (Rcase_abs _); destruct (Rcase_abs _); lra|].
  split; [|vm_compute; reflexivity].
  intro H. apply (f_equal Prim2SF) in H. vm_compute in H. discriminate.
Qed.

Example accepted_near_example :
  finite f0_3 /\ finite f0_1 /\ 0 < fval f0_1 /\
  Rabs (fval f0_3) <= bpow radix2 51 * fval f0_1 /\
  reference_index f0_3 f0_1 = Ok 3%Z.
Proof.
  fval_of f0_3 F3 V3. fval_of f0_1 F1 V1. rewrite V3, V1. simpl bpow.
  split; [exact F3|]. split; [exact F1|]. split; [lra|].
  split; [apply Rabs_le; lra|]. vm_compute. reflexivity.
Qed.

Example off_grid_example :
  finite f2_5 /\ finite 1%float /\ 0 < fval 1%float /\
  Rabs (fval f2_5) <= bpow radix2 51 * fval 1%float /\
  (forall k : Z, (Z.abs k <= 2 ^ 51)%Z ->
     1.0000000000000002e-8 + slack k 1%float <= Rabs (fval f2_5 - IZR k * fval 1%float)) /\
  reference_index f2_5 1%float = Err EValue.
Proof.
  fval_of f2_5 F25 V25. fval_of 1%float F1 V1.
  assert (E25 : fval f2_5 = 2.5) by (rewrite V25; simpl; lra).
  assert (E1 : fval 1%float = 1) by (rewrite V1; simpl; lra).
  rewrite E25, E1.
  split; [exact F25|]. split; [exact F1|]. split; [lra|].
  split; [simpl bpow; apply Rabs_le; lra|].
  split; [|vm_compute; reflexivity].
  - intros k _. unfold slack. rewrite E1, bpow_m53.
    pose proof bpow_m1075_small as Hs. unfold u53 in *.
    destruct (Z_le_gt_dec k 2) as [Hk|Hk].
    + assert (IZR k <= 2) by (apply IZR_le; exact Hk).
      unfold Rabs. destruct (Rcase_abs _); destruct (Rcase_abs _); lra.
    + assert (3 <= IZR k) by (apply IZR_le; lia).
      unfold Rabs. destruct (Rcase_abs _); destruct (Rcase_abs _); lra.
Qed.
