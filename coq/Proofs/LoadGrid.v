(** The time grid (populate_grid_time) and the copy of rainfall /
    evapotranspiration onto its steps (populate_rainfall_intensity,
    populate_evapotranspiration). *)
From Spowtd Require Import Model.Load Proofs.LoadStage.
From Coq Require Import Lia Sorted Permutation.
Local Open Scope Z_scope.

(** ** min / max of the water-level epochs *)

Definition is_lo (l : list Z) (m : Z) : Prop := In m l /\ forall x, In x l -> m <= x.
Definition is_hi (l : list Z) (m : Z) : Prop := In m l /\ forall x, In x l -> x <= m.

Lemma zmin_l_spec : forall l a, is_lo (a :: l) (zmin_l a l).
Proof.
  induction l as [|b l IH]; intros a; simpl.
  - split; [left; reflexivity|]. intros x [<-|[]]. lia.
  - destruct (IH (Z.min a b)) as [Hin Hle]. split.
    + destruct Hin as [H|H]; [|right; right; assumption]. rewrite <- H.
      destruct (Z.min_spec a b) as [[_ ->]|[_ ->]]; [left|right; left]; reflexivity.
    + intros x [<-|[<-|H]].
      * specialize (Hle (Z.min a b) (or_introl eq_refl)). lia.
      * specialize (Hle (Z.min a b) (or_introl eq_refl)). lia.
      * apply Hle. right; assumption.
Qed.

Lemma zmax_l_spec : forall l a, is_hi (a :: l) (zmax_l a l).
Proof.
  induction l as [|b l IH]; intros a; simpl.
  - split; [left; reflexivity|]. intros x [<-|[]]. lia.
  - destruct (IH (Z.max a b)) as [Hin Hle]. split.
    + destruct Hin as [H|H]; [|right; right; assumption]. rewrite <- H.
      destruct (Z.max_spec a b) as [[_ ->]|[_ ->]]; [right; left|left]; reflexivity.
    + intros x [<-|[<-|H]].
      * specialize (Hle (Z.max a b) (or_introl eq_refl)). lia.
      * specialize (Hle (Z.max a b) (or_introl eq_refl)). lia.
      * apply Hle. right; assumption.
Qed.

Lemma is_lo_unique : forall l a b, is_lo l a -> is_lo l b -> a = b.
Proof. intros l a b [Ha La] [Hb Lb]. specialize (La _ Hb). specialize (Lb _ Ha). lia. Qed.

Lemma is_hi_unique : forall l a b, is_hi l a -> is_hi l b -> a = b.
Proof. intros l a b [Ha La] [Hb Lb]. specialize (La _ Hb). specialize (Lb _ Ha). lia. Qed.

Lemma wl_span_some : forall wl_t lo hi, wl_span wl_t = Some (lo, hi) ->
  is_lo (keys wl_t) lo /\ is_hi (keys wl_t) hi.
Proof.
  intros wl_t lo hi. unfold wl_span, keys. destruct (map fst wl_t) as [|a t]; [discriminate|].
  intros E. inversion E; subst. split; [apply zmin_l_spec|apply zmax_l_spec].
Qed.

Lemma wl_span_none : forall wl_t, wl_span wl_t = None -> wl_t = [].
Proof. intros [|r t]; [reflexivity|]. unfold wl_span. simpl. discriminate. Qed.

(** ** Arithmetic progressions *)

Fixpoint arith (a d : Z) (n : nat) : list Z :=
  match n with O => [] | S k => a :: arith (a + d) d k end.

Lemma arith_length : forall n a d, length (arith a d n) = n.
Proof. induction n; intros; simpl; [reflexivity|]. rewrite IHn. reflexivity. Qed.

Lemma arith_In : forall n a d x, In x (arith a d n) <->
  exists k, 0 <= k < Z.of_nat n /\ x = a + k * d.
Proof.
  induction n as [|n IH]; intros a d x; simpl.
  - split; [intros []|]. intros (k & Hk & _). lia.
  - rewrite IH. split.
    + intros [<-|(k & Hk & ->)]; [exists 0; split; lia|]. exists (k + 1). split; lia.
    + intros (k & Hk & ->). destruct (Z.eq_dec k 0) as [->|Hne]; [left; lia|].
      right. exists (k - 1). split; lia.
Qed.

Lemma arith_nth : forall n a d i, (i < n)%nat -> nth i (arith a d n) 0 = a + Z.of_nat i * d.
Proof.
  induction n as [|n IH]; intros a d i Hi; [lia|]. destruct i as [|i]; simpl arith; simpl nth.
  - lia.
  - rewrite IH by lia. lia.
Qed.

Lemma arith_snoc : forall n a d, arith a d n ++ [a + Z.of_nat n * d] = arith a d (S n).
Proof.
  induction n as [|n IH]; intros a d.
  - simpl. f_equal. lia.
  - change (arith a d (S n)) with (a :: arith (a + d) d n).
    change (arith a d (S (S n))) with (a :: arith (a + d) d (S n)).
    rewrite <- app_comm_cons. f_equal. rewrite <- IH.
    replace (a + Z.of_nat (S n) * d) with (a + d + Z.of_nat n * d) by lia. reflexivity.
Qed.

Lemma arith_last : forall n a d, last (arith a d (S n)) 0 = a + Z.of_nat n * d.
Proof. intros. rewrite <- arith_snoc. apply last_last. Qed.

Lemma arith_incr : forall n a d, 0 < d -> incr (arith a d n).
Proof.
  induction n as [|n IH]; intros a d Hd; simpl; [constructor|].
  apply incr_cons; [apply IH; assumption|]. rewrite Forall_forall. intros x Hx.
  apply arith_In in Hx. destruct Hx as (k & Hk & ->). nia.
Qed.

Lemma arith_removelast : forall n a d, removelast (arith a d (S n)) = arith a d n.
Proof. intros. rewrite <- arith_snoc. apply removelast_last. Qed.

(** ** Uniform step *)

Lemma diffs_const_arith : forall g a d, Forall (eq d) (diffs (a :: g)) ->
  a :: g = arith a d (S (length g)).
Proof.
  induction g as [|b g IH]; intros a d H.
  - reflexivity.
  - change (diffs (a :: b :: g)) with ((b - a) :: diffs (b :: g)) in H.
    inversion H as [|x l Hx Hl]; subst.
    change (arith a (b - a) (S (length (b :: g)))) with (a :: arith (a + (b - a)) (b - a) (S (length g))).
    f_equal. replace (a + (b - a)) with b by lia. apply IH; assumption.
Qed.

Lemma diffs_arith : forall n a d, diffs (arith a d (S n)) = repeat d n.
Proof.
  induction n as [|n IH]; intros a d; [reflexivity|].
  change (arith a d (S (S n))) with (a :: arith (a + d) d (S n)).
  change (arith (a + d) d (S n)) with ((a + d) :: arith (a + d + d) d n).
  change (diffs (a :: (a + d) :: arith (a + d + d) d n))
    with ((a + d - a) :: diffs ((a + d) :: arith (a + d + d) d n)).
  change ((a + d) :: arith (a + d + d) d n) with (arith (a + d) d (S n)). rewrite IH.
  simpl. f_equal. lia.
Qed.

(** A list is uniformly spaced when it is an arithmetic progression with at
    least two terms. *)
Definition uniform (g : list Z) (d : Z) : Prop :=
  exists a n, (2 <= n)%nat /\ g = arith a d n.

Lemma forallb_eqb_Forall : forall d l, forallb (Z.eqb d) l = true <-> Forall (eq d) l.
Proof.
  intros d l. rewrite forallb_forall, Forall_forall. split; intros H x Hx.
  - apply Z.eqb_eq. apply H; assumption.
  - apply Z.eqb_eq. apply H; assumption.
Qed.

Lemma uniform_step_ok : forall g d, uniform_step g = Ok d -> uniform g d.
Proof.
  intros g d. unfold uniform_step. destruct g as [|a [|b g]]; try (simpl; intros H; discriminate H).
  change (diffs (a :: b :: g)) with ((b - a) :: diffs (b :: g)). cbv beta iota.
  destruct (forallb (Z.eqb (b - a)) (diffs (b :: g))) eqn:E; [|intros H; discriminate H].
  intros H. inversion H; subst. exists a, (S (length (b :: g))). split; [simpl; lia|].
  apply diffs_const_arith. change (diffs (a :: b :: g)) with ((b - a) :: diffs (b :: g)).
  constructor; [reflexivity|]. apply forallb_eqb_Forall. assumption.
Qed.

Lemma uniform_step_complete : forall g d, uniform g d -> uniform_step g = Ok d.
Proof.
  intros g d (a & n & Hn & ->). destruct n as [|[|n]]; try lia.
  unfold uniform_step. rewrite diffs_arith. simpl repeat. cbv beta iota.
  assert (F : forallb (Z.eqb d) (repeat d n) = true).
  { apply forallb_forall. intros x Hx. apply repeat_spec in Hx. subst. apply Z.eqb_refl. }
  rewrite F. reflexivity.
Qed.

Lemma uniform_step_err : forall g e, uniform_step g = Err e -> e = EValue /\ forall d, ~ uniform g d.
Proof.
  intros g e E. split.
  - unfold uniform_step in E. destruct (diffs g) as [|d r]; [congruence|].
    destruct (forallb (Z.eqb d) r); congruence.
  - intros d U. apply uniform_step_complete in U. congruence.
Qed.

Lemma uniform_incr_pos : forall g d, uniform g d -> incr g -> 0 < d.
Proof.
  intros g d (a & n & Hn & ->) Hs. destruct n as [|[|n]]; try lia.
  simpl in Hs. apply incr_cons_inv in Hs. destruct Hs as [_ F]. inversion F; subst. lia.
Qed.

(** ** The grid *)

Definition in_span (wl_keys : list Z) (e : Z) : Prop :=
  exists lo hi, is_lo wl_keys lo /\ is_hi wl_keys hi /\ lo <= e <= hi.

Lemma grid_rain_epochs_spec : forall rain_t wl_t, incr (keys rain_t) ->
  incr (grid_rain_epochs rain_t wl_t) /\
  forall e, In e (grid_rain_epochs rain_t wl_t) <-> In e (keys rain_t) /\ in_span (keys wl_t) e.
Proof.
  intros rain_t wl_t Hs. unfold grid_rain_epochs. destruct (wl_span wl_t) as [[lo hi]|] eqn:E.
  - apply wl_span_some in E. destruct E as [Hlo Hhi]. split; [apply incr_filter; assumption|].
    intros e. rewrite filter_In, andb_true_iff, !Z.leb_le. unfold keys. split.
    + intros [H1 H2]. split; [assumption|]. exists lo, hi. tauto.
    + intros [H1 (lo' & hi' & Hlo' & Hhi' & Hr)]. split; [assumption|].
      rewrite (is_lo_unique _ _ _ Hlo Hlo'), (is_hi_unique _ _ _ Hhi Hhi'). assumption.
  - apply wl_span_none in E. subst. split; [constructor|]. intros e. split; [intros []|].
    intros [_ (lo & hi & [[] _] & _)].
Qed.

(** What populate_grid_time returns when it returns. *)
Lemma populate_grid_time_ok : forall rain_t wl_t tg step,
  populate_grid_time rain_t wl_t = Ok (tg, step) -> incr (keys rain_t) ->
  let g := grid_rain_epochs rain_t wl_t in
  exists a n, (2 <= n)%nat /\ 0 < step /\ g = arith a step n /\ tg = arith a step (S n)
              /\ tg = g ++ [last_Z g + step].
Proof.
  intros rain_t wl_t tg step E Hs g. unfold populate_grid_time in E. fold g in E.
  destruct (uniform_step g) as [d|e] eqn:U; simpl in E; [|discriminate]. inversion E; subst d tg.
  pose proof (uniform_step_ok _ _ U) as Hu.
  assert (Hg : incr g) by (apply grid_rain_epochs_spec; assumption).
  pose proof (uniform_incr_pos _ _ Hu Hg) as Hpos.
  destruct Hu as (a & n & Hn & Hga). exists a, n.
  assert (Htg : g ++ [last_Z g + step] = arith a step (S n)).
  { rewrite Hga. destruct n as [|n]; [lia|]. unfold last_Z. rewrite arith_last.
    rewrite <- (arith_snoc (S n)).
    replace (a + Z.of_nat n * step + step) with (a + Z.of_nat (S n) * step) by lia. reflexivity. }
  split; [assumption|]. split; [assumption|]. split; [assumption|]. split; [assumption|reflexivity].
Qed.

Lemma populate_grid_time_err : forall rain_t wl_t e,
  populate_grid_time rain_t wl_t = Err e ->
  e = EValue /\ forall d, ~ uniform (grid_rain_epochs rain_t wl_t) d.
Proof.
  intros rain_t wl_t e E. unfold populate_grid_time in E.
  destruct (uniform_step (grid_rain_epochs rain_t wl_t)) as [d|e'] eqn:U; simpl in E; [discriminate|].
  inversion E; subst. apply uniform_step_err; assumption.
Qed.

(** ** Copy of the staged rows onto the grid steps *)

Lemma mem_Z_In : forall x l, mem_Z x l = true <-> In x l.
Proof.
  intros x l. induction l as [|y l IH]; simpl; [split; [discriminate|intros []]|].
  rewrite orb_true_iff, Z.eqb_eq, IH. split; intros [H|H]; auto.
Qed.

Lemma time_grid_minus2 : forall a d n, (1 <= n)%nat ->
  nth (length (arith a d (S n)) - 2) (arith a d (S n)) 0 = a + (Z.of_nat n - 1) * d.
Proof.
  intros a d n Hn. rewrite arith_length. rewrite arith_nth by lia.
  replace (Z.of_nat (S n - 2)) with (Z.of_nat n - 1) by lia. reflexivity.
Qed.

(** Being a start of a grid step = being a grid instant not after time_grid[-2]. *)
Lemma step_start_iff : forall a d n e, 0 < d -> (1 <= n)%nat ->
  (mem_Z e (arith a d (S n)) && (e <=? nth (length (arith a d (S n)) - 2) (arith a d (S n)) 0) = true
   <-> In e (arith a d n)).
Proof.
  intros a d n e Hd Hn. rewrite andb_true_iff, mem_Z_In, Z.leb_le, time_grid_minus2 by assumption.
  rewrite !arith_In. split.
  - intros [(k & Hk & ->) Hle]. exists k. split; [nia|reflexivity].
  - intros (k & Hk & ->). split; [exists k; split; [lia|reflexivity]|nia].
Qed.

Definition on_steps (g : list Z) (step : Z) (staged : list row) : list step_row :=
  map (fun r => (fst r, fst r + step, snd r)) (filter (fun r => mem_Z (fst r) g) staged).

Lemma regrid_select_eq : forall staged a d n, 0 < d -> (1 <= n)%nat ->
  regrid_select staged (arith a d (S n)) d = on_steps (arith a d n) d staged.
Proof.
  intros staged a d n Hd Hn. unfold regrid_select, on_steps. f_equal. apply filter_ext.
  intros r. apply eq_true_iff_eq. rewrite step_start_iff by assumption. rewrite mem_Z_In. reflexivity.
Qed.

Lemma on_steps_fk : forall staged a d n, 0 < d ->
  forallb (step_row_ok (arith a d (S n))) (on_steps (arith a d n) d staged) = true.
Proof.
  intros staged a d n Hd. apply forallb_forall. intros [[f t] v] Hin. unfold on_steps in Hin.
  apply in_map_iff in Hin. destruct Hin as (r & Er & Hr). inversion Er; subst. clear Er.
  apply filter_In in Hr. destruct Hr as [_ Hm]. apply mem_Z_In in Hm. apply arith_In in Hm.
  destruct Hm as (k & Hk & Ek). unfold step_row_ok. rewrite !andb_true_iff, !mem_Z_In, Z.ltb_lt, !arith_In.
  repeat split.
  - lia.
  - exists k. split; [lia|assumption].
  - exists (k + 1). split; [lia|]. rewrite Ek. lia.
Qed.

(** regrid never trips over the CHECK / FOREIGN KEY constraints. *)
Lemma regrid_ok : forall staged a d n, 0 < d -> (1 <= n)%nat ->
  regrid staged (arith a d (S n)) d = Ok (on_steps (arith a d n) d staged).
Proof.
  intros staged a d n Hd Hn. unfold regrid. rewrite regrid_select_eq by assumption.
  rewrite on_steps_fk by assumption. reflexivity.
Qed.

Lemma on_steps_In : forall g step staged f t v,
  In (f, t, v) (on_steps g step staged) <-> In (f, v) staged /\ In f g /\ t = f + step.
Proof.
  intros g step staged f t v. unfold on_steps. rewrite in_map_iff. split.
  - intros ([e w] & E & Hr). simpl in E. inversion E; subst. apply filter_In in Hr.
    destruct Hr as [Hr Hm]. apply mem_Z_In in Hm. simpl in Hm. tauto.
  - intros (H1 & H2 & ->). exists (f, v). split; [reflexivity|]. apply filter_In. split; [assumption|].
    apply mem_Z_In. assumption.
Qed.

Lemma map_fst_filter_keys : forall (f : Z -> bool) (l : list row),
  map fst (filter (fun r => f (fst r)) l) = filter f (map fst l).
Proof.
  intros f l. induction l as [|r l IH]; simpl; [reflexivity|].
  destruct (f (fst r)); simpl; rewrite IH; reflexivity.
Qed.

(** One row per grid step, in time order, when every step start is staged. *)
Lemma on_steps_from_epochs : forall g step staged, incr g -> incr (keys staged) ->
  (forall e, In e g -> In e (keys staged)) ->
  map (fun r : step_row => fst (fst r)) (on_steps g step staged) = g.
Proof.
  intros g step staged Hg Hs Hall. unfold on_steps. rewrite map_map.
  change (map fst (filter (fun r : row => (fun e => mem_Z e g) (fst r)) staged) = g).
  rewrite map_fst_filter_keys. apply incr_ext; [apply incr_filter; assumption|assumption|].
  intros x. rewrite filter_In, mem_Z_In. split; [tauto|]. intros H. split; [apply Hall|]; assumption.
Qed.

(** ** The ET completeness check *)

Lemma et_missing_nil : forall et_t tg, et_missing et_t tg = [] <->
  forall e, In e tg -> In e (keys et_t).
Proof.
  intros et_t tg. unfold et_missing. split.
  - intros H e He. destruct (mem_Z e (map fst et_t)) eqn:M; [apply mem_Z_In; assumption|].
    assert (In e (filter (fun e => negb (mem_Z e (map fst et_t))) tg)) as Hin
      by (apply filter_In; split; [assumption|rewrite M; reflexivity]).
    rewrite H in Hin. destruct Hin.
  - intros H. induction tg as [|e tg IH]; simpl; [reflexivity|].
    assert (M : mem_Z e (map fst et_t) = true) by (apply mem_Z_In; apply H; left; reflexivity).
    rewrite M. simpl. apply IH. intros x Hx. apply H. right; assumption.
Qed.

Lemma populate_et_ok : forall et_t a d n, 0 < d -> (1 <= n)%nat ->
  (forall e, In e (arith a d (S n)) -> In e (keys et_t)) ->
  populate_et et_t (arith a d (S n)) d = Ok (on_steps (arith a d n) d et_t).
Proof.
  intros et_t a d n Hd Hn Hall. unfold populate_et.
  rewrite (proj2 (et_missing_nil _ _) Hall). apply regrid_ok; assumption.
Qed.

Lemma populate_et_err : forall et_t a d n e, 0 < d -> (1 <= n)%nat ->
  populate_et et_t (arith a d (S n)) d = Err e ->
  e = EValue /\ exists g, In g (arith a d (S n)) /\ ~ In g (keys et_t).
Proof.
  intros et_t a d n e Hd Hn E. unfold populate_et in E.
  destruct (et_missing et_t (arith a d (S n))) as [|g l] eqn:M.
  - rewrite regrid_ok in E by assumption. discriminate.
  - inversion E; subst. split; [reflexivity|]. exists g.
    assert (Hin : In g (et_missing et_t (arith a d (S n)))) by (rewrite M; left; reflexivity).
    unfold et_missing in Hin. apply filter_In in Hin. destruct Hin as [H1 H2]. split; [assumption|].
    intro H. apply mem_Z_In in H. unfold keys in H. rewrite H in H2. discriminate.
Qed.
