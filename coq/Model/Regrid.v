(** Level crossings of a piecewise-linear record: model of spowtd/regrid.py
    (function [regrid]) and of fit_offsets.build_head_mapping, in scaled units
    (the ordinates [Y] are already divided by the step; the float layer that
    produces them is Model/RegridFloat.v).  Exact rationals; definitions only.

    regrid.py, for i in range(len(Y) - 1):
        start, stop = ceil(Y[i]), ceil(Y[i+1])
        targets = range(start, stop)            if stop > start
                  reversed(range(stop, start))  otherwise
        for k in targets: yield (k, root of  interpolant - k  on [x[i], x[i+1]])
    The root finder (scipy brentq on scipy interp1d) is an oracle for the root
    of a linear function; the model returns that root exactly. *)
From Spowtd Require Export Model.Util.
From Coq Require Export QArith Qround Qabs Qminmax.

(** Python [range(a, b)] over the integers. *)
Definition zrange (a b : Z) : list Z :=
  map (fun i => (a + Z.of_nat i)%Z) (seq 0 (Z.to_nat (b - a))).

(** The levels visited between two samples whose ceilings are [c0], [c1]. *)
Definition targets (c0 c1 : Z) : list Z :=
  if (c1 >? c0)%Z then zrange c0 c1 else rev (zrange c1 c0).

(** Abscissa at which the straight line through (x0,Y0), (x1,Y1) takes the value k. *)
Definition cross (x0 Y0 x1 Y1 : Q) (k : Z) : Q :=
  x0 + (inject_Z k - Y0) * (x1 - x0) / (Y1 - Y0).

(** What one pair of consecutive samples yields. *)
Definition seg_out (p0 p1 : Q * Q) : list (Z * Q) :=
  map (fun k => (k, cross (fst p0) (snd p0) (fst p1) (snd p1) k))
      (targets (Qceiling (snd p0)) (Qceiling (snd p1))).

(** Consecutive pairs of samples. *)
Fixpoint segments {A} (l : list A) : list (A * A) :=
  match l with
  | a :: ((b :: _) as t) => (a, b) :: segments t
  | _ => []
  end.

(** The whole series, each item tagged with the index of its pair. *)
Fixpoint regrid_from (i : nat) (pts : list (Q * Q)) : list (nat * (Z * Q)) :=
  match pts with
  | p0 :: ((p1 :: _) as t) => map (pair i) (seg_out p0 p1) ++ regrid_from (S i) t
  | _ => []
  end.
Definition regrid_tagged (pts : list (Q * Q)) : list (nat * (Z * Q)) := regrid_from 0 pts.

(** The items [regrid] yields, in order: (level, position). *)
Definition regrid_Q (pts : list (Q * Q)) : list (Z * Q) := map snd (regrid_tagged pts).

(** Items of pair [i] only. *)
Definition items_of_pair (i : nat) (l : list (nat * (Z * Q))) : list (Z * Q) :=
  map snd (filter (fun it => Nat.eqb (fst it) i) l).

(** The straight-line interpolant through the samples (np.interp / interp1d
    'linear' on increasing abscissae): the first pair whose abscissae enclose t. *)
Fixpoint interp (pts : list (Q * Q)) (t : Q) : option Q :=
  match pts with
  | p0 :: ((p1 :: _) as tl) =>
      if Qle_bool (fst p0) t && Qle_bool t (fst p1)
      then Some (snd p0 + (t - fst p0) * (snd p1 - snd p0) / (fst p1 - fst p0))
      else interp tl t
  | _ => None
  end.

(** ** build_head_mapping *)

(** Python dict with insertion order, values are lists:
    [d.setdefault(k, []).append(v)]. *)
Fixpoint dict_append {V} (k : Z) (v : V) (d : list (Z * list V)) : list (Z * list V) :=
  match d with
  | [] => [(k, [v])]
  | (k', vs) :: t =>
      if Z.eqb k k' then (k', vs ++ [v]) :: t else (k', vs) :: dict_append k v t
  end.

Definition dict_lookup {V} (k : Z) (d : list (Z * list V)) : list V :=
  match find (fun e => Z.eqb k (fst e)) d with
  | Some e => snd e
  | None => []
  end.

(** all_times of one series: level -> the positions at which it is crossed. *)
Definition group_items {V} (items : list (Z * V)) : list (Z * list V) :=
  fold_left (fun d it => dict_append (fst it) (snd it) d) items [].

(** One series contributes (series id, summary of its crossings) per level. *)
Definition add_series {V W} (summ : list V -> W) (d : list (Z * list (nat * W)))
  (sid : nat) (items : list (Z * V)) : list (Z * list (nat * W)) :=
  fold_left (fun d e => dict_append (fst e) (sid, summ (snd e)) d) (group_items items) d.

Fixpoint head_mapping_from {V W} (summ : list V -> W) (sid : nat)
  (all_items : list (list (Z * V))) (d : list (Z * list (nat * W))) : list (Z * list (nat * W)) :=
  match all_items with
  | [] => d
  | items :: t => head_mapping_from summ (S sid) t (add_series summ d sid items)
  end.

(** Generic in the per-crossing payload [V] and in the summary [summ] (the
    check instantiates V with (position, tolerance)). *)
Definition head_mapping_gen {V W} (summ : list V -> W) (all_items : list (list (Z * V)))
  : list (Z * list (nat * W)) := head_mapping_from summ 0 all_items [].

Definition qsum (l : list Q) : Q := fold_right Qplus 0 l.
(** np.mean *)
Definition qmean (l : list Q) : Q := qsum l / inject_Z (Z.of_nat (length l)).

(** build_head_mapping(series, step) on already scaled series. *)
Definition head_mapping (series : list (list (Q * Q))) : list (Z * list (nat * Q)) :=
  head_mapping_gen qmean (map regrid_Q series).

(** Positions at which a list of items crosses level k, in order. *)
Definition crossings_of {V} (k : Z) (items : list (Z * V)) : list V :=
  map snd (filter (fun it => Z.eqb k (fst it)) items).
