(** Float layer of classification: from the loaded series of one gap-free
    stretch to boolean flags, with IEEE-754 binary64 operations exactly as numpy
    / SQLite perform them (PrimFloat is bit-exact binary64). *)
From Spowtd Require Export Model.Mystery.
From Coq Require Export PrimFloat.
From Coq Require Import Uint63.

(** CAST(time_step_s AS double precision) / 3600. *)
Definition step_hours (step_s : Z) : float :=
  PrimFloat.div (PrimFloat.of_uint63 (Uint63.of_Z step_s)) 3600%float.

(** np.diff / zeta[1:] - zeta[:-1] *)
Fixpoint increments (z : list float) : list float :=
  match z with
  | a :: (b :: _) as t => PrimFloat.sub b a :: increments t
  | _ => []
  end.

(** numpy [x > y] *)
Definition fgt (x y : float) : bool := PrimFloat.ltb y x.

(** jump threshold on increments: rising_jump_threshold_mm_h * time_step_h *)
Definition jump_delta (thr_j : float) (step_s : Z) : float :=
  PrimFloat.mul thr_j (step_hours step_s).

(** is_jump of match_storms: one flag per increment (length n-1). *)
Definition jump_incr_flags (thr_j : float) (step_s : Z) (z : list float) : list bool :=
  map (fun d => fgt d (jump_delta thr_j step_s)) (increments z).

(** is_jump of classify_interstorms: one flag per sample, flag i tells whether
    the increment ending at sample i is fast; first sample false. *)
Definition jump_sample_flags (thr_j : float) (step_s : Z) (z : list float) : list bool :=
  match z with
  | [] => []
  | _ => false :: jump_incr_flags thr_j step_s z
  end.

(** SQL: rainfall_intensity_mm_h > 0 *)
Definition raining_flags (rain : list float) : list bool := map (fun r => fgt r 0%float) rain.

(** rain > storm threshold *)
Definition heavy_flags (thr_s : float) (rain : list float) : list bool :=
  map (fun r => fgt r thr_s) rain.

(** Everything classify_interstorms stores for one stretch:
    rows (is_jump, is_mystery_jump, is_interstorm) and the interstorm intervals
    (first sample index, last sample index). *)
Record stretch_flags := {
  sf_jump : list bool; sf_mystery : list bool; sf_interstorm : list bool;
  sf_intervals : list (nat * nat) }.

Definition classify_interstorms_stretch (thr_j : float) (step_s : Z)
  (rain z : list float) : stretch_flags :=
  let jump := jump_sample_flags thr_j step_s z in
  let wet := raining_flags rain in
  {| sf_jump := jump;
     sf_mystery := mystery_from true jump wet;
     sf_interstorm := interstorm_flags jump wet;
     sf_intervals := interstorm_intervals jump wet |}.

Definition bools_eqb := list_eqb Bool.eqb.
Definition natpairs_eqb := list_eqb natpair_eqb.

Definition stretch_flags_eqb (a b : stretch_flags) : bool :=
  bools_eqb (sf_jump a) (sf_jump b) && bools_eqb (sf_mystery a) (sf_mystery b)
  && bools_eqb (sf_interstorm a) (sf_interstorm b)
  && natpairs_eqb (sf_intervals a) (sf_intervals b).
