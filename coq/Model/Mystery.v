(** Model of classify.get_mystery_jump_mask and of the flag layer of
    classify.classify_interstorms (boolean level). *)
From Spowtd Require Export Model.Runs.

(** The state machine: [st] is "in mystery"; initial state [true]. *)
Fixpoint mystery_from (st : bool) (jump rain : list bool) : list bool :=
  match jump, rain with
  | j :: jt, r :: rt =>
      let st' := if r then false else (if j then true else st) in
      st' :: mystery_from st' jt rt
  | _, _ => []
  end.

Definition mystery_mask (jump rain : list bool) : res (list bool) :=
  if Nat.eqb (length jump) (length rain) then Ok (mystery_from true jump rain)
  else Err EAssert.

Fixpoint interstorm_from (myst rain : list bool) : list bool :=
  match myst, rain with
  | m :: mt, r :: rt => (negb m && negb r) :: interstorm_from mt rt
  | _, _ => []
  end.

(** flags of one gap-free stretch: (is_jump, is_mystery, is_interstorm) and the
    recorded interstorm intervals as index pairs (first sample, last sample). *)
Definition interstorm_flags (jump rain : list bool) : list bool :=
  interstorm_from (mystery_from true jump rain) rain.

Definition interstorm_intervals (jump rain : list bool) : list (nat * nat) :=
  map (fun p => (fst p, snd p - 1)) (long_runs (interstorm_flags jump rain)).
