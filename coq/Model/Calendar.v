(** Proleptic Gregorian calendar over Z and the text form '%Y-%m-%d %H:%M:%S'
    of spowtd.load.ISO_8601_FORMAT: what datetime.strptime followed by
    (aware datetime).timestamp() computes, without the time zone.

    Only the canonical fixed-width form "YYYY-MM-DD HH:MM:SS" (19 ASCII
    characters) is modelled; strptime also accepts one-digit fields, runs of
    blanks and non-ASCII digits, which are outside this model.

    Definitions only; proofs are in Proofs/Calendar*.v. *)
From Spowtd Require Export Model.Util.
From Coq Require Export ZArith.
From Coq Require Import String Ascii.
Local Open Scope Z_scope.

Definition is_leap (y : Z) : bool :=
  ((y mod 4 =? 0) && negb (y mod 100 =? 0)) || (y mod 400 =? 0).

Definition days_in_month (y m : Z) : Z :=
  if m =? 2 then (if is_leap y then 29 else 28)
  else if (m =? 4) || (m =? 6) || (m =? 9) || (m =? 11) then 30 else 31.

Definition valid_dateb (y m d : Z) : bool :=
  (1 <=? m) && (m <=? 12) && (1 <=? d) && (d <=? days_in_month y m).

(** Days since 1970-01-01 of a civil date (floor division throughout). *)
Definition days_from_civil (y m d : Z) : Z :=
  let y' := if m <=? 2 then y - 1 else y in
  let era := y' / 400 in
  let yoe := y' - era * 400 in
  let mp := if m <=? 2 then m + 9 else m - 3 in
  let doy := (153 * mp + 2) / 5 + d - 1 in
  let doe := yoe * 365 + yoe / 4 - yoe / 100 + doy in
  era * 146097 + doe - 719468.

(** The civil date of a day number. *)
Definition civil_from_days (z : Z) : Z * Z * Z :=
  let z' := z + 719468 in
  let era := z' / 146097 in
  let doe := z' - era * 146097 in
  let yoe := (doe - doe / 1460 + doe / 36524 - doe / 146096) / 365 in
  let doy := doe - (365 * yoe + yoe / 4 - yoe / 100) in
  let mp := (5 * doy + 2) / 153 in
  let d := doy - (153 * mp + 2) / 5 + 1 in
  let m := if mp <? 10 then mp + 3 else mp - 9 in
  let y := yoe + era * 400 in
  (if m <=? 2 then y + 1 else y, m, d).

(** A civil date and time of day (what strptime returns). *)
Record civil : Set := { c_y : Z; c_mo : Z; c_d : Z; c_h : Z; c_mi : Z; c_s : Z }.

Definition civil_eqb (a b : civil) : bool :=
  (c_y a =? c_y b) && (c_mo a =? c_mo b) && (c_d a =? c_d b)
  && (c_h a =? c_h b) && (c_mi a =? c_mi b) && (c_s a =? c_s b).

(** The domain of datetime: years 1..9999. *)
Definition valid_civilb (c : civil) : bool :=
  (1 <=? c_y c) && (c_y c <=? 9999) && valid_dateb (c_y c) (c_mo c) (c_d c)
  && (0 <=? c_h c) && (c_h c <=? 23) && (0 <=? c_mi c) && (c_mi c <=? 59)
  && (0 <=? c_s c) && (c_s c <=? 59).

(** Seconds from 1970-01-01 00:00:00 on the same (zone-less) clock. *)
Definition local_secs (c : civil) : Z :=
  days_from_civil (c_y c) (c_mo c) (c_d c) * 86400 + c_h c * 3600 + c_mi c * 60 + c_s c.

Definition civil_of_secs (t : Z) : civil :=
  let days := t / 86400 in
  let sod := t mod 86400 in
  let '(y, m, d) := civil_from_days days in
  {| c_y := y; c_mo := m; c_d := d; c_h := sod / 3600; c_mi := (sod mod 3600) / 60; c_s := sod mod 60 |}.

(** ** Text *)

Definition digit_of (c : ascii) : option Z :=
  let n := Z.of_N (N_of_ascii c) in
  if (48 <=? n) && (n <=? 57) then Some (n - 48) else None.

Definition ascii_of_digit (d : Z) : ascii := ascii_of_N (Z.to_N (d + 48)).

Definition num2 (a b : ascii) : option Z :=
  match digit_of a, digit_of b with
  | Some x, Some y => Some (10 * x + y)
  | _, _ => None
  end.

Definition num4 (a b c d : ascii) : option Z :=
  match num2 a b, num2 c d with
  | Some x, Some y => Some (100 * x + y)
  | _, _ => None
  end.

Definition dash : ascii := "-"%char.
Definition blank : ascii := " "%char.
Definition colon : ascii := ":"%char.

(** strptime(s, '%Y-%m-%d %H:%M:%S') on canonical text; [None] = ValueError. *)
Definition parse_datetime (s : string) : option civil :=
  match list_ascii_of_string s with
  | [y1; y2; y3; y4; k1; m1; m2; k2; d1; d2; k3; h1; h2; k4; i1; i2; k5; s1; s2] =>
      if Ascii.eqb k1 dash && Ascii.eqb k2 dash && Ascii.eqb k3 blank
         && Ascii.eqb k4 colon && Ascii.eqb k5 colon
      then
        match num4 y1 y2 y3 y4, num2 m1 m2, num2 d1 d2, num2 h1 h2, num2 i1 i2, num2 s1 s2 with
        | Some y, Some m, Some d, Some h, Some i, Some sec =>
            let c := {| c_y := y; c_mo := m; c_d := d; c_h := h; c_mi := i; c_s := sec |} in
            if valid_civilb c then Some c else None
        | _, _, _, _, _, _ => None
        end
      else None
  | _ => None
  end.

Definition dig (n k : Z) : ascii := ascii_of_digit ((n / k) mod 10).

(** strftime('%Y-%m-%d %H:%M:%S') with a four-digit year. *)
Definition render_datetime (c : civil) : string :=
  string_of_list_ascii
    [dig (c_y c) 1000; dig (c_y c) 100; dig (c_y c) 10; dig (c_y c) 1; dash;
     dig (c_mo c) 10; dig (c_mo c) 1; dash; dig (c_d c) 10; dig (c_d c) 1; blank;
     dig (c_h c) 10; dig (c_h c) 1; colon; dig (c_mi c) 10; dig (c_mi c) 1; colon;
     dig (c_s c) 10; dig (c_s c) 1].
