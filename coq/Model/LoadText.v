(** `spowtd load` on files whose rows carry timestamp *text* in a zone: the
    composition of generate_timestamped_rows (Model/TimeZone.v) with the load
    model (Model/Load.v).  executemany pulls one row at a time from the
    generator, so the first failing row of a file decides: a text that is not a
    timestamp is a ValueError, a repeated instant an IntegrityError.
    Definitions only. *)
From Spowtd Require Export Model.TimeZone Model.LoadCheck.
Local Open Scope Z_scope.

Definition text_row : Type := String.string * Q.

Fixpoint stage_text_from (z : zone) (acc : list row) (rows : list text_row) : res (list row) :=
  match rows with
  | [] => Ok acc
  | (s, v) :: rest =>
      match stamp z s with
      | Stamp e | Shifted e => bind (ins_row (e, v) acc) (fun acc' => stage_text_from z acc' rest)
      | Refuse => Err EValue
      | Skipped => Err EOther   (* outside the model *)
      end
  end.

Definition stage_text (z : zone) (rows : list text_row) : res (list row) := stage_text_from z [] rows.

(** The rows with their timestamps converted, when every text converts. *)
Fixpoint stamp_all (z : zone) (rows : list text_row) : option (list row) :=
  match rows with
  | [] => Some []
  | (s, v) :: rest =>
      match stamp_epoch (stamp z s), stamp_all z rest with
      | Some e, Some l => Some ((e, v) :: l)
      | _, _ => None
      end
  end.

Definition load_text_model (populated : bool) (tz : String.string) (z : zone)
  (rain et wl : list text_row) : res loaded :=
  if populated then Err EValue else
  bind (stage_text z rain) (fun rain_t =>
  bind (stage_text z et) (fun et_t =>
  bind (stage_text z wl) (fun wl_t => load_staged tz rain_t et_t wl_t))).

(** *** Wire format of the generated cases *)

Definition ftext_row : Type := String.string * PrimFloat.float.
Definition dec_text_rows (l : list ftext_row) : list text_row :=
  map (fun r => (fst r, Q_of_float (snd r))) l.

(** (base epoch of the expected tables, populated, zone name, rows, outcome) *)
Definition load_text_case : Type :=
  Z * bool * String.string * list ftext_row * list ftext_row * list ftext_row * res raw_loaded.

Definition load_text_case_ok (z : zone) (c : load_text_case) : bool :=
  let '(base, pop, tz, rain, et, wl, expect) := c in
  match load_text_model pop tz z (dec_text_rows rain) (dec_text_rows et) (dec_text_rows wl), expect with
  | Ok m, Ok i => loaded_matches interp_tol m (dec_loaded base i)
  | Err a, Err b => err_eqb a b
  | _, _ => false
  end.
