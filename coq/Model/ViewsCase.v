(** Generated case files for Model/Views.v: the dumped tables arrive as
    bit-exact binary64 literals (three times cheaper for Coq to read than the
    same values written as numerator # denominator) and are turned into the
    exact rationals they denote by [float_to_Q] (Model/RegridFloat.v) before the
    model of the views - which is over Q only - is evaluated.  A value that is
    not finite makes the check fail.  Definitions only. *)
From Spowtd Require Export Model.RegridFloat.
From Spowtd Require Export Model.Views.

Definition fq (f : float) : Q := match float_to_Q f with Some q => q | None => 0 end.

Definition fview_case :=
  (list (Z * float) * list (Z * Z * float) * list Z * float * list (float * float))%type.

Definition fview_finite (c : fview_case) : bool :=
  match c with
  | (offsets, crossings, grid, step, impl) =>
      forallb (fun r => finiteb (snd r)) offsets && forallb (fun r => finiteb (snd r)) crossings
      && finiteb step && forallb (fun r => finiteb (fst r) && finiteb (snd r)) impl
  end.

Definition view_case_of (c : fview_case) : view_case :=
  match c with
  | (offsets, crossings, grid, step, impl) =>
      (map (fun r => (fst r, fq (snd r))) offsets,
       map (fun r => (fst r, fq (snd r))) crossings,
       grid, fq step,
       map (fun r => (fq (fst r), fq (snd r))) impl)
  end.

Definition fseg_row := (Z * float * float * float * float)%type.
Definition fseg_case :=
  (list (Z * Z) * list (Z * Z) * list (Z * float) * list (Z * Z) * list (Z * Z * float)
   * list (Z * float) * list fseg_row)%type.

Definition fseg_row_finite (r : fseg_row) : bool :=
  match r with (_, o, d, zi, zf) => finiteb o && finiteb d && finiteb zi && finiteb zf end.

Definition fseg_finite (c : fseg_case) : bool :=
  match c with
  | (pairing, zint, wl, storms, rain, offsets, impl) =>
      forallb (fun r => finiteb (snd r)) wl && forallb (fun r => finiteb (snd r)) rain
      && forallb (fun r => finiteb (snd r)) offsets && forallb fseg_row_finite impl
  end.

Definition seg_case_of (c : fseg_case) : seg_case :=
  match c with
  | (pairing, zint, wl, storms, rain, offsets, impl) =>
      (pairing, zint, map (fun r => (fst r, fq (snd r))) wl, storms,
       map (fun r => (fst r, fq (snd r))) rain,
       map (fun r => (fst r, fq (snd r))) offsets,
       map (fun r : fseg_row => match r with (e, o, d, zi, zf) => (e, fq o, fq d, fq zi, fq zf) end) impl)
  end.

Inductive any_case :=
| AvgCase (c : fview_case)
| SegCase (c : fseg_case).

(** all comparisons at once (what every run evaluates) *)
Definition check_any (c : any_case) : bool :=
  match c with
  | AvgCase c => fview_finite c && check_view (view_case_of c)
  | SegCase c => fseg_finite c && check_segments (seg_case_of c)
  end.

(** one comparison at a time (evaluated on the failing cases only, to say which) *)
Definition check_any_model (c : any_case) : bool :=
  match c with
  | AvgCase c => fview_finite c && check_view_model (view_case_of c)
  | SegCase c => fseg_finite c && check_segments (seg_case_of c)
  end.
Definition check_any_complete (c : any_case) : bool :=
  match c with
  | AvgCase c => fview_finite c && check_view_complete (view_case_of c)
  | SegCase _ => true
  end.
