(** Classification of one gap-free stretch with explicit epochs: what
    classify_interstorms and match_all_storms write into the tables.  Epochs
    enter only through the lookup [epoch_at] (index -> epoch) and, for the
    closing instant of a storm, "start of the last step + time step". *)
From Spowtd Require Export Model.ClassifyData.

Definition epoch_at (ep : list Z) (i : nat) : Z := nth i ep 0%Z.

Record stretch_rows := {
  flag_rows : list (Z * (bool * bool * bool));        (* grid_time_flags *)
  interstorm_rows : list (Z * Z);                     (* zeta_interval, type interstorm *)
  storm_rows : list (Z * Z);                          (* storm *)
  rise_rows : list (Z * Z);                           (* zeta_interval, type storm *)
  link_rows : list (Z * Z)                            (* zeta_interval_storm: (rise start, storm start) *)
}.

Fixpoint zip3 (a b c : list bool) : list (bool * bool * bool) :=
  match a, b, c with
  | x :: a', y :: b', z :: c' => (x, y, z) :: zip3 a' b' c'
  | _, _, _ => []
  end.

Definition classify_stretch (ep : list Z) (step_s : Z) (thr_s thr_j : float)
  (rain zeta : list float) (sched : list nat) : res stretch_rows :=
  let f := classify_interstorms_stretch thr_j step_s rain zeta in
  bind (match_storms_data thr_s (jump_delta thr_j step_s) rain zeta sched) (fun pairs =>
  Ok {| flag_rows := combine ep (zip3 (sf_jump f) (sf_mystery f) (sf_interstorm f));
        interstorm_rows := map (fun p => (epoch_at ep (fst p), epoch_at ep (snd p))) (sf_intervals f);
        storm_rows := map (fun p => (epoch_at ep (fst (fst p)),
                                     (epoch_at ep (snd (fst p) - 1) + step_s)%Z)) pairs;
        rise_rows := map (fun p => (epoch_at ep (fst (snd p)), epoch_at ep (snd (snd p) - 1))) pairs;
        link_rows := map (fun p => (epoch_at ep (fst (snd p)), epoch_at ep (fst (fst p)))) pairs |}).

(** shifting every epoch of the rows *)
Definition shift_pair (d : Z) (p : Z * Z) : Z * Z := ((fst p + d)%Z, (snd p + d)%Z).
Definition shift_rows (d : Z) (r : stretch_rows) : stretch_rows :=
  {| flag_rows := map (fun p => ((fst p + d)%Z, snd p)) (flag_rows r);
     interstorm_rows := map (shift_pair d) (interstorm_rows r);
     storm_rows := map (shift_pair d) (storm_rows r);
     rise_rows := map (shift_pair d) (rise_rows r);
     link_rows := map (shift_pair d) (link_rows r) |}.

(** The pre-repair jump flag of classify_interstorms: rate over hours computed
    from the absolute epoch, rate > threshold (kept to document the repaired
    defect, see Refuted/C07.v). *)
From Coq Require Import Uint63.
Definition hours_of_epoch (t : Z) : float :=
  PrimFloat.div (PrimFloat.of_uint63 (Uint63.of_Z t)) 3600%float.
Definition old_rate_flag (thr_j : float) (t0 t1 : Z) (z0 z1 : float) : bool :=
  fgt (PrimFloat.div (PrimFloat.sub z1 z0) (PrimFloat.sub (hours_of_epoch t1) (hours_of_epoch t0))) thr_j.
