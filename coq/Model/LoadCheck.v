(** Comparison of the load model's result with the tables dumped from the real
    SQLite file (used only by the generated case files of the harness).
    Epochs, labels, structure and copied values are compared exactly; an
    interpolated water level within [tol * max(|za|,|zb|)] of the exact
    rational value, where (ta,za),(tb,zb) are the bracketing source samples —
    and exactly when the grid instant is a source instant.  Definitions only. *)
From Spowtd Require Export Model.Load.
From Coq Require Export Qabs.
Local Open Scope Z_scope.

Definition row_eqb (a b : row) : bool := (fst a =? fst b) && Qeq_bool (snd a) (snd b).

Definition step_row_eqb (a b : step_row) : bool :=
  let '(f, t, v) := a in let '(f', t', v') := b in (f =? f') && (t =? t') && Qeq_bool v v'.

Definition grid_row_eqb (a b : Z * option Z) : bool :=
  (fst a =? fst b) && option_eqb Z.eqb (snd a) (snd b).

Definition Qmax_abs (a b : Q) : Q :=
  if Qle_bool (Qabs a) (Qabs b) then Qabs b else Qabs a.

(** Scale of the rounding error of np.interp at x: 0 where the code returns a
    stored sample unchanged, max(|za|,|zb|) inside a bracket. *)
Fixpoint interp_scale_from (a : row) (rest : list row) (x : Z) : Q :=
  match rest with
  | [] => 0%Q
  | b :: rest' =>
      if x <? fst b then (if x =? fst a then 0%Q else Qmax_abs (snd a) (snd b))
      else interp_scale_from b rest' x
  end.
Definition interp_scale (staged : list row) (x : Z) : Q :=
  match staged with
  | [] => 0%Q
  | a :: rest => if x <? fst a then 0%Q else interp_scale_from a rest x
  end.

Definition wl_close (tol : Q) (staged : list row) (m i : row) : bool :=
  (fst m =? fst i)
  && Qle_bool (Qabs (snd m - snd i)) (tol * interp_scale staged (fst m)).

Definition loaded_matches (tol : Q) (m i : loaded) : bool :=
  (ld_step m =? ld_step i)
  && String.eqb (ld_tz m) (ld_tz i)
  && list_eqb grid_row_eqb (ld_grid m) (ld_grid i)
  && list_eqb step_row_eqb (ld_rain m) (ld_rain i)
  && list_eqb step_row_eqb (ld_et m) (ld_et i)
  && list_eqb (wl_close tol (ld_wl_staging m)) (ld_wl m) (ld_wl i)
  && list_eqb row_eqb (ld_rain_staging m) (ld_rain_staging i)
  && list_eqb row_eqb (ld_et_staging m) (ld_et_staging i)
  && list_eqb row_eqb (ld_wl_staging m) (ld_wl_staging i).

(** 2^-50: eight units in the last place of max(|za|,|zb|); the three rounded
    operations of slope * (x - xa) + za (subtraction of epochs is exact) and the
    subtraction zb - za err by less than 7.2 * 2^-53 * max(|za|,|zb|). *)
Definition interp_tol : Q := 1 # 1125899906842624.

(** *** Wire format of a generated case

    Parsing a 16-digit decimal literal costs Coq about a millisecond, a binary64
    hexadecimal literal almost nothing: values travel as PrimFloat literals and
    are embedded exactly into Q here; epochs travel as offsets from one base
    epoch per case and are shifted back here. *)
From Coq Require Import PrimFloat FloatOps SpecFloat.

Definition Q_of_float (f : float) : Q :=
  match Prim2SF f with
  | S754_finite s m e =>
      let n := if s then Zneg m else Zpos m in
      if 0 <=? e then Qmake (n * 2 ^ e) 1 else Qmake n (Z.to_pos (2 ^ (- e)))
  | _ => 0%Q
  end.

Definition frow : Type := Z * float.
Definition fstep_row : Type := Z * Z * float.

Definition dec_rows (base : Z) (l : list frow) : list row :=
  map (fun r => (base + fst r, Q_of_float (snd r))) l.
Definition dec_step_rows (base : Z) (l : list fstep_row) : list step_row :=
  map (fun r => let '(f, t, v) := r in (base + f, base + t, Q_of_float v)) l.
Definition dec_grid (base : Z) (l : list (Z * option Z)) : list (Z * option Z) :=
  map (fun r => (base + fst r, snd r)) l.

(** Tables dumped from the data file: step, zone, grid_time, rainfall_intensity,
    evapotranspiration, water_level, and the three staging tables. *)
Definition raw_loaded : Type :=
  Z * String.string * list (Z * option Z) * list fstep_row * list fstep_row * list frow
  * list frow * list frow * list frow.

Definition dec_loaded (base : Z) (r : raw_loaded) : loaded :=
  let '(step, tz, grid, rain, et, wl, rain_s, et_s, wl_s) := r in
  {| ld_step := step; ld_tz := tz; ld_grid := dec_grid base grid;
     ld_rain := dec_step_rows base rain; ld_et := dec_step_rows base et;
     ld_wl := dec_rows base wl; ld_rain_staging := dec_rows base rain_s;
     ld_et_staging := dec_rows base et_s; ld_wl_staging := dec_rows base wl_s |}.

(** (base epoch, populated, zone, rain, et, wl rows in file order, outcome) *)
Definition load_case : Type :=
  Z * bool * String.string * list frow * list frow * list frow * res raw_loaded.

Definition load_case_ok (c : load_case) : bool :=
  let '(base, pop, tz, rain, et, wl, expect) := c in
  match load_model pop tz (dec_rows base rain) (dec_rows base et) (dec_rows base wl), expect with
  | Ok m, Ok i => loaded_matches interp_tol m (dec_loaded base i)
  | Err a, Err b => err_eqb a b
  | _, _ => false
  end.
