(** Model of spowtd/spline.py, class [Spline]: a FITPACK spline (tck) wrapped
    with constant extrapolation outside its knot range.

    The arithmetic is written ONCE over a dictionary of ordered-field operations
    [fops F] and instantiated twice:
    - [Qops]  (exact rationals, normalised): what the correspondence check
      evaluates by [vm_compute] on the inputs given to the real code;
    - [Rops]  (classical reals): what the theorems of Proofs/SplineWrapSpec.v
      are about.  Proofs/SplineWrapBridge.v shows the two instances commute
      with the embedding [Q2R].

    FITPACK itself is NOT modelled here: [ev] is [splev(., tck)] and [splint]
    is [splint(., ., tck)]; they are parameters (Section variables) whose
    contracts are hypotheses of the theorems and are tested on the real tck
    objects at every run (an exact, oracle-free model of the interpolating
    spline is in Model/SplineWrapPP.v).  Definitions only. *)
From Coq Require Import QArith Qminmax Qabs Reals.
From Spowtd Require Export Model.Util.

Record fops (F : Type) : Type := {
  f0 : F;
  fadd : F -> F -> F;
  fsub : F -> F -> F;
  fmul : F -> F -> F;
  fdiv : F -> F -> F;
  fopp : F -> F;
  fltb : F -> F -> bool;   (* strict  a < b  *)
  feqb : F -> F -> bool;   (* a == b *)
  fmin : F -> F -> F;
  fmax : F -> F -> F;
  fofnat : nat -> F
}.
Arguments f0 {F}. Arguments fadd {F}. Arguments fsub {F}. Arguments fmul {F}.
Arguments fdiv {F}. Arguments fopp {F}. Arguments fltb {F}. Arguments feqb {F}.
Arguments fmin {F}. Arguments fmax {F}. Arguments fofnat {F}.

(** Exact rationals; every result is reduced so that numerators stay small. *)
Definition Qltb (a b : Q) : bool := negb (Qle_bool b a).
Definition Qops : fops Q := {|
  f0 := 0%Q;
  fadd := fun a b => Qred (a + b);
  fsub := fun a b => Qred (a - b);
  fmul := fun a b => Qred (a * b);
  fdiv := fun a b => Qred (a / b);
  fopp := fun a => Qred (- a);
  fltb := Qltb;
  feqb := Qeq_bool;
  fmin := fun a b => if Qle_bool a b then a else b;
  fmax := fun a b => if Qle_bool a b then b else a;
  fofnat := fun n => inject_Z (Z.of_nat n)
|}.

(** Classical reals. *)
Definition Rltb (a b : R) : bool := if Rlt_dec a b then true else false.
Definition Reqb (a b : R) : bool := if Req_EM_T a b then true else false.
Definition Rops : fops R := {|
  f0 := 0%R;
  fadd := Rplus;
  fsub := Rminus;
  fmul := Rmult;
  fdiv := Rdiv;
  fopp := Ropp;
  fltb := Rltb;
  feqb := Reqb;
  fmin := Rmin;
  fmax := Rmax;
  fofnat := INR
|}.

Section SplineWrap.
  Context {F : Type} (O : fops F).
  (** [xmin], [xmax] = Spline.domain() = (tck[0][0], tck[0][-1]). *)
  Variables (xmin xmax : F).
  (** [ev x] = splev(x, tck);  [splint a b] = splint(a, b, tck). *)
  Variable ev : F -> F.
  Variable splint : F -> F -> F.

  Local Notation "a + b" := (fadd O a b).
  Local Notation "a - b" := (fsub O a b).
  Local Notation "a * b" := (fmul O a b).

  (** Spline.__call__: np.minimum(np.maximum(x, xmin), xmax), then splev. *)
  Definition clamp (x : F) : F := fmin O (fmax O x xmin) xmax.
  Definition call (x : F) : F := ev (clamp x).

  (** Body of Spline.integrate after the [a > b] test failed, i.e. a <= b:
        if a == b: return 0.0
        integral = 0.0
        if a < xmin: integral += self(xmin) * (min(xmin, b) - a)
        if b > xmin: integral += splint(max(a, xmin), min(xmax, b), tck)
        if b > xmax: integral += self(max(a, xmax)) * (b - max(a, xmax))
      (the [assert a < b] cannot fail on numbers). *)
  Definition integrate_ordered (a b : F) : F :=
    if feqb O a b then f0 O else
    let i0 := f0 O in
    let i1 := if fltb O a xmin
              then i0 + call xmin * (fmin O xmin b - a) else i0 in
    let i2 := if fltb O xmin b
              then i1 + splint (fmax O a xmin) (fmin O xmax b) else i1 in
    let i3 := if fltb O xmax b
              then i2 + call (fmax O a xmax) * (b - fmax O a xmax) else i2 in
    i3.

  (** Spline.integrate: [if a > b: return -self.integrate(b, a)]; the recursive
      call has its arguments in order, so the recursion is one level deep and
      is unfolded here. *)
  Definition integrate (a b : F) : F :=
    if fltb O b a then fopp O (integrate_ordered b a) else integrate_ordered a b.

  (** Array call: numpy broadcasting = map. *)
  Definition call_array (xs : list F) : list F := map call xs.
End SplineWrap.

(** Data-driven instance used by the correspondence check: [ev] and [splint]
    are finite tables sampled from the implementation's own tck (by calling
    scipy's splev / splint directly, not through the wrapper); a missing entry
    yields a sentinel that no comparison accepts. *)
Definition sentinel : Q := (10 ^ 60)%Q.
Fixpoint lookup1 (t : list (Q * Q)) (x : Q) : Q :=
  match t with
  | [] => sentinel
  | (k, v) :: r => if Qeq_bool k x then v else lookup1 r x
  end.
Fixpoint lookup2 (t : list (Q * Q * Q)) (x y : Q) : Q :=
  match t with
  | [] => sentinel
  | (k1, k2, v) :: r => if Qeq_bool k1 x && Qeq_bool k2 y then v else lookup2 r x y
  end.

Definition Qcall_tab xmin xmax evt x := call Qops xmin xmax (lookup1 evt) x.
Definition Qintegrate_tab xmin xmax evt spt a b :=
  integrate Qops xmin xmax (lookup1 evt) (lookup2 spt) a b.

(** |m - i| <= tol * max(1, |i|) *)
Definition Qclose (tol m i : Q) : bool :=
  Qle_bool (Qabs (m - i)) (tol * (if Qle_bool 1 (Qabs i) then Qabs i else 1)).

(** Spline.from_points refuses x that is not strictly increasing
    ([(np.diff(x) > 0).all()]) with ValueError; [None] = accepted. *)
Fixpoint strictly_increasing (xs : list Q) : bool :=
  match xs with
  | [] => true
  | x :: t => match t with
              | [] => true
              | y :: _ => Qltb x y && strictly_increasing t
              end
  end.
Definition from_points_guard (xs : list Q) : option err :=
  if strictly_increasing xs then None else Some EValue.
