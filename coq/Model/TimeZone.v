(** Time zones as transition tables, and the conversion of a local timestamp
    text into a UNIX epoch as spowtd.load.generate_timestamped_rows performs it:
    strptime, tz.localize(dt) (pytz, is_dst=False), .timestamp().

    A zone is the rule in force before the first transition and the list of
    (UTC instant, rule from then on) — a rule = (offset, daylight-saving flag) —
    as pytz builds it from the TZif file (offsets as pytz keeps them, rounded to
    whole minutes).  [ideal_localize] is the *specification* of localize: every
    UTC instant whose local reading is the given local time is a candidate
    (found by trying every offset of the zone); an ambiguous local time
    resolves to a candidate not on daylight-saving time when there is one, and
    to the latest candidate among those that remain — what pytz documents for
    is_dst=False; a local time without candidate (skipped by a forward
    transition) is converted as pytz does, by [localize_back].  pytz's own
    search (the two rules in force a day before and a day after) is not
    modelled: it is an oracle compared with this specification on every run.

    Definitions only; proofs are in Proofs/TimeZoneSpec.v. *)
From Spowtd Require Export Model.Calendar.
From Coq Require String.
Local Open Scope Z_scope.

Record ttinfo : Set := { tt_off : Z; tt_dst : bool }.
Record zone : Set := { z_first : ttinfo; z_trans : list (Z * ttinfo) }.

(** The rule in force at UTC instant e: that of the last transition at or
    before e (bisect_right(transition_times, e) - 1, floored at 0). *)
Fixpoint info_at_from (cur : ttinfo) (tr : list (Z * ttinfo)) (e : Z) : ttinfo :=
  match tr with
  | [] => cur
  | (t, i) :: rest => if t <=? e then info_at_from i rest e else cur
  end.
Definition info_at (z : zone) (e : Z) : ttinfo := info_at_from (z_first z) (z_trans z) e.

(** Local clock reading (seconds on the zone-less clock) at UTC instant e. *)
Definition local_of (z : zone) (e : Z) : Z := e + tt_off (info_at z e).

Definition infos (z : zone) : list ttinfo := z_first z :: map snd (z_trans z).

(** The distinct offsets of the zone's rules. *)
Fixpoint dedup (l : list Z) : list Z :=
  match l with
  | [] => []
  | x :: t => if mem_Z x t then dedup t else x :: dedup t
  end.
Definition offsets (z : zone) : list Z := dedup (map tt_off (infos z)).

(** All UTC instants whose local reading is lt. *)
Definition candidates (z : zone) (lt : Z) : list Z :=
  filter (fun e => local_of z e =? lt) (map (fun o => lt - o) (offsets z)).

Fixpoint zmax_list (a : Z) (l : list Z) : Z :=
  match l with [] => a | b :: t => zmax_list (Z.max a b) t end.

Definition ideal_localize (z : zone) (lt : Z) : option Z :=
  let c := candidates z lt in
  let std := filter (fun e => negb (tt_dst (info_at z e))) c in
  match (match std with [] => c | _ :: _ => std end) with
  | [] => None
  | e :: r => Some (zmax_list e r)
  end.

(** A local time that does not exist in the zone (skipped by a forward
    transition): pytz's localize(dt, is_dst=False) answers
    localize(dt - 6 h, is_dst=False) + 6 h — the instant six hours after the
    one whose local reading is six hours earlier, i.e. the reading taken on
    the clock as it ran before the jump — and recurses while the earlier
    reading does not exist either (a zone that skipped a whole day).  [fuel]
    bounds that recursion (Python's is bounded by the interpreter's limit). *)
Definition six_hours : Z := 21600.

Fixpoint localize_back (fuel : nat) (z : zone) (lt : Z) : option Z :=
  match ideal_localize z lt with
  | Some e => Some e
  | None =>
      match fuel with
      | O => None
      | S f =>
          match localize_back f z (lt - six_hours) with
          | Some e => Some (e + six_hours)
          | None => None
          end
      end
  end.

Definition back_fuel : nat := 12.

(** Outcome of converting one timestamp text. *)
Inductive stamped : Set :=
| Stamp (e : Z)      (* the row is staged with epoch e; the local time exists *)
| Shifted (e : Z)    (* the local time does not exist in the zone; the row is
                        staged with epoch e all the same (see above): outside
                        the property's quantifier, but it is what the code does *)
| Refuse             (* ValueError: the text is not a timestamp *)
| Skipped.           (* no existing local time within 12 x 6 h before: not modelled *)

Definition stamp (z : zone) (s : String.string) : stamped :=
  match parse_datetime s with
  | None => Refuse
  | Some c =>
      match ideal_localize z (local_secs c) with
      | Some e => Stamp e
      | None =>
          match localize_back back_fuel z (local_secs c) with
          | Some e => Shifted e
          | None => Skipped
          end
      end
  end.

(** The epoch staged for a text, if any. *)
Definition stamp_epoch (r : stamped) : option Z :=
  match r with Stamp e | Shifted e => Some e | Refuse | Skipped => None end.

(** The text a stored epoch renders to in the zone. *)
Definition render_text (z : zone) (e : Z) : String.string :=
  render_datetime (civil_of_secs (local_of z e)).

(** Case check used by the generated files: (text, what the implementation
    did: [Stamp e] = yielded epoch e, [Refuse] = ValueError, [Skipped] = any
    other exception).  One evaluation of the model per case; the code says
    how the model classifies the text and whether the implementation agrees:
    0 = existing local time, same epoch; 1 = non-existent local time
    (shifted), same epoch; 2 = refused by both; 3 = the model ran out of fuel
    (nothing compared); 4 / 5 / 6 = DISAGREEMENT where the model says
    existing / shifted / refused. *)
Definition stamp_code (z : zone) (c : String.string * stamped) : nat :=
  match stamp z (fst c), snd c with
  | Skipped, _ => 3
  | Stamp x, Stamp y => if (x =? y)%Z then 0 else 4
  | Stamp _, _ => 4
  | Shifted x, Stamp y => if (x =? y)%Z then 1 else 5
  | Shifted _, _ => 5
  | Refuse, Refuse => 2
  | Refuse, _ => 6
  end%nat.

(** (index, code) of the cases whose code is not 0. *)
Fixpoint codes_from {A} (f : A -> nat) (l : list A) (i : nat) : list (nat * nat) :=
  match l with
  | [] => []
  | c :: t => match f c with
              | O => codes_from f t (S i)
              | k => (i, k) :: codes_from f t (S i)
              end
  end.
Definition stamp_codes (z : zone) (l : list (String.string * stamped)) : list (nat * nat) :=
  codes_from (stamp_code z) l 0.

(** Zone tables travel as (first offset, first dst, [(instant, offset, dst)]). *)
Definition mk_zone (o : Z) (d : bool) (tr : list (Z * Z * bool)) : zone :=
  {| z_first := {| tt_off := o; tt_dst := d |};
     z_trans := map (fun r => let '(t, off, dst) := r in (t, {| tt_off := off; tt_dst := dst |})) tr |}.
