(** Time zones as transition tables, and the conversion of a local timestamp
    text into a UNIX epoch as spowtd.load.generate_timestamped_rows performs it:
    strptime, tz.localize(dt) (pytz, is_dst=False), .timestamp().

    A zone is the offset in force before the first transition and the list of
    (UTC instant, offset from then on, daylight-saving flag), in increasing
    order of instants — the table pytz builds from the TZif file (offsets as
    pytz keeps them).  [ideal_localize] is the *specification* of localize:
    every UTC instant whose local rendering is the given local time is a
    candidate (found by trying every offset of the zone); an ambiguous local
    time resolves to a candidate not on daylight-saving time when there is
    one, and to the latest candidate among those that remain — what pytz
    documents for is_dst=False.  pytz's own search (the two offsets in force a
    day before and a day after) is not modelled: it is an oracle compared with
    this specification on every run.

    Definitions only; proofs are in Proofs/TimeZone*.v. *)
From Spowtd Require Export Model.Calendar.
From Coq Require String.
Local Open Scope Z_scope.

Record ttinfo : Set := { tt_off : Z; tt_dst : bool }.
Record zone : Set := { z_first : ttinfo; z_trans : list (Z * ttinfo) }.

(** The rule in force at UTC instant e: that of the last transition at or
    before e (bisect_right(transition_times, e) - 1, floored at 0). *)
Fixpoint info_at_from (cur : ttinfo) (tr : list (Z * ttinfo)) (e : Z) : ttinfo :=
  match tr with
  | [] => cur
  | (t, i) :: rest => if t <=? e then info_at_from i rest e else cur
  end.
Definition info_at (z : zone) (e : Z) : ttinfo := info_at_from (z_first z) (z_trans z) e.

(** Local clock reading (seconds on the zone-less clock) at UTC instant e. *)
Definition local_of (z : zone) (e : Z) : Z := e + tt_off (info_at z e).

Definition infos (z : zone) : list ttinfo := z_first z :: map snd (z_trans z).

(** All UTC instants whose local reading is lt. *)
Definition candidates (z : zone) (lt : Z) : list Z :=
  filter (fun e => local_of z e =? lt) (map (fun i => lt - tt_off i) (infos z)).

Fixpoint zmax_list (a : Z) (l : list Z) : Z :=
  match l with [] => a | b :: t => zmax_list (Z.max a b) t end.

Definition ideal_localize (z : zone) (lt : Z) : option Z :=
  let c := candidates z lt in
  let std := filter (fun e => negb (tt_dst (info_at z e))) c in
  match (match std with [] => c | _ :: _ => std end) with
  | [] => None
  | e :: r => Some (zmax_list e r)
  end.

(** Outcome of converting one timestamp text. *)
Inductive stamped : Set :=
| Stamp (e : Z)      (* the row is staged with epoch e *)
| Refuse             (* ValueError: the text is not a timestamp *)
| Skipped.           (* the local time does not exist in the zone (skipped by a
                        forward transition): outside the property's quantifier *)

Definition stamp (z : zone) (s : String.string) : stamped :=
  match parse_datetime s with
  | None => Refuse
  | Some c =>
      match ideal_localize z (local_secs c) with
      | Some e => Stamp e
      | None => Skipped
      end
  end.

(** The text a stored epoch renders to in the zone. *)
Definition render_text (z : zone) (e : Z) : String.string :=
  render_datetime (civil_of_secs (local_of z e)).

Definition stamped_eqb (a b : stamped) : bool :=
  match a, b with
  | Stamp x, Stamp y => x =? y
  | Refuse, Refuse => true
  | Skipped, Skipped => true
  | _, _ => false
  end.

(** Case check used by the generated files: on a text the model classifies as
    a skipped local time nothing is compared. *)
Definition stamp_case_ok (z : zone) (c : String.string * stamped) : bool :=
  match stamp z (fst c) with
  | Skipped => true
  | r => stamped_eqb r (snd c)
  end.

(** Zone tables travel as (first offset, first dst, [(instant, offset, dst)]). *)
Definition mk_zone (o : Z) (d : bool) (tr : list (Z * Z * bool)) : zone :=
  {| z_first := {| tt_off := o; tt_dst := d |};
     z_trans := map (fun r => let '(t, off, dst) := r in (t, {| tt_off := off; tt_dst := dst |})) tr |}.
