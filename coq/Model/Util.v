(** Shared executable helpers for the models and for the generated case files.
    Definitions only; no proofs live under Model/. *)
From Coq Require Export List Bool Arith ZArith.
Export ListNotations.

(** Python exceptions are explicit values. *)
Inductive err : Set :=
| EValue | EAssert | EIndex | EAttr | EIntegrity | ELinAlg | ENotImpl | EKey | EType | EOther.

Inductive res (A : Type) : Type :=
| Ok : A -> res A
| Err : err -> res A.
Arguments Ok {A} _.
Arguments Err {A} _.

Definition err_eqb (a b : err) : bool :=
  match a, b with
  | EValue, EValue | EAssert, EAssert | EIndex, EIndex | EAttr, EAttr
  | EIntegrity, EIntegrity | ELinAlg, ELinAlg | ENotImpl, ENotImpl
  | EKey, EKey | EType, EType | EOther, EOther => true
  | _, _ => false
  end.

Definition res_eqb {A} (eqb : A -> A -> bool) (x y : res A) : bool :=
  match x, y with
  | Ok a, Ok b => eqb a b
  | Err a, Err b => err_eqb a b
  | _, _ => false
  end.

Definition bind {A B} (x : res A) (f : A -> res B) : res B :=
  match x with Ok a => f a | Err e => Err e end.

(** Indices (from 0) of the elements of [l] on which [f] is false: what a
    generated case file prints. *)
Fixpoint bad_from {A} (f : A -> bool) (l : list A) (i : nat) : list nat :=
  match l with
  | [] => []
  | x :: t => if f x then bad_from f t (S i) else i :: bad_from f t (S i)
  end.
Definition bad_indices {A} (f : A -> bool) (l : list A) : list nat := bad_from f l 0.

Fixpoint list_eqb {A} (eqb : A -> A -> bool) (l1 l2 : list A) : bool :=
  match l1, l2 with
  | [], [] => true
  | x :: t1, y :: t2 => eqb x y && list_eqb eqb t1 t2
  | _, _ => false
  end.

Definition pair_eqb {A B} (ea : A -> A -> bool) (eb : B -> B -> bool)
  (p q : A * B) : bool := ea (fst p) (fst q) && eb (snd p) (snd q).

Definition natpair_eqb := pair_eqb Nat.eqb Nat.eqb.
Definition zpair_eqb := pair_eqb Z.eqb Z.eqb.

Definition option_eqb {A} (eqb : A -> A -> bool) (x y : option A) : bool :=
  match x, y with
  | Some a, Some b => eqb a b
  | None, None => true
  | _, _ => false
  end.

Fixpoint mem_nat (x : nat) (l : list nat) : bool :=
  match l with [] => false | y :: t => Nat.eqb x y || mem_nat x t end.

Fixpoint mem_Z (x : Z) (l : list Z) : bool :=
  match l with [] => false | y :: t => Z.eqb x y || mem_Z x t end.

(** Insertion sort on a key in Z (stable). *)
Fixpoint insert_by {A} (key : A -> Z) (x : A) (l : list A) : list A :=
  match l with
  | [] => [x]
  | y :: t => if (key x <=? key y)%Z then x :: y :: t else y :: insert_by key x t
  end.
Fixpoint sort_by {A} (key : A -> Z) (l : list A) : list A :=
  match l with
  | [] => []
  | x :: t => insert_by key x (sort_by key t)
  end.
