(** The whole `spowtd classify` COMMAND at table level (classify.classify_intervals):
    one transaction that inserts the thresholds row and then, for every data
    interval of the loaded dataset in label order, the rows of
    classify_interstorms and match_all_storms.

    Input: the gap-free stretches of the loaded dataset exactly as the SQL join of
    the two passes returns them,

      grid_time JOIN rainfall_intensity ON from_epoch = grid_time.epoch AND data_interval = ?
                JOIN water_level ON rainfall_intensity.from_epoch = water_level.epoch
      ORDER BY from_epoch

    i.e. per label the grid instants that carry BOTH a rainfall step starting
    there and a water level (the closing instant of the grid carries neither, so
    a data interval holding only that instant is an empty stretch; every joined
    sample, the last one included, carries a rainfall step: rain, zeta and
    epochs have the same length n, there are n-1 increments, and a storm may
    close at "last epoch + step").

    Output: [res command_rows] = the rows of thresholds, grid_time_flags, storm,
    zeta_interval, zeta_interval_storm after COMMIT, or the kind of exception:
      - EIntegrity  a NOT NULL / PRIMARY KEY / UNIQUE / CHECK constraint of
                    schema.sql is violated by the inserted rows (FOREIGN KEYs
                    are NOT enforced on this connection; they are a theorem);
      - EValue      "No valid data intervals found" / "Nonuniform time steps";
      - EAssert     one of the code's own assertions.
    The constraints are evaluated on the final row lists: a statement of the
    transaction fails iff the final lists violate the constraint (keys only
    accumulate), so "some statement fails" is modelled exactly; which of several
    simultaneous violations is reported first is not (none occurs on loaded data:
    Proofs/ClassifyCommandSpec.v). Per stretch the rows are those of
    [classify_stretch] (Model/ClassifyEpochs.v), unchanged. *)
From Spowtd Require Export Model.ClassifyEpochs.
From Coq Require Import Uint63.

Record stretch := mkStretch {
  s_label : Z;                 (* grid_time.data_interval *)
  s_epochs : list Z;           (* water_level.epoch of the joined samples, in time order *)
  s_rain : list float;         (* rainfall_intensity_mm_h of the step starting at each sample *)
  s_zeta : list float          (* zeta_mm at each sample *)
}.

(** * What `load` guarantees about the stretches (decidable) *)

(** consecutive epochs differ by exactly [step] *)
Fixpoint step_chain (step : Z) (ep : list Z) : bool :=
  match ep with
  | a :: ((b :: _) as t) => (b =? a + step)%Z && step_chain step t
  | _ => true
  end.

Fixpoint increasing (l : list Z) : bool :=
  match l with
  | a :: ((b :: _) as t) => (a <? b)%Z && increasing t
  | _ => true
  end.

Definition stretch_ok (step : Z) (s : stretch) : bool :=
  step_chain step (s_epochs s)
  && Nat.eqb (length (s_rain s)) (length (s_epochs s))
  && Nat.eqb (length (s_zeta s)) (length (s_epochs s)).

Definition all_epochs (ds : list stretch) : list Z := flat_map s_epochs ds.

(** time step positive; every stretch on the grid with one rain value and one
    level per epoch; all epochs of all stretches in strictly increasing order
    when the stretches are taken in label order (in particular pairwise
    distinct: grid_time.epoch is a key and a grid instant has one label); labels
    strictly increasing (SELECT DISTINCT ... ORDER BY data_interval).
    NOT guaranteed by load, hence not part of this predicate: two stretches may
    be exactly one step apart (a water-level series finer than the grid with a
    short outage), a stretch may be empty or have a single sample, the list may
    be empty, a level may be infinite (see notes/C01.md). *)
Definition loaded_ok (step : Z) (ds : list stretch) : bool :=
  (0 <? step)%Z
  && forallb (stretch_ok step) ds
  && increasing (all_epochs ds)
  && increasing (map s_label ds).

Definition levels_finite (ds : list stretch) : bool :=
  forallb (fun s => forallb PrimFloat.is_finite (s_zeta s)) ds.

(** * One data interval: populate_zeta_interval *)

(** check_for_uniform_time_steps: min of the differences = max of the differences *)
Definition uniform_steps (ep : list Z) : bool :=
  match ep with
  | a :: b :: _ => step_chain (b - a) ep
  | _ => true
  end.

(** Python slice l[a:b] *)
Definition slice {A} (l : list A) (a b : nat) : list A := firstn (b - a) (skipn a l).

(** the two assertions at the head of the loop of match_all_storms:
    is_storm[rain_start:rain_stop].all() and
    (np.diff(zeta_mm[jump_start:jump_stop]) > jump_delta_threshold).all() *)
Definition pair_asserts (heavy jumpf : list bool) (p : (nat * nat) * (nat * nat)) : bool :=
  forallb (fun b : bool => b) (slice heavy (fst (fst p)) (snd (fst p)))
  && forallb (fun b : bool => b) (slice jumpf (fst (snd p)) (snd (snd p) - 1)).

Definition classify_stretch_cmd (step : Z) (thr_s thr_j : float) (s : stretch) (sched : list nat)
  : res stretch_rows :=
  if negb (uniform_steps (s_epochs s)) then Err EValue
  else if negb (forallb PrimFloat.is_finite (s_zeta s)) then Err EAssert   (* assert np.isfinite(zeta_mm).all() *)
  else
    bind (match_storms_data thr_s (jump_delta thr_j step) (s_rain s) (s_zeta s) sched) (fun pairs =>
    if forallb (pair_asserts (heavy_flags thr_s (s_rain s)) (jump_incr_flags thr_j step (s_zeta s))) pairs
    then classify_stretch (s_epochs s) step thr_s thr_j (s_rain s) (s_zeta s) sched
    else Err EAssert).

(** the loop over the data intervals; stretch k uses schedule k (pop order of
    the Python set in its arbitration), [] when the list is too short *)
Fixpoint classify_all (step : Z) (thr_s thr_j : float) (ds : list stretch) (scheds : list (list nat))
  : res (list stretch_rows) :=
  match ds with
  | [] => Ok []
  | s :: ds' =>
      bind (classify_stretch_cmd step thr_s thr_j s (hd [] scheds)) (fun r =>
      bind (classify_all step thr_s thr_j ds' (tl scheds)) (fun rs => Ok (r :: rs)))
  end.

(** * The tables *)
Inductive itype := TStorm | TInterstorm.        (* zeta_interval.interval_type: 'storm' | 'interstorm' *)
Definition itype_eqb (a b : itype) : bool :=
  match a, b with TStorm, TStorm | TInterstorm, TInterstorm => true | _, _ => false end.

Record command_rows := {
  c_thresholds : list (float * float);                (* thresholds (singleton) *)
  c_flags : list (Z * (bool * bool * bool));          (* grid_time_flags *)
  c_storm : list (Z * Z);                             (* storm (start_epoch, thru_epoch) *)
  c_zeta_interval : list (Z * itype * Z);             (* zeta_interval (start_epoch, interval_type, thru_epoch) *)
  c_link : list (Z * itype * Z)                       (* zeta_interval_storm (interval_start_epoch, interval_type,
                                                         storm_start_epoch) *)
}.

Definition zi_start (r : Z * itype * Z) : Z := fst (fst r).
Definition zi_type (r : Z * itype * Z) : itype := snd (fst r).
Definition zi_thru (r : Z * itype * Z) : Z := snd r.

(** rows of zeta_interval / zeta_interval_storm of one stretch, in insertion order *)
Definition zi_of (r : stretch_rows) : list (Z * itype * Z) :=
  map (fun p => (fst p, TInterstorm, snd p)) (interstorm_rows r)
  ++ map (fun p => (fst p, TStorm, snd p)) (rise_rows r).
Definition links_of (r : stretch_rows) : list (Z * itype * Z) :=
  map (fun p => (fst p, TStorm, snd p)) (link_rows r).

Definition tables_of (thr_s thr_j : float) (rs : list stretch_rows) : command_rows :=
  {| c_thresholds := [(thr_s, thr_j)];
     c_flags := flat_map flag_rows rs;
     c_storm := flat_map storm_rows rs;
     c_zeta_interval := flat_map zi_of rs;
     c_link := flat_map links_of rs |}.

(** * Constraints of schema.sql on the inserted rows *)
Fixpoint nodup_Z (l : list Z) : bool :=
  match l with [] => true | x :: t => negb (mem_Z x t) && nodup_Z t end.

Definition lt_row (p : Z * Z) : bool := (fst p <? snd p)%Z.

Definition constraints_ok (c : command_rows) : bool :=
  (* thresholds: is_valid PRIMARY KEY DEFAULT 1 CHECK (is_valid = 1): at most one row *)
  Nat.eqb (length (c_thresholds c)) 1
  (* grid_time_flags: start_epoch PRIMARY KEY *)
  && nodup_Z (map fst (c_flags c))
  (* storm: PRIMARY KEY (start_epoch), CHECK (start_epoch < thru_epoch) *)
  && nodup_Z (map fst (c_storm c)) && forallb lt_row (c_storm c)
  (* zeta_interval: start_epoch PRIMARY KEY (over both interval types), CHECK (start_epoch < thru_epoch);
     UNIQUE (start_epoch, interval_type) follows from the key; CHECK (interval_type in ...) by typing *)
  && nodup_Z (map zi_start (c_zeta_interval c))
  && forallb (fun r => (zi_start r <? zi_thru r)%Z) (c_zeta_interval c)
  (* zeta_interval_storm: interval_start_epoch PRIMARY KEY, storm_start_epoch UNIQUE,
     CHECK (interval_type = 'storm') *)
  && nodup_Z (map zi_start (c_link c)) && nodup_Z (map zi_thru (c_link c))
  && forallb (fun r => itype_eqb (zi_type r) TStorm) (c_link c).

(** "assert not already_seen": the same (start, thru) storm row twice *)
Fixpoint repeated_pair (l : list (Z * Z)) : bool :=
  match l with [] => false | x :: t => mem_by zpair_eqb x t || repeated_pair t end.

(** * classify_intervals *)
Definition classify_command (step : Z) (thr_s thr_j : float) (ds : list stretch)
  (scheds : list (list nat)) : res command_rows :=
  (* INSERT INTO thresholds: sqlite3 binds a NaN as NULL, the columns are NOT NULL *)
  if PrimFloat.is_nan thr_s || PrimFloat.is_nan thr_j then Err EIntegrity
  else match ds with
  | [] => Err EValue                            (* "No valid data intervals found" *)
  | _ =>
      bind (classify_all step thr_s thr_j ds scheds) (fun rs =>
      let c := tables_of thr_s thr_j rs in
      if repeated_pair (c_storm c) then Err EAssert
      else if constraints_ok c then Ok c else Err EIntegrity)
  end.

(** * Shifting all epochs (C07) *)
Definition shift_stretch (d : Z) (s : stretch) : stretch :=
  {| s_label := s_label s; s_epochs := map (fun t => (t + d)%Z) (s_epochs s);
     s_rain := s_rain s; s_zeta := s_zeta s |}.
Definition shift_zi (d : Z) (r : Z * itype * Z) : Z * itype * Z :=
  ((zi_start r + d)%Z, zi_type r, (zi_thru r + d)%Z).
Definition shift_command (d : Z) (c : command_rows) : command_rows :=
  {| c_thresholds := c_thresholds c;
     c_flags := map (fun p => ((fst p + d)%Z, snd p)) (c_flags c);
     c_storm := map (shift_pair d) (c_storm c);
     c_zeta_interval := map (shift_zi d) (c_zeta_interval c);
     c_link := map (shift_zi d) (c_link c) |}.

(** * Comparison with the tables read from the database (correspondence) *)
Definition flagrow_eqb := pair_eqb Z.eqb (pair_eqb (pair_eqb Bool.eqb Bool.eqb) Bool.eqb).
Definition zirow_eqb := pair_eqb (pair_eqb Z.eqb itype_eqb) Z.eqb.
Definition floatpair_eqb := pair_eqb PrimFloat.eqb PrimFloat.eqb.

(** tables as sets of rows (SELECT without ORDER BY); thresholds compared with
    IEEE equality (never NaN in a stored row) *)
Definition command_rows_eqb (a b : command_rows) : bool :=
  list_eqb floatpair_eqb (c_thresholds a) (c_thresholds b)
  && same_set flagrow_eqb (c_flags a) (c_flags b)
  && same_set zpair_eqb (c_storm a) (c_storm b)
  && same_set zirow_eqb (c_zeta_interval a) (c_zeta_interval b)
  && same_set zirow_eqb (c_link a) (c_link b).

(** the three fixed schedules used where the outcome does not depend on the pop
    order (no ties); stretch k gets the same schedule shape *)
Definition command_agrees (step : Z) (thr_s thr_j : float) (ds : list stretch)
  (impl : res command_rows) : bool :=
  let n := fold_right (fun s acc => Nat.max (length (s_epochs s)) acc) 0 ds in
  let k := length ds in
  res_eqb command_rows_eqb (classify_command step thr_s thr_j ds []) impl
  && res_eqb command_rows_eqb (classify_command step thr_s thr_j ds (repeat (repeat 1 n) k)) impl
  && res_eqb command_rows_eqb (classify_command step thr_s thr_j ds (repeat (seq 0 n) k)) impl.

(** * A concrete dataset (non-vacuity of the theorems, Properties/C01.v, C03.v)
    Hourly grid, two stretches separated by an outage (the grid instant
    1361332800 carries no water level).  Stretch 1 ends in a storm that runs to
    its last sample, so the storm closes at "last epoch + step" = 1361332800, an
    instant inside the outage; stretch 2 begins in a storm, followed by light
    rain and a recession.  Thresholds 4 mm/h (rain) and 1 mm/h (rise). *)
Definition example_dataset : list stretch :=
  [ mkStretch 1 [1361318400; 1361322000; 1361325600; 1361329200]%Z
      [0; 0; 9; 9]%float [0; 0; 10; 20]%float;
    mkStretch 2 [1361336400; 1361340000; 1361343600; 1361347200; 1361350800]%Z
      [9; 0.5; 0; 0; 0]%float [0; 10; 9; 8; 7]%float ].
Definition example_rows : command_rows :=
  {| c_thresholds := [(4%float, 1%float)];
     c_flags := [(1361318400, (false, true, false)); (1361322000, (false, true, false));
                 (1361325600, (true, false, false)); (1361329200, (true, false, false));
                 (1361336400, (false, false, false)); (1361340000, (true, false, false));
                 (1361343600, (false, false, true)); (1361347200, (false, false, true));
                 (1361350800, (false, false, true))]%Z;
     c_storm := [(1361325600, 1361332800); (1361336400, 1361340000)]%Z;
     c_zeta_interval := [(1361322000, TStorm, 1361329200); (1361343600, TInterstorm, 1361350800);
                         (1361336400, TStorm, 1361340000)]%Z;
     c_link := [(1361322000, TStorm, 1361325600); (1361336400, TStorm, 1361336400)]%Z |}.

(** * Case checkers of the correspondence (harness/classify_common.py) *)
Definition is_interstorm_row (r : Z * itype * Z) : bool := itype_eqb (zi_type r) TInterstorm.

(** with ties in the rises' preferences the recorded pairs may depend on the pop
    order: compare what does not (thresholds, per-step flags, interstorm rows) *)
Definition command_rows_eqb_ties (a b : command_rows) : bool :=
  list_eqb floatpair_eqb (c_thresholds a) (c_thresholds b)
  && same_set flagrow_eqb (c_flags a) (c_flags b)
  && same_set zirow_eqb (filter is_interstorm_row (c_zeta_interval a))
                        (filter is_interstorm_row (c_zeta_interval b)).

Definition command_case (c : Z * float * float * list stretch * res command_rows) : bool :=
  match c with
  | (step, ts, tj, ds, impl) => loaded_ok step ds && command_agrees step ts tj ds impl
  end.

Definition command_case_ties (c : Z * float * float * list stretch * res command_rows) : bool :=
  match c with
  | (step, ts, tj, ds, impl) =>
      loaded_ok step ds && res_eqb command_rows_eqb_ties (classify_command step ts tj ds []) impl
  end.
