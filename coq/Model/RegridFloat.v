(** Float layer of regrid.regrid and fit_offsets.build_head_mapping: the
    ordinates are divided by the step in IEEE-754 binary64 (PrimFloat division
    is bit-exact), converted exactly to rationals, and handed to Model/Regrid.v.
    Also the executable comparison functions used by the generated case files
    (tolerance of DESIGN.md section 7, C12).  Definitions only. *)
From Spowtd Require Export Model.Regrid.
From Coq Require Export PrimFloat.
From Coq Require Import FloatOps SpecFloat.

(** Exact value of a finite binary64 number; None for infinities and NaN. *)
Definition float_to_Q (f : float) : option Q :=
  match Prim2SF f with
  | S754_zero _ => Some 0
  | S754_finite s m e =>
      let n := if s then Z.neg m else Z.pos m in
      Some (match e with
            | Z0 => inject_Z n
            | Zpos p => inject_Z (n * 2 ^ Zpos p)
            | Zneg p => Qmake n (2 ^ p)%positive
            end)
  | _ => None
  end.

Definition finiteb (f : float) : bool :=
  match float_to_Q f with Some _ => true | None => false end.

(** Unit in the last place of a finite float (0 for zero): the exponent of the
    53-bit mantissa representation returned by Prim2SF. *)
Definition ulp_Q (f : float) : Q :=
  match Prim2SF f with
  | S754_finite _ _ e =>
      match e with
      | Z0 => 1
      | Zpos p => inject_Z (2 ^ Zpos p)
      | Zneg p => Qmake 1 (2 ^ p)%positive
      end
  | _ => 0
  end.

(** Y = y / y_step *)
Definition scale (step : float) (y : list float) : list float :=
  map (fun v => PrimFloat.div v step) y.

Fixpoint all_to_Q (l : list float) : option (list Q) :=
  match l with
  | [] => Some []
  | f :: t =>
      match float_to_Q f, all_to_Q t with
      | Some q, Some qs => Some (q :: qs)
      | _, _ => None
      end
  end.

(** np.array(np.ceil(Y), dtype=np.int64) is only defined inside the int64 range. *)
Definition int64_ok (q : Q) : bool :=
  Qle_bool (inject_Z (- 2 ^ 62)) q && Qle_bool q (inject_Z (2 ^ 62)).

(** The checks regrid performs before the loop, and the scaled series it then
    works on: (points (x_i, Y_i), ulp of each Y_i).
    Err EOther = outside the model (quotient not finite or beyond int64: numpy's
    cast is undefined there); the harness does not generate such inputs. *)
Definition regrid_prepare (x : list Q) (y : list float) (step : float)
  : res (list (Q * Q) * list Q) :=
  if negb (Nat.eqb (length x) (length y)) then Err EValue
  else if Nat.eqb (length x) 0 then Ok ([], [])
  else if negb (forallb finiteb y) then Err EValue
  else
    let Yf := scale step y in
    match all_to_Q Yf with
    | Some Ys =>
        if forallb int64_ok Ys then Ok (combine x Ys, map ulp_Q Yf) else Err EOther
    | None => Err EOther
    end.

(** regrid.regrid(x, y, step): the yielded items (level, position). *)
Definition regrid (x : list Q) (y : list float) (step : float) : res (list (Z * Q)) :=
  bind (regrid_prepare x y step) (fun pu => Ok (regrid_Q (fst pu))).

(** ** Tolerance attached to each position (root finder = oracle)

    brentq stops when the bracket is shorter than xtol + rtol |x| (2e-12,
    8.9e-16); the interpolant it is given is evaluated in floating point with an
    error of a few ulp of the ordinates, which moves the root by that error
    divided by the slope:
      4 (2e-12 + 8.9e-16 max(|x_i|, |x_i+1|)) + 8 ulp(max(|Y_i|, |Y_i+1|)) |dx / dY|. *)
Definition pair_tol (p0 p1 : Q * Q) (u slope : Q) : Q :=
  Qred (4 * ((2 # 1000000000000)
             + (89 # 100000000000000000) * Qmax (Qabs (fst p0)) (Qabs (fst p1)))
        + 8 * u * Qabs slope).

(** The items of one pair with their tolerance (|x| of the stopping rule is
    bounded by the larger end of the bracket).  Same levels as [seg_out];
    the position is computed from per-pair constants in lowest terms (equal as a
    rational to [cross], see Proofs/RegridFloatSpec.v: [regrid_with_tol_agrees]),
    which keeps the integers small when this is evaluated on thousands of cases. *)
Definition seg_out_tol (p0 p1 : Q * Q) (u : Q) : list (Z * (Q * Q)) :=
  let x0 := Qred (fst p0) in
  let Y0 := Qred (snd p0) in
  let slope := Qred ((fst p1 - fst p0) / (snd p1 - snd p0)) in
  let tol := pair_tol p0 p1 u slope in
  map (fun k => (k, (x0 + (inject_Z k - Y0) * slope, tol)))
      (targets (Qceiling (snd p0)) (Qceiling (snd p1))).

Fixpoint regrid_tol_from (pts : list (Q * Q)) (us : list Q) : list (Z * (Q * Q)) :=
  match pts, us with
  | p0 :: ((p1 :: _) as t), u0 :: ((u1 :: _) as ut) =>
      seg_out_tol p0 p1 (Qmax u0 u1) ++ regrid_tol_from t ut
  | _, _ => []
  end.

Definition regrid_with_tol (x : list Q) (y : list float) (step : float)
  : res (list (Z * (Q * Q))) :=
  bind (regrid_prepare x y step) (fun pu => Ok (regrid_tol_from (fst pu) (snd pu))).

Definition within (m : Q * Q) (i : Q) : bool := Qle_bool (Qabs (i - fst m)) (snd m).

Fixpoint items_close (m : list (Z * (Q * Q))) (i : list (Z * Q)) : bool :=
  match m, i with
  | [], [] => true
  | (k, pt) :: m', (k', x) :: i' => Z.eqb k k' && within pt x && items_close m' i'
  | _, _ => false
  end.

(** Case of the function-level check: inputs and what the implementation yielded. *)
Definition check_regrid (c : list Q * list float * float * res (list (Z * Q))) : bool :=
  match c with
  | (x, y, step, impl) =>
      match regrid_with_tol x y step, impl with
      | Ok m, Ok i => items_close m i
      | Err a, Err b => err_eqb a b
      | _, _ => false
      end
  end.

(** The same case with abscissae and reported positions given as binary64
    literals (cheap to parse); they are converted exactly. *)
Definition items_to_Q (l : list (Z * float)) : option (list (Z * Q)) :=
  match all_to_Q (map snd l) with
  | Some qs => Some (combine (map fst l) qs)
  | None => None
  end.

Definition res_items_to_Q (r : res (list (Z * float))) : option (res (list (Z * Q))) :=
  match r with
  | Ok l => option_map Ok (items_to_Q l)
  | Err e => Some (Err e)
  end.

Definition check_regrid_f (c : list float * list float * float * res (list (Z * float))) : bool :=
  match c with
  | (x, y, step, impl) =>
      match all_to_Q x, res_items_to_Q impl with
      | Some xq, Some iq => check_regrid (xq, y, step, iq)
      | _, _ => false
      end
  end.

(** Only the ordered sequence of levels (exact part of the comparison). *)
Definition check_regrid_levels (c : list Q * list float * float * res (list Z)) : bool :=
  match c with
  | (x, y, step, impl) =>
      res_eqb (list_eqb Z.eqb)
              (bind (regrid x y step) (fun l => Ok (map fst l))) impl
  end.

(** ** build_head_mapping with tolerances *)

Definition qmaxl (l : list Q) : Q := fold_right Qmax 0 l.

(** np.mean of the positions; tolerance = the largest of the positions'
    tolerances plus the rounding of a floating-point mean. *)
Definition summ_tol (l : list (Q * Q)) : Q * Q :=
  let xs := map fst l in
  (qmean xs,
   qmaxl (map snd l)
   + inject_Z (Z.of_nat (length l) + 2) * (23 # 100000000000000000) * qmaxl (map Qabs xs)).

Fixpoint all_ok {A} (l : list (res A)) : res (list A) :=
  match l with
  | [] => Ok []
  | r :: t => bind r (fun a => bind (all_ok t) (fun t' => Ok (a :: t')))
  end.

Definition build_head_mapping_tol (series : list (list Q * list float)) (step : float)
  : res (list (Z * list (nat * (Q * Q)))) :=
  bind (all_ok (map (fun s => regrid_with_tol (fst s) (snd s) step) series))
       (fun all_items => Ok (head_mapping_gen summ_tol all_items)).

(** fit_offsets.build_head_mapping(series, step) with exact means. *)
Definition build_head_mapping (series : list (list Q * list float)) (step : float)
  : res (list (Z * list (nat * Q))) :=
  bind (all_ok (map (fun s => regrid (fst s) (snd s) step) series))
       (fun all_items => Ok (head_mapping_gen qmean all_items)).

Fixpoint entries_close (m : list (nat * (Q * Q))) (i : list (nat * Q)) : bool :=
  match m, i with
  | [], [] => true
  | (s, pt) :: m', (s', x) :: i' => Nat.eqb s s' && within pt x && entries_close m' i'
  | _, _ => false
  end.

Fixpoint mapping_close (m : list (Z * list (nat * (Q * Q)))) (i : list (Z * list (nat * Q))) : bool :=
  match m, i with
  | [], [] => true
  | (k, e) :: m', (k', e') :: i' => Z.eqb k k' && entries_close e e' && mapping_close m' i'
  | _, _ => false
  end.

Fixpoint series_to_Q (l : list (list float * list float)) : option (list (list Q * list float)) :=
  match l with
  | [] => Some []
  | (x, y) :: t =>
      match all_to_Q x, series_to_Q t with
      | Some xq, Some t' => Some ((xq, y) :: t')
      | _, _ => None
      end
  end.

Fixpoint entries_to_Q (l : list (nat * float)) : option (list (nat * Q)) :=
  match l with
  | [] => Some []
  | (s, f) :: t =>
      match float_to_Q f, entries_to_Q t with
      | Some q, Some t' => Some ((s, q) :: t')
      | _, _ => None
      end
  end.

Fixpoint mapping_to_Q (l : list (Z * list (nat * float))) : option (list (Z * list (nat * Q))) :=
  match l with
  | [] => Some []
  | (k, e) :: t =>
      match entries_to_Q e, mapping_to_Q t with
      | Some e', Some t' => Some ((k, e') :: t')
      | _, _ => None
      end
  end.

Definition check_head_mapping
  (c : list (list Q * list float) * float * res (list (Z * list (nat * Q)))) : bool :=
  match c with
  | (series, step, impl) =>
      match build_head_mapping_tol series step, impl with
      | Ok m, Ok i => mapping_close m i
      | Err a, Err b => err_eqb a b
      | _, _ => false
      end
  end.

Definition check_head_mapping_f
  (c : list (list float * list float) * float * res (list (Z * list (nat * float)))) : bool :=
  match c with
  | (series, step, impl) =>
      match series_to_Q series,
            (match impl with Ok m => option_map Ok (mapping_to_Q m) | Err e => Some (Err e) end) with
      | Some sq, Some iq => check_head_mapping (sq, step, iq)
      | _, _ => false
      end
  end.
