(** C16 — float layer of the ceiling decision of
    PeatclsmTransmissivity.__call__ (binary64, bit-exact; definitions only).

      if (water_level_mm / 10 > zeta_max_cm).any(): raise ValueError
      ... (zeta_max_cm - water_level_mm / 10) ** (1 - alpha) ...

    The real-valued model (Model/Peatclsm.v, T_peat) decides on the exact
    quotient; the code decides on the rounded one.  Within a few ulp of the
    ceiling the two can differ; this file models what the code does there. *)
From Coq Require Import PrimFloat Uint63 List Bool.
From Spowtd Require Import Model.Util.
Import ListNotations.

Definition ten : float := 0x1.4p+3%float.

(** water_level_mm / 10 > zeta_max_cm *)
Definition refused_f (zmax z : float) : bool := PrimFloat.ltb zmax (PrimFloat.div z ten).

(** zeta_max_cm - water_level_mm / 10 == 0: then 0.0 ** (1 - alpha) = inf (alpha > 1). *)
Definition at_ceiling_f (zmax z : float) : bool :=
  PrimFloat.eqb (PrimFloat.sub zmax (PrimFloat.div z ten)) 0%float.

(** One observed case: ceiling, level, whether the implementation raised
    ValueError, whether it returned inf.  (inf may also arise by overflow of
    the power just below the ceiling, so only one direction is checked.) *)
Definition ceiling_check (c : float * float * bool * bool) : bool :=
  let '(zmax, z, refused, isinf) := c in
  Bool.eqb (refused_f zmax z) refused &&
  (if negb refused && at_ceiling_f zmax z then isinf else true).
