(** Float layer of the reference-level handling in rise.py / recession.py
    (after the repair): index = int(round(ref / step)) (Python round: half to
    even), refused unless |ref - index*step| <= 1e-8 (np.allclose(.., 0)).
    PrimFloat = IEEE-754 binary64, bit exact. *)
From Spowtd Require Export Model.Util.
From Coq Require Import PrimFloat Uint63 FloatOps SpecFloat.

(** exact integer rounding (half to even) of a finite float; None for nan/inf *)
Definition round_half_even (x : float) : option Z :=
  match Prim2SF x with
  | S754_zero _ => Some 0%Z
  | S754_finite s m e =>
      let mz := Zpos m in
      let v := if (0 <=? e)%Z then (mz * 2 ^ e)%Z
               else
                 let d := (2 ^ (- e))%Z in
                 let q := (mz / d)%Z in
                 let r := (mz mod d)%Z in
                 let half := (d / 2)%Z in
                 if (half <? r)%Z then (q + 1)%Z
                 else if (r =? half)%Z then (if Z.even q then q else q + 1)%Z
                 else q in
      Some (if s then (- v)%Z else v)
  | _ => None
  end.

Definition float_of_Z (z : Z) : float :=
  if (z <? 0)%Z then PrimFloat.opp (PrimFloat.of_uint63 (Uint63.of_Z (- z)))
  else PrimFloat.of_uint63 (Uint63.of_Z z).

(** Some (Some k): accepted with index k; Some None: refused (ValueError); None: ref/step not finite *)
Definition reference_index (ref step : float) : res Z :=
  match round_half_even (PrimFloat.div ref step) with
  | None => Err EValue
  | Some k =>
      let d := PrimFloat.abs (PrimFloat.sub ref (PrimFloat.mul (float_of_Z k) step)) in
      if PrimFloat.leb d 0x1.5798ee2308c3ap-27%float   (* 1e-8 *)
      then Ok k else Err EValue
  end.
