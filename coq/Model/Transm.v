(** C15 — model of spowtd/transmissivity.py:SplineTransmissivity over the reals.

    Definitions only (proofs are in Proofs/TransmSpec.v).

    Python                                              model
    ------------------------------------------------    --------------------------
    np.log(K_knots)                                     [logk]
    Spline.from_points(zip(zeta, logK), order=1)        [pl_interp] (order-1 FITPACK
      + Spline.__call__ (clamping)                         spline = the polygon through the
                                                           points; constant outside)
    from_points: finite / strictly increasing checks    [construct]
    conductivity (assert >= min, NotImplemented >= max) [conductivity]
    call_scalar                                         [call_scalar] (quad = parameter)
    __call__ on an array                                [call_array] (list comprehension)

    The closed form [T_closed] is what the generated case files evaluate with
    the [interval] tactic; [T_math] is the property's wording (minimum +
    integral of the conductivity). *)
From Coq Require Import Reals List.
From Coquelicot Require Import Coquelicot.
From Spowtd Require Import Model.Util.
Import ListNotations.
Open Scope R_scope.

(** Polygon through (x0,y0) :: rest, evaluated at x >= x0; constant after the
    last point (Spline.__call__ clamps its argument to the knot range). *)
Fixpoint pl_above (x0 y0 : R) (rest : list (R * R)) (x : R) : R :=
  match rest with
  | [] => y0
  | (x1, y1) :: t =>
      if Rle_dec x x1 then y0 + (y1 - y0) / (x1 - x0) * (x - x0)
      else pl_above x1 y1 t x
  end.

Definition pl_interp (pts : list (R * R)) (x : R) : R :=
  match pts with
  | [] => 0
  | (x0, y0) :: rest => if Rle_dec x x0 then y0 else pl_above x0 y0 rest x
  end.

Definition logk (knots : list (R * R)) : list (R * R) :=
  map (fun p => (fst p, ln (snd p))) knots.

(** Conductivity as a total real function: exp of the interpolated log. *)
Definition K_math (knots : list (R * R)) (z : R) : R := exp (pl_interp (logk knots) z).

Definition zmin (knots : list (R * R)) : R := fst (hd (0, 0) knots).
Definition zmax (knots : list (R * R)) : R := fst (last knots (0, 0)).

(** Strictly increasing abscissae, positive conductivities. *)
Fixpoint increasing_from (x0 : R) (rest : list (R * R)) : Prop :=
  match rest with
  | [] => True
  | (x1, _) :: t => x0 < x1 /\ increasing_from x1 t
  end.
Definition increasing (knots : list (R * R)) : Prop :=
  match knots with [] => True | (x0, _) :: rest => increasing_from x0 rest end.
Definition positive_K (knots : list (R * R)) : Prop := Forall (fun p => 0 < snd p) knots.

(** The property's wording: minimum at and below the lowest knot, otherwise
    minimum + integral of the conductivity from the lowest knot. *)
Definition T_math (knots : list (R * R)) (Tmin z : R) : R :=
  if Rle_dec z (zmin knots) then Tmin else Tmin + RInt (K_math knots) (zmin knots) z.

(** Closed form of one segment: integral from x0 to x of
    k0 * exp (b (t - x0)), b = (ln k1 - ln k0) / (x1 - x0). *)
Definition seg (x0 k0 x1 k1 x : R) : R :=
  if Req_EM_T k0 k1 then k0 * (x - x0)
  else (k0 * exp ((ln k1 - ln k0) / (x1 - x0) * (x - x0)) - k0)
       / ((ln k1 - ln k0) / (x1 - x0)).

Fixpoint closed_above (x0 k0 : R) (rest : list (R * R)) (x : R) : R :=
  match rest with
  | [] => k0 * (x - x0)
  | (x1, k1) :: t =>
      if Rle_dec x x1 then seg x0 k0 x1 k1 x
      else seg x0 k0 x1 k1 x1 + closed_above x1 k1 t x
  end.

Definition T_closed (knots : list (R * R)) (Tmin z : R) : R :=
  match knots with
  | [] => Tmin
  | (x0, k0) :: rest => if Rle_dec z x0 then Tmin else Tmin + closed_above x0 k0 rest z
  end.

(** ---- the code path, with Python exceptions ---- *)

(** Spline.from_points + np.log: ValueError unless the abscissae increase
    strictly and every log is finite (K > 0; K = 0 gives -inf, K < 0 gives nan;
    the finiteness test comes first); FITPACK needs more points than the order
    (m > k, raised as TypeError by splrep). *)
Fixpoint increasingb_from (x0 : R) (rest : list (R * R)) : bool :=
  match rest with
  | [] => true
  | (x1, _) :: t => if Rlt_dec x0 x1 then increasingb_from x1 t else false
  end.
Definition increasingb (knots : list (R * R)) : bool :=
  match knots with [] => true | (x0, _) :: rest => increasingb_from x0 rest end.
Definition positiveb (knots : list (R * R)) : bool :=
  forallb (fun p => if Rlt_dec 0 (snd p) then true else false) knots.

Definition construct (knots : list (R * R)) : res (list (R * R)) :=
  if negb (positiveb knots) then Err EValue
  else if negb (increasingb knots) then Err EValue
  else match knots with
       | [] => Err EValue     (* zip of no points cannot be unpacked *)
       | [_] => Err EType
       | _ => Ok knots
       end.

(** SplineTransmissivity.conductivity *)
Definition conductivity (knots : list (R * R)) (z : R) : res R :=
  if Rle_dec (zmin knots) z then
    if Rle_dec (zmax knots) z then Err ENotImpl else Ok (K_math knots z)
  else Err EAssert.

(** SplineTransmissivity.call_scalar; [quad f a b] stands for
    scipy.integrate.quad(f, a, b)[0] (an oracle, see Proofs/TransmSpec.v). *)
Definition call_scalar (quad : (R -> res R) -> R -> R -> res R)
  (knots : list (R * R)) (Tmin z : R) : res R :=
  if Rle_dec z (zmin knots) then Ok Tmin
  else bind (quad (conductivity knots) (zmin knots) z) (fun q => Ok (Tmin + q)).

(** [np.array([self.call_scalar(v) for v in levels])]: the first exception wins. *)
Fixpoint call_array (quad : (R -> res R) -> R -> R -> res R)
  (knots : list (R * R)) (Tmin : R) (zs : list R) : res (list R) :=
  match zs with
  | [] => Ok []
  | z :: t => bind (call_scalar quad knots Tmin z) (fun v =>
              bind (call_array quad knots Tmin t) (fun vs => Ok (v :: vs)))
  end.
