(** C15 — Ltac used by the generated case files: evaluates [T_closed] on
    literal knots (decides the real comparisons with [lra]) and leaves an
    expression over exp / ln that the [interval] tactic encloses. *)
From Coq Require Import Reals List Lra.
From Coquelicot Require Import Coquelicot.
From Interval Require Import Tactic.
From Spowtd Require Import Model.Util Model.Transm.
Import ListNotations.
Open Scope R_scope.

Ltac decide_Rle a b :=
  first
    [ let H := fresh "H" in
      assert (H : a <= b) by lra;
      let N := fresh "N" in
      destruct (Rle_dec a b) as [_|N]; [clear H | exfalso; exact (N H)]
    | let H := fresh "H" in
      assert (H : ~ a <= b) by lra;
      let P := fresh "P" in
      destruct (Rle_dec a b) as [P|_]; [exfalso; exact (H P) | clear H] ].

Ltac decide_Req a b :=
  first
    [ let H := fresh "H" in
      assert (H : a = b) by lra;
      let N := fresh "N" in
      destruct (Req_EM_T a b) as [_|N]; [clear H | exfalso; exact (N H)]
    | let H := fresh "H" in
      assert (H : a <> b) by lra;
      let P := fresh "P" in
      destruct (Req_EM_T a b) as [P|_]; [exfalso; exact (H P) | clear H] ].

Ltac decide_all :=
  repeat match goal with
         | |- context [Rle_dec ?a ?b] => decide_Rle a b
         | |- context [Req_EM_T ?a ?b] => decide_Req a b
         end.

Ltac T_closed_eval :=
  cbv beta iota delta [T_closed closed_above seg];
  decide_all.

Ltac decide_Rlt a b :=
  first
    [ let H := fresh "H" in
      assert (H : a < b) by lra;
      let N := fresh "N" in
      destruct (Rlt_dec a b) as [_|N]; [clear H | exfalso; exact (N H)]
    | let H := fresh "H" in
      assert (H : ~ a < b) by lra;
      let P := fresh "P" in
      destruct (Rlt_dec a b) as [P|_]; [exfalso; exact (H P) | clear H] ].

(** Evaluates [construct] on literal knots. *)
Ltac construct_eval :=
  cbv beta iota delta [construct positiveb increasingb increasingb_from forallb fst snd];
  repeat match goal with
         | |- context [Rlt_dec ?a ?b] => decide_Rlt a b
         end;
  cbv beta iota delta [negb andb].
