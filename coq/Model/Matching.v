(** Model of classify.find_stable_matching, classify.disambiguate_matching and
    the candidate generation of classify.match_storms.

    Storms and rises are identified by the index at which they start
    (rain_start / jump_start), exactly as the dictionaries of the Python code.
    The Python work set is a [set] whose pop order is unspecified: the model
    takes an explicit schedule (a list of naturals; at each step the k-th free
    storm modulo the number of free storms proposes), and the theorems quantify
    over all schedules. *)
From Spowtd Require Export Model.Runs.

(** Association lists keyed by nat (Python dicts). *)
Fixpoint alookup {A} (k : nat) (l : list (nat * A)) : option A :=
  match l with
  | [] => None
  | (k', v) :: t => if Nat.eqb k k' then Some v else alookup k t
  end.

Fixpoint aset {A} (k : nat) (v : A) (l : list (nat * A)) : list (nat * A) :=
  match l with
  | [] => [(k, v)]
  | (k', v') :: t => if Nat.eqb k k' then (k, v) :: t else (k', v') :: aset k v t
  end.

Definition remove_at (i : nat) (l : list nat) : list nat := firstn i l ++ skipn (S i) l.

(** State of the arbitration loop.
    [rem]: remaining candidate rises of each storm, next proposal first
    (the Python list is kept worst-to-best and popped from the end);
    [free]: the work set [matchable_storms]; [mt]: dict rise -> storm. *)
Record mstate := { rem : list (nat * list nat); free : list nat; mt : list (nat * nat) }.

Definition lookup_list (s : nat) (l : list (nat * list nat)) : list nat :=
  match alookup s l with Some x => x | None => [] end.

Definition rem_of (st : mstate) (s : nat) : list nat := lookup_list s (rem st).

Section Matching.
  (** [pref j s]: quality of storm [s] for rise [j] (higher is better):
      jump_preferences[jump][storm]. *)
  Variable pref : nat -> nat -> Z.

  Definition step (k : nat) (st : mstate) : res mstate :=
    match free st with
    | [] => Ok st
    | _ =>
        let i := k mod length (free st) in
        let s := nth i (free st) 0 in
        let free' := remove_at i (free st) in
        match rem_of st s with
        | [] => Err EAssert                      (* assert storm_candidates[storm] *)
        | j :: rest =>
            let rem' := aset s rest (rem st) in
            match alookup j (mt st) with
            | None => Ok {| rem := rem'; free := free'; mt := aset j s (mt st) |}
            | Some s' =>
                if (pref j s' <? pref j s)%Z then
                  if mem_nat s' free' then Err EAssert   (* assert matches[jump] not in matchable_storms *)
                  else
                    Ok {| rem := rem';
                          free := match lookup_list s' rem' with
                                  | [] => free'
                                  | _ => free' ++ [s']
                                  end;
                          mt := aset j s (mt st) |}
                else
                  Ok {| rem := rem';
                        free := match rest with [] => free' | _ => free' ++ [s] end;
                        mt := mt st |}
            end
        end
    end.

  Fixpoint run (sched : list nat) (fuel : nat) (st : mstate) : res mstate :=
    match free st with
    | [] => Ok st
    | _ =>
        match fuel with
        | 0 => Err EOther                        (* out of fuel: excluded by [run_total] *)
        | S f => bind (step (hd 0 sched) st) (run (tl sched) f)
        end
    end.

  Definition total_cands (c : list (nat * list nat)) : nat :=
    fold_right (fun p acc => length (snd p) + acc) 0 c.

  Definition init_state (cands : list (nat * list nat)) : mstate :=
    {| rem := cands;
       free := map fst (filter (fun p => match snd p with [] => false | _ => true end) cands);
       mt := [] |}.

  (** find_stable_matching: [cands] maps each storm to its candidate rises in
      proposal order (best first). Result: dict rise -> storm. *)
  Definition stable_matching (cands : list (nat * list nat)) (sched : list nat)
    : res (list (nat * nat)) :=
    bind (run sched (total_cands cands) (init_state cands)) (fun st => Ok (mt st)).
End Matching.

(** * Data level: candidates and preferences from the runs (match_storms +
      disambiguate_matching). Intervals are (start, stop) with stop exclusive;
      a rise is a *head* interval: the run of fast increments a..b-1 gives the
      head interval (a, b+1). *)

Definition rises_of (jumpf : list bool) : list (nat * nat) :=
  map (fun p => (fst p, S (snd p))) (true_runs jumpf).

(** storm (s,e) and rise (a,b) share a time step: an index i with s <= i < e
    (heavy rain on the step starting at sample i) and a <= i < b-1 (fast
    increment on that same step). *)
Definition overlaps (storm rise : nat * nat) : bool :=
  Nat.ltb (Nat.max (fst storm) (fst rise)) (Nat.min (snd storm) (snd rise - 1)).

Definition dur_key (storm rise : nat * nat) : Z :=
  Z.abs ((Z.of_nat (snd storm) - Z.of_nat (fst storm)) - (Z.of_nat (snd rise) - Z.of_nat (fst rise))).

Definition start_pref (j s : nat) : Z := - Z.abs (Z.of_nat j - Z.of_nat s).

(** Candidate rises of a storm in proposal order: Python sorts the rises
    (ascending start) by key -|duration difference| with a stable sort and pops
    from the end. *)
Definition storm_candidates (storm : nat * nat) (rises : list (nat * nat)) : list nat :=
  map fst (rev (sort_by (fun r => (- dur_key storm r)%Z) (filter (overlaps storm) rises))).

Definition all_candidates (storms rises : list (nat * nat)) : list (nat * list nat) :=
  filter (fun p => match snd p with [] => false | _ => true end)
    (map (fun st => (fst st, storm_candidates st rises)) storms).

Definition stop_of (k : nat) (l : list (nat * nat)) : nat :=
  match alookup k l with Some e => e | None => 0 end.

(** match_storms on flags: [heavy] has one flag per sample, [jumpf] one flag per
    increment. Result: list of (storm interval, rise head interval). *)
Definition match_storms_flags (heavy jumpf : list bool) (sched : list nat)
  : res (list ((nat * nat) * (nat * nat))) :=
  let storms := true_runs heavy in
  let rises := rises_of jumpf in
  bind (stable_matching start_pref (all_candidates storms rises) sched)
       (fun m => Ok (map (fun js => ((snd js, stop_of (snd js) storms),
                                    (fst js, stop_of (fst js) rises))) m)).

(** Boolean checkers used by the correspondence (results are compared as sets). *)
Definition pairpair_eqb (p q : (nat * nat) * (nat * nat)) : bool :=
  natpair_eqb (fst p) (fst q) && natpair_eqb (snd p) (snd q).

Fixpoint mem_by {A} (eqb : A -> A -> bool) (x : A) (l : list A) : bool :=
  match l with [] => false | y :: t => eqb x y || mem_by eqb x t end.

Definition same_set {A} (eqb : A -> A -> bool) (l1 l2 : list A) : bool :=
  Nat.eqb (length l1) (length l2)
  && forallb (fun x => mem_by eqb x l2) l1 && forallb (fun x => mem_by eqb x l1) l2.

(** All outcomes over all schedules (exponential; used only on small cases of
    the correspondence check, where ties make the result schedule dependent). *)
Section AllSchedules.
  Variable pref : nat -> nat -> Z.
  Fixpoint outcomes (fuel : nat) (st : mstate) : list (res (list (nat * nat))) :=
    match free st with
    | [] => [Ok (mt st)]
    | _ =>
        match fuel with
        | 0 => [Err EOther]
        | S f =>
            flat_map (fun k => match step pref k st with
                               | Ok st' => outcomes f st'
                               | Err e => [Err e]
                               end) (seq 0 (length (free st)))
        end
    end.
  Definition all_outcomes (cands : list (nat * list nat)) :=
    outcomes (total_cands cands) (init_state cands).
End AllSchedules.
