(** C18 — glue for the generated case files (never used by a proof): the
    models of Model/SimRecession.v run over exact rationals on the binary64
    values of the real code.

    Function level: compute_recession_curve with the results of its own calls
    of scipy.integrate.quad as a table (the table entries are enclosed
    separately, by the [integral] tactic, in the model's integrand: see
    Proofs/SimRecessionTac.v) - the asserts, dt[0] = 0, the cumulative sum and
    the mean shift are compared within 1e-10 of the largest value.

    Command level: the tables of the database, the arguments the command handed
    to compute_recession_curve (captured from outside), the vector it returned,
    and the parsed output of both modes.  Definitions only. *)
From Coq Require Import QArith Qabs PrimFloat ZArith.
From Spowtd Require Export Model.SimRiseFloat Model.SimRecession.

Definition tol_curve : Q := 1 # 10000000000.
Definition tol_arg : Q := 1 # 1000000000000.
Definition tol_ulp : Q := 1 # 100000000000000.

(** (a, b, quad(f, a, b)[0]) *)
Definition quad_table (cells : list (float * float * float)) : Q -> Q -> Q :=
  lookup2 (map (fun c => match c with (a, b, v) => (Qf a, Qf b, Qf v) end) cells).

Definition fl_case : Type :=
  (list (float * float * float) * list float * float * float * float * float
   * res (list float))%type.

(** (cells, grid, mean, curvature_km, et_mm_d, scale, returned vector / exception) *)
Definition fl_check (c : fl_case) : bool :=
  match c with
  | (cells, grid, mean, kappa, et, scale, impl) =>
      match recession_curve_gen Qops (quad_table cells) (Qfs grid) (Qf mean) (Qf kappa) (Qf et),
            impl with
      | Ok tm, Ok ti => all2 (fun m i => Qnear tol_curve (Qf scale) m (Qf i)) tm ti
      | Err e1, Err e2 => err_eqb e1 e2
      | _, _ => false
      end
  end.

(** |m - i| <= tol |i| *)
Definition rel_near (tol m i : Q) : bool := Qle_bool (Qabs (m - i)) (tol * Qabs i).

(** captured call: (grid_mm, mean, curvature_km, et_mm_d, returned vector) *)
Definition capture : Type := (list float * float * float * float * list float)%type.

(** The stand-in for compute_recession_curve: answers with the captured
    vector only if the model hands over the captured arguments. *)
Definition cl_curve (cap : capture) (grid : list Q) (m k et : Q) : res (list Q) :=
  match cap with
  | (g, cm, ck, ce, sim) =>
      if all2 (fun a b => rel_near tol_ulp a (Qf b)) grid g
         && rel_near tol_arg m (Qf cm) && rel_near tol_arg k (Qf ck)
         && rel_near tol_arg et (Qf ce)
      then Ok (Qfs sim) else Err EOther
  end.

Definition ftables : Type :=
  (list float * list (float * float) * list Z * list (Z * Z) * list (Z * Z * float))%type.

Definition Qtables (t : ftables) : tables (F:=Q) :=
  match t with
  | (curv, mast, recs, zivs, ets) =>
      {| curvature := Qfs curv;
         master := map (fun r => (Qf (fst r), Qf (snd r))) mast;
         rec_starts := recs;
         zeta_ivs := zivs;
         et_steps := map (fun e => (fst e, Qf (snd e))) ets |}
  end.

Definition ten : float := 0x1.4p+3%float.
Definition day_s : float := 0x1.518p+16%float.

(** binary64, exactly: the level column is (zeta_mm / 10) * 10 and the
    measured column elapsed_time_s / 86400 of some row of the view. *)
Definition row_exact (mast : list (float * float)) (r : float * float * float) : bool :=
  match r with
  | (lv, meas, _) =>
      existsb (fun mz => PrimFloat.eqb (PrimFloat.mul (PrimFloat.div (fst mz) ten) ten) lv
                         && PrimFloat.eqb (PrimFloat.div (snd mz) day_s) meas) mast
  end.

Definition cl_case : Type :=
  (ftables * res (capture * list (float * float * float) * list float))%type.

Definition cl_check (c : cl_case) : bool :=
  match c with
  | (t, impl) =>
      let db := Qtables t in
      match impl with
      | Ok (cap, rows, obs) =>
          match simulate_recession Qops (cl_curve cap) db,
                simulate_recession_observations Qops (cl_curve cap) db with
          | Ok rm, Ok om =>
              all2 (fun m i => match m, i with
                               | (z, s, w), (zi, si, wi) =>
                                   rel_near tol_ulp z (Qf zi) && rel_near tol_ulp s (Qf si)
                                   && Qeq_bool w (Qf wi)
                               end) rm rows
              && all2 (fun m i => Qeq_bool m (Qf i)) om obs
              && forallb (row_exact (match t with (_, mast, _, _, _) => mast end)) rows
          | _, _ => false
          end
      | Err e =>
          match simulate_recession Qops (fun _ _ _ _ => Err EOther) db with
          | Err e' => err_eqb e e'
          | Ok _ => false
          end
      end
  end.
