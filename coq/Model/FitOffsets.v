(** Model of fit_offsets.find_offsets over exact rationals.

    A head mapping is a list (Python dict, insertion order) of
    (head id, list of (series id, crossing value)).  The model builds the
    least-squares system exactly as the code does (one row per (head, series),
    reference = largest series id fixed at 0, heads with one series dropped
    first), solves the normal equations by Gauss-Jordan elimination, and then
    *checks the characterising condition* (every series' residuals sum to zero);
    it returns [Err ELinAlg] when elimination meets no pivot or the check fails.
    The theorems (Proofs/FitOffsetsSpec.v) are about that condition. *)
From Spowtd Require Export Model.Util.
From Coq Require Export QArith.
From Coq Require Import Qabs.

Definition crossing := (nat * Q)%type.            (* (series id, value) *)
Definition head_mapping := list (Z * list crossing).

(** ** Flat entries: one per (head, series) *)
Record entry := { e_head : Z; e_series : nat; e_val : Q }.

Definition drop_single (hm : head_mapping) : head_mapping :=
  filter (fun p => negb (Nat.eqb (length (snd p)) 1%nat)) hm.

Definition entries_of (hm : head_mapping) : list entry :=
  flat_map (fun p => map (fun c => {| e_head := fst p; e_series := fst c; e_val := snd c |}) (snd p)) hm.

Fixpoint qsum (l : list Q) : Q := match l with [] => 0 | x :: t => x + qsum t end.

(** ** The objective and the residual sums, for an assignment [x] of offsets *)
Section Objective.
  Variable E : list entry.
  Variable x : nat -> Q.

  Definition at_head (h : Z) : list entry := filter (fun c => Z.eqb (e_head c) h) E.
  Definition of_series (s : nat) : list entry := filter (fun c => Nat.eqb (e_series c) s) E.

  Definition shifted (c : entry) : Q := x (e_series c) + e_val c.
  Definition head_mean (h : Z) : Q :=
    qsum (map shifted (at_head h)) / inject_Z (Z.of_nat (length (at_head h))).
  Definition dev (c : entry) : Q := shifted c - head_mean (e_head c).
  Definition objective : Q := qsum (map (fun c => dev c * dev c) E).
  Definition resid_sum (s : nat) : Q := qsum (map dev (of_series s)).
End Objective.

(** ** Sorted distinct series ids *)
Fixpoint insert_nat (x : nat) (l : list nat) : list nat :=
  match l with
  | [] => [x]
  | y :: t => if Nat.ltb x y then x :: y :: t else if Nat.eqb x y then y :: t else y :: insert_nat x t
  end.
Definition sorted_ids (E : list entry) : list nat :=
  fold_right insert_nat [] (map e_series E).

(** ** The system as the code builds it *)
Definition index_of (s : nat) (ids : list nat) : option nat :=
  (fix go (l : list nat) (i : nat) : option nat :=
     match l with [] => None | y :: t => if Nat.eqb s y then Some i else go t (S i) end) ids 0%nat.

(** row template of a head: 1/n at the (non-reference) series present *)
Definition row_of (unknowns : list nat) (present : list nat) (n : nat) (minus : option nat) : list Q :=
  map (fun u => (if mem_nat u present then 1 / inject_Z (Z.of_nat n) else 0)
                - (match minus with Some s => if Nat.eqb s u then 1 else 0 | None => 0 end)) unknowns.

Definition system_of (hm : head_mapping) (unknowns : list nat) (ref : nat)
  : list (list Q * Q) :=
  flat_map (fun p =>
              let cs := snd p in
              let n := length cs in
              let present := map fst cs in
              let mean_t := qsum (map snd cs) / inject_Z (Z.of_nat n) in
              map (fun c => (row_of unknowns present n
                               (if Nat.eqb (fst c) ref then None else Some (fst c)),
                             snd c - mean_t)) cs) hm.

Definition dot (a b : list Q) : Q := qsum (map (fun p => fst p * snd p) (combine a b)).

(** A^T A and A^T b *)
Definition col (k : nat) (rows : list (list Q * Q)) : list Q := map (fun r => nth k (fst r) 0) rows.
Definition normal_matrix (nu : nat) (rows : list (list Q * Q)) : list (list Q) :=
  map (fun i => map (fun j => Qred (dot (col i rows) (col j rows))) (seq 0%nat nu)) (seq 0%nat nu).
Definition normal_rhs (nu : nat) (rows : list (list Q * Q)) : list Q :=
  map (fun i => Qred (dot (col i rows) (map snd rows))) (seq 0%nat nu).

(** ** Gauss-Jordan elimination on an augmented matrix (rows = coefficients ++ [rhs]) *)
Definition scale_row (k : Q) (r : list Q) : list Q := map (fun v => Qred (k * v)) r.
Definition sub_row (r p : list Q) (k : Q) : list Q :=
  map (fun ab => Qred (fst ab - k * snd ab)) (combine r p).

Fixpoint find_pivot (c : nat) (rows : list (list Q)) : option (list Q * list (list Q)) :=
  match rows with
  | [] => None
  | r :: t =>
      if Qeq_bool (nth c r 0) 0 then
        match find_pivot c t with
        | Some (p, rest) => Some (p, r :: rest)
        | None => None
        end
      else Some (r, t)
  end.

(** eliminate column c: [done] rows already have their pivots; returns None when singular *)
Fixpoint gauss (fuel c : nat) (done todo : list (list Q)) : option (list (list Q)) :=
  match fuel with
  | O => match todo with [] => Some done | _ => None end
  | S f =>
      match todo with
      | [] => Some done
      | _ =>
          match find_pivot c todo with
          | None => None
          | Some (p, rest) =>
              let p' := scale_row (1 / nth c p 0) p in
              let elim := fun r => sub_row r p' (nth c r 0) in
              gauss f (S c) (map elim done ++ [p']) (map elim rest)
          end
      end
  end.

Definition solve (m : list (list Q)) (rhs : list Q) : option (list Q) :=
  let aug := map (fun p => fst p ++ [snd p]) (combine m rhs) in
  let n := length m in
  match gauss n 0%nat [] aug with
  | Some rows => Some (map (fun r => nth n r 0) rows)
  | None => None
  end.

(** ** find_offsets *)
Definition assignment (ids : list nat) (offs : list Q) (s : nat) : Q :=
  match index_of s ids with Some i => nth i offs 0 | None => 0 end.

Definition find_offsets (hm0 : head_mapping) : res (list nat * list Q) :=
  let hm := drop_single hm0 in
  let E := entries_of hm in
  let ids := sorted_ids E in
  match rev ids with
  | [] => Err EValue                                  (* max() of an empty sequence *)
  | ref :: _ =>
      let unknowns := removelast ids in
      let rows := system_of hm unknowns ref in
      let nu := length unknowns in
      match solve (normal_matrix nu rows) (normal_rhs nu rows) with
      | None => Err ELinAlg
      | Some sol =>
          let offs := sol ++ [0] in
          if forallb (fun s => Qeq_bool (resid_sum E (assignment ids offs) s) 0) ids
          then Ok (ids, offs)
          else Err ELinAlg
      end
  end.

(** tolerance comparison used by the correspondence *)
Definition close_enough (tol : Q) (a b : list Q) : bool :=
  Nat.eqb (length a) (length b)
  && forallb (fun p => Qle_bool (Qabs (fst p - snd p)) tol) (combine a b).
