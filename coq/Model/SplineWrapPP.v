(** Exact, executable model of the interpolating splines that spowtd builds
    with FITPACK ([splrep(x, y, s=0, k=order)]), as piecewise polynomials:

    - order 1 (PeatclsmSpecificYield, the transmissivity's log-conductivity):
      the piecewise-linear interpolant, built by [lin_pp] from the knots;
    - order 3 (SplineSpecificYield): the not-a-knot cubic interpolating spline
      (FITPACK's interior knots are x[2:-2], so the first two and the last two
      intervals share one cubic).  Its coefficients are supplied per knot set
      (computed outside with exact rationals) and accepted only if [nak_check]
      holds: every defining condition of that spline, checked exactly.

    Evaluation is Horner in (x - x_i); the antiderivative is exact.  Written
    over [fops] like Model/SplineWrap.v: run at [Qops], proved at [Rops].
    Definitions only. *)
From Coq Require Import QArith Qabs Reals.
From Spowtd Require Export Model.SplineWrap.

Section PP.
  Context {F : Type} (O : fops F).
  Local Notation "a + b" := (fadd O a b).
  Local Notation "a - b" := (fsub O a b).
  Local Notation "a * b" := (fmul O a b).
  Local Notation "a / b" := (fdiv O a b).

  (** A segment: left breakpoint and the coefficients c_0, c_1, ... of
      sum_k c_k (x - x0)^k, valid up to the next segment's breakpoint. *)
  Definition seg : Type := (F * list F)%type.

  Fixpoint horner (c : list F) (t : F) : F :=
    match c with
    | [] => f0 O
    | c0 :: r => c0 + t * horner r t
    end.

  (** c_k / (k + 1 + j): coefficients of the antiderivative divided by t. *)
  Fixpoint int_coeffs (c : list F) (k : nat) : list F :=
    match c with
    | [] => []
    | c0 :: r => c0 / fofnat O (S k) :: int_coeffs r (S k)
    end.
  (** integral of the polynomial from 0 to t *)
  Definition poly_int (c : list F) (t : F) : F := t * horner (int_coeffs c 0) t.

  (** k c_k: coefficients of the derivative (list starts at c_k, k given). *)
  Fixpoint deriv_from (c : list F) (k : nat) : list F :=
    match c with
    | [] => []
    | c0 :: r => fofnat O k * c0 :: deriv_from r (S k)
    end.
  Definition deriv_coeffs (c : list F) : list F :=
    match c with [] => [] | _ :: r => deriv_from r 1 end.

  (** Value at x: the last segment whose breakpoint is <= x (the first one for
      x below every breakpoint). *)
  Fixpoint pp_eval (segs : list seg) (x : F) : F :=
    match segs with
    | [] => f0 O
    | (x0, c) :: rest =>
        match rest with
        | (x1, _) :: _ => if fltb O x x1 then horner c (x - x0) else pp_eval rest x
        | [] => horner c (x - x0)
        end
    end.

  (** Antiderivative vanishing at the first breakpoint. *)
  Fixpoint pp_P (segs : list seg) (x : F) : F :=
    match segs with
    | [] => f0 O
    | (x0, c) :: rest =>
        match rest with
        | (x1, _) :: _ =>
            if fltb O x x1 then poly_int c (x - x0)
            else poly_int c (x1 - x0) + pp_P rest x
        | [] => poly_int c (x - x0)
        end
    end.

  Definition pp_xmin (knots : list F) : F := hd (f0 O) knots.
  Definition pp_xmax (knots : list F) : F := last knots (f0 O).

  (** FITPACK's splint: the spline counts as zero outside its knots. *)
  Definition pp_splint (knots : list F) (segs : list seg) (a b : F) : F :=
    pp_P segs (clamp O (pp_xmin knots) (pp_xmax knots) b)
    - pp_P segs (clamp O (pp_xmin knots) (pp_xmax knots) a).

  (** The wrapper of Model/SplineWrap.v over the exact spline. *)
  Definition pp_call (knots : list F) (segs : list seg) (x : F) : F :=
    call O (pp_xmin knots) (pp_xmax knots) (pp_eval segs) x.
  Definition pp_integrate (knots : list F) (segs : list seg) (a b : F) : F :=
    integrate O (pp_xmin knots) (pp_xmax knots) (pp_eval segs) (pp_splint knots segs) a b.

  (** ---- order 1: the piecewise-linear interpolant *)
  Fixpoint lin_pp (knots values : list F) : list seg :=
    match knots, values with
    | x0 :: ((x1 :: _) as kt), y0 :: ((y1 :: _) as vt) =>
        (x0, [y0; (y1 - y0) / (x1 - x0)]) :: lin_pp kt vt
    | _, _ => []
    end.

  (** ---- order 3: the defining conditions of the not-a-knot cubic spline *)
  Fixpoint increasing (xs : list F) : bool :=
    match xs with
    | [] => true
    | x :: t => match t with [] => true | y :: _ => fltb O x y && increasing t end
    end.

  (** breakpoints are the knots (all but the last), four coefficients each *)
  Fixpoint shape_ok (knots : list F) (segs : list seg) : bool :=
    match knots, segs with
    | [_], [] => true
    | x :: kt, (x0, c) :: st => feqb O x x0 && Nat.eqb (length c) 4 && shape_ok kt st
    | _, _ => false
    end.

  (** each piece takes the knot values at both ends of its interval *)
  Fixpoint interp_ok (knots values : list F) (segs : list seg) : bool :=
    match knots, values, segs with
    | [_], [_], [] => true
    | x0 :: ((x1 :: _) as kt), y0 :: ((y1 :: _) as vt), (_, c) :: st =>
        feqb O (horner c (f0 O)) y0 && feqb O (horner c (x1 - x0)) y1 && interp_ok kt vt st
    | _, _, _ => false
    end.

  (** first and second derivatives agree at every interior knot *)
  Fixpoint smooth_ok (segs : list seg) : bool :=
    match segs with
    | (x0, c) :: (((x1, c') :: _) as st) =>
        let h := x1 - x0 in
        feqb O (horner (deriv_coeffs c) h) (horner (deriv_coeffs c') (f0 O))
        && feqb O (horner (deriv_coeffs (deriv_coeffs c)) h)
                  (horner (deriv_coeffs (deriv_coeffs c')) (f0 O))
        && smooth_ok st
    | _ => true
    end.

  Definition c3 (s : seg) : F := nth 3 (snd s) (f0 O).
  (** not-a-knot: the third derivative is continuous at the second and at the
      last-but-one knot *)
  Definition notaknot_ok (segs : list seg) : bool :=
    let n := length segs in
    match segs with
    | s0 :: s1 :: _ =>
        feqb O (c3 s0) (c3 s1)
        && feqb O (c3 (nth (n - 2) segs s0)) (c3 (nth (n - 1) segs s0))
    | _ => false
    end.

  Definition nak_check (knots values : list F) (segs : list seg) : bool :=
    Nat.leb 4 (length knots) && increasing knots && shape_ok knots segs
    && interp_ok knots values segs && smooth_ok segs && notaknot_ok segs.

  (** ---- computing the not-a-knot spline: the classical equations for the
      second derivatives m_i at the knots,
        h_{i-1} m_{i-1} + 2 (h_{i-1} + h_i) m_i + h_i m_{i+1}
            = 6 ((y_{i+1} - y_i) / h_i - (y_i - y_{i-1}) / h_{i-1}),
      closed by the two not-a-knot equations, solved exactly by elimination.
      Nothing below is trusted: the result is used only if [nak_check]
      accepts it. *)
  Definition vsub_scaled (r p : list F) (f : F) : list F :=
    map (fun xy => fst xy - f * snd xy) (combine r p).

  (** first row with a non-zero head, and the others *)
  Fixpoint pick_pivot (rows acc : list (list F)) : option (list F * list (list F)) :=
    match rows with
    | [] => None
    | r :: t =>
        match r with
        | h :: _ => if feqb O h (f0 O) then pick_pivot t (acc ++ [r])
                    else Some (r, acc ++ t)
        | [] => None
        end
    end.

  (** rows: augmented matrix (n rows of n + 1 entries); [None] if singular *)
  Fixpoint gauss (n : nat) (rows : list (list F)) : option (list F) :=
    match n with
    | 0%nat => Some []
    | S n' =>
        match pick_pivot rows [] with
        | Some (p :: pt, others) =>
            let pn := map (fun v => v / p) pt in   (* normalised pivot row, head dropped *)
            let reduced := map (fun r => match r with
                                         | h :: t => vsub_scaled t pn h
                                         | [] => []
                                         end) others in
            match gauss n' reduced with
            | Some xs =>
                (* x_1 = rhs - sum_j pn_j x_j *)
                let rhs := last pn (f0 O) in
                let dot := fold_left (fun acc ab => acc + fst ab * snd ab)
                                     (combine pn xs) (f0 O) in
                Some ((rhs - dot) :: xs)
            | None => None
            end
        | _ => None
        end
    end.

  Fixpoint diffs (xs : list F) : list F :=
    match xs with
    | x :: ((y :: _) as t) => (y - x) :: diffs t
    | _ => []
    end.

  Definition zeros (n : nat) : list F := repeat (f0 O) n.

  (** interior equations, row i (1 <= i <= n-2), as n+1 entries *)
  Fixpoint interior_rows (n i : nat) (h slopes : list F) : list (list F) :=
    match h, slopes with
    | h0 :: ((h1 :: _) as ht), s0 :: ((s1 :: _) as st) =>
        (zeros (i - 1) ++ [h0; fofnat O 2 * (h0 + h1); h1] ++ zeros (n - i - 2)
         ++ [fofnat O 6 * (s1 - s0)])
        :: interior_rows n (S i) ht st
    | _, _ => []
    end.

  Definition nak_system (knots values : list F) : list (list F) :=
    let n := length knots in
    let h := diffs knots in
    let slopes := map (fun dh => fst dh / snd dh) (combine (diffs values) h) in
    let h0 := nth 0 h (f0 O) in let h1 := nth 1 h (f0 O) in
    let hp := nth (n - 3) h (f0 O) in let hq := nth (n - 2) h (f0 O) in
    ([h1; fopp O (h0 + h1); h0] ++ zeros (n - 3) ++ [f0 O])
    :: interior_rows n 1 h slopes
    ++ [zeros (n - 3) ++ [hq; fopp O (hp + hq); hp] ++ [f0 O]].

  (** segments from the second derivatives *)
  Fixpoint nak_segs (knots values m : list F) : list seg :=
    match knots, values, m with
    | x0 :: ((x1 :: _) as kt), y0 :: ((y1 :: _) as vt), m0 :: ((m1 :: _) as mt) =>
        let h := x1 - x0 in
        (x0, [y0;
              (y1 - y0) / h - h * (fofnat O 2 * m0 + m1) / fofnat O 6;
              m0 / fofnat O 2;
              (m1 - m0) / (fofnat O 6 * h)])
        :: nak_segs kt vt mt
    | _, _, _ => []
    end.

  (** The interpolating cubic spline of the knots, or [None] when the
      computation does not deliver a spline meeting every defining condition. *)
  Definition nak_pp (knots values : list F) : option (list seg) :=
    match gauss (length knots) (nak_system knots values) with
    | Some m =>
        let segs := nak_segs knots values m in
        if nak_check knots values segs then Some segs else None
    | None => None
    end.
End PP.

(** Rational instances used by the generated case files. *)
Definition Qpp_call := pp_call Qops.
Definition Qpp_integrate := pp_integrate Qops.
Definition Qnak_check := nak_check Qops.
Definition Qnak_pp := nak_pp Qops.
Definition Qlin_pp := lin_pp Qops.
