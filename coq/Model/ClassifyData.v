(** Data level of the matching pass (classify.match_storms on float arrays) and
    table-driven preferences for the function-level correspondence of
    classify.find_stable_matching. *)
From Spowtd Require Export Model.Matching Model.Flags.

Definition match_storms_data (thr_s delta : float) (rain head : list float) (sched : list nat)
  : res (list ((nat * nat) * (nat * nat))) :=
  match_storms_flags (heavy_flags thr_s rain)
                     (map (fun d => fgt d delta) (increments head)) sched.

(** jump_preferences as data: rise -> (storm -> quality). *)
Definition pref_of_table (t : list (nat * list (nat * Z))) (j s : nat) : Z :=
  match alookup j t with
  | Some row => match alookup s row with Some q => q | None => 0%Z end
  | None => 0%Z
  end.

Definition natnat_set_eqb (a b : list (nat * nat)) : bool := same_set natpair_eqb a b.
Definition pairs_set_eqb (a b : list ((nat * nat) * (nat * nat))) : bool := same_set pairpair_eqb a b.

(** Is [impl] one of the outcomes the model can produce under some schedule? *)
Definition is_possible_outcome (pref : nat -> nat -> Z) (cands : list (nat * list nat))
  (impl : res (list (nat * nat))) : bool :=
  existsb (fun o => res_eqb natnat_set_eqb o impl) (all_outcomes pref cands).

(** Same under three fixed schedules (first / last / rotating free storm). *)
Definition agrees_on_fixed_schedules (pref : nat -> nat -> Z) (cands : list (nat * list nat))
  (impl : res (list (nat * nat))) : bool :=
  let n := total_cands cands in
  res_eqb natnat_set_eqb (stable_matching pref cands []) impl
  && res_eqb natnat_set_eqb (stable_matching pref cands (repeat 1 n)) impl
  && res_eqb natnat_set_eqb (stable_matching pref cands (seq 0 n)) impl.

Definition data_agrees_on_fixed_schedules (thr_s delta : float) (rain head : list float)
  (impl : res (list ((nat * nat) * (nat * nat)))) : bool :=
  let n := length rain in
  res_eqb pairs_set_eqb (match_storms_data thr_s delta rain head []) impl
  && res_eqb pairs_set_eqb (match_storms_data thr_s delta rain head (repeat 1 n)) impl
  && res_eqb pairs_set_eqb (match_storms_data thr_s delta rain head (seq 0 n)) impl.

(** With ties in the rises' preferences the outcome may depend on the pop order
    of the Python set: the implementation must produce one of the outcomes. *)
Definition data_possible_outcome (thr_s delta : float) (rain head : list float)
  (impl : res (list ((nat * nat) * (nat * nat)))) : bool :=
  let heavy := heavy_flags thr_s rain in
  let jumpf := map (fun d => fgt d delta) (increments head) in
  let storms := true_runs heavy in
  let rises := rises_of jumpf in
  existsb (fun o =>
             res_eqb pairs_set_eqb
               (bind o (fun m => Ok (map (fun js => ((snd js, stop_of (snd js) storms),
                                                     (fst js, stop_of (fst js) rises))) m)))
               impl)
          (all_outcomes start_pref (all_candidates storms rises)).
