(** C16 — model of the PEATCLSM hydraulic functions over the reals.

    spowtd/specific_yield.py: PeatclsmSpecificYield._construct_spline,
    get_Sy_soil, campbell_1d_az; spowtd/transmissivity.py:
    PeatclsmTransmissivity.__call__; and the reference implementation in
    spowtd/test/peatclsm_hydraulic_functions.R (transcribed: Rscript is not
    installed, the R code cannot be executed here).

    Definitions only (proofs are in Proofs/PeatclsmSpec.v).  Layers and levels
    are indexed by Z so that generated case files can write literal indices. *)
From Coq Require Import Reals List ZArith QArith Qreals.
From Coquelicot Require Import Coquelicot.
From Spowtd Require Import Model.Util Model.Transm.
Import ListNotations.
Open Scope R_scope.

Record peat : Type := { sd : R; theta_s : R; b_shape : R; psi_s : R }.

(** Admissible parameters: the calibration bounds written to the PEST control
    file (pestfiles.py): sd in (0, 2], theta_s in [0.01, 1], b in [0.01, 20],
    psi_s in [-1, -0.01].  (PEST's lower bound sd = 0 itself makes norm.cdf
    return nan and is excluded.) *)
Definition admissible (p : peat) : Prop :=
  0 < sd p <= 2 /\ 1/100 <= theta_s p <= 1 /\ 1/100 <= b_shape p <= 20 /\ -1 <= psi_s p <= -1/100.

(** zl_ = np.linspace(-1, 1, 201), zu_ = np.linspace(-0.99, 1.01, 201)
    (R: seq(-1,1,0.01), seq(-0.99,1.01,0.01)); metres. *)
Definition zl (i : Z) : R := -1 + IZR i / 100.
Definition zu (i : Z) : R := -99/100 + IZR i / 100.
Definition zm (j : Z) : R := /2 * (zl j + zu j).          (* zm_a = 0.5 * (zl_ + zu_) *)
Definition dz (j : Z) : R := zu j - zl j.

(** Standard normal cdf; scipy.stats.norm.cdf(x, loc=0, scale=sd) = Phi_std (x / sd),
    R: pnorm(x, mean = 0, sd). *)
Definition gauss (t : R) : R := exp (- (t * t) / 2) / sqrt (2 * PI).
Definition Phi_std (x : R) : R := /2 + RInt gauss 0 x.

(** campbell_1d_az: Campbell moisture with its saturation branch
    (equations 4 and 5 of Dettmann & Bechtold 2015). [d] = zlu - z_. *)
Definition theta (p : peat) (d : R) : R :=
  if Rle_dec (psi_s p * 100) (d * 100) then theta_s p
  else theta_s p * Rpower ((d * 100) / (psi_s p * 100)) (- 1 / b_shape p).

Definition campbell (p : peat) (Fs z_ zlu : R) : R := (1 - Fs) * theta p (zlu - z_).

(** One pass of the inner loop of get_Sy_soil for level i, layer j:
    dz[j] * (Azu - Azl); [Phi j] stands for Fs_a[j]. *)
Definition layer (p : peat) (Phi : Z -> R) (i j : Z) : R :=
  dz j * (campbell p (Phi j) (zm j) (zu i) - campbell p (Phi j) (zm j) (zl i)).

(** The inner loop, as written: A = 0; for j: A = A + dz[j] * (Azu - Azl). *)
Fixpoint sum_layers (p : peat) (Phi : Z -> R) (i : Z) (js : list Z) (A : R) : R :=
  match js with
  | [] => A
  | j :: t => sum_layers p Phi i t (A + layer p Phi i j)
  end.

Definition layers (N : nat) : list Z := map Z.of_nat (seq 0 N).

(** Sy_soil[i] = 1 / (1 * dz[i]) * A, over N layers (Python: N = 201 =
    len(Sy_soil); the R reference: N = 200, its loop is `for (j in 1:200)`). *)
Definition sy_soil (p : peat) (Phi : Z -> R) (N : nat) (i : Z) : R :=
  1 / (1 * dz i) * sum_layers p Phi i (layers N) 0.

Definition Fs (p : peat) (j : Z) : R := Phi_std (zm j / sd p).

(** sy_knots[i] = Sy1_soil[i] + Sy1_surface[i], Sy1_surface = norm.cdf(0.5 (zu_+zl_), 0, sd). *)
Definition sy_knot_with (p : peat) (Phi : Z -> R) (N : nat) (i : Z) : R :=
  sy_soil p Phi N i + Phi i.
Definition sy_knot (p : peat) (N : nat) (i : Z) : R := sy_knot_with p (Fs p) N i.

(** zeta_knots_mm = 0.5 * (zu_ + zl_) * 1000 *)
Definition knot_mm (i : Z) : R := zm i * 1000.

(** The discretised Dettmann-Bechtold profile written from the paper's
    equations (eq. 1: soil part as a sum over layers of thickness dz_j of the
    change in moisture (1 - F_s(z_j)) theta(z_w - z_j) between the lower and the
    upper water level, divided by the level increment; eq. 2-3: plus the
    surface part F_s(level)). *)
Definition DB_profile (p : peat) (N : nat) (i : Z) : R :=
  / (zu i - zl i) *
  fold_right Rplus 0
    (map (fun j => (zu j - zl j) *
                   ((1 - Fs p j) * theta p (zu i - zm j) - (1 - Fs p j) * theta p (zl i - zm j)))
         (layers N))
  + Phi_std (zm i / sd p).

(** PeatclsmSpecificYield.__call__: order-1 spline through the 201 knots with
    constant extrapolation (Spline.__call__ clamps). *)
Definition sy_points (p : peat) : list (R * R) :=
  map (fun i => (knot_mm i, sy_knot p 201 i)) (layers 201).
Definition sy_peat (p : peat) (zeta_mm : R) : R := pl_interp (sy_points p) zeta_mm.

(** R reference for the specific yield table (200 layers). *)
Definition sy_knot_R (p : peat) (i : Z) : R := sy_knot p 200 i.

(** ---- transmissivity ---- *)

(** PeatclsmTransmissivity.__call__ on a scalar: ValueError above zeta_max;
    at zeta_max itself float arithmetic returns 0.0 ** (1 - alpha) = inf (a
    value, not an exception): [None]. *)
Definition T_formula (Ks alpha zmax_cm zeta_mm : R) : R :=
  Ks * Rpower (zmax_cm - zeta_mm / 10) (1 - alpha) / (100 * (alpha - 1)).

Definition T_peat (Ks alpha zmax_cm zeta_mm : R) : res (option R) :=
  if Rlt_dec zmax_cm (zeta_mm / 10) then Err EValue
  else if Req_EM_T (zeta_mm / 10) zmax_cm then Ok None
  else Ok (Some (T_formula Ks alpha zmax_cm zeta_mm)).

(** Array argument: refused if any element is above the ceiling. *)
Definition T_peat_array (Ks alpha zmax_cm : R) (zs : list R) : res (list (option R)) :=
  fold_right (fun z acc => bind (T_peat Ks alpha zmax_cm z) (fun v => bind acc (fun vs => Ok (v :: vs))))
             (Ok []) zs.

(** R reference: Transmissivity(Ksmacz0, alpha, z) with z in metres (zeta_max = 1 cm built in). *)
Definition T_R (Ks alpha z_m : R) : R :=
  (Ks * Rpower (1 - z_m * 100) (1 - alpha)) / (100 * (alpha - 1)).

(** ---- tabulated form used by the generated case files ----
    zu i - zm j and zl i - zm j depend on i - j only:
    zu i - zm j = (i - j)/100 + 1/200, zl i - zm j = (i - j - 1)/100 + 1/200,
    so one table [Th k] = theta p (k/100 + 1/200), k = -N .. N-1, serves every
    level (Proofs/PeatclsmSpec.v: layer_as_tab). *)
Definition theta_at (p : peat) (k : Z) : R := theta p (IZR k / 100 + 1 / 200).

Definition layer_tab (Th Phi : Z -> R) (i j : Z) : R :=
  dz j * ((1 - Phi j) * Th (i - j)%Z - (1 - Phi j) * Th (i - j - 1)%Z).

Definition sy_knot_tab (Th Phi : Z -> R) (N : nat) (i : Z) : R :=
  100 * fold_right Rplus 0 (map (layer_tab Th Phi i) (layers N)) + Phi i.

Definition offsets (N : nat) : list Z :=
  map (fun n => (Z.of_nat n - Z.of_nat N)%Z) (seq 0 (2 * N)).

(** Exact rational evaluation of the tabulated form (tables with rational
    entries): what the generated case files run by vm_compute. *)
Definition layer_tabQ (Th Phi : Z -> Q) (i j : Z) : Q :=
  Qred ((1 # 100) * ((1 - Phi j) * Th (i - j)%Z - (1 - Phi j) * Th (i - j - 1)%Z))%Q.

Definition sumQ (l : list Q) : Q := fold_right (fun x a => Qred (x + a)%Q) 0%Q l.

Definition sy_knot_tabQ (Th Phi : Z -> Q) (N : nat) (i : Z) : Q :=
  (100 * sumQ (map (layer_tabQ Th Phi i) (layers N)) + Phi i)%Q.

(** Acceptance test of one case: the value computed from the tables is within
    tol - eps (1 + N theta_s) - 2 N eta M of the implementation's value v. *)
Definition knot_checkQ (Th Phi : Z -> Q) (N : nat) (i : Z) (eps eta M ths v tol : Q) : bool :=
  let x := sy_knot_tabQ Th Phi N i in
  let slack := (tol - eps * (1 + inject_Z (Z.of_nat N) * ths) - 2 * inject_Z (Z.of_nat N) * eta * M)%Q in
  Qle_bool (x - v)%Q slack && Qle_bool (v - x)%Q slack.
