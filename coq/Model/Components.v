(** Model of fit_offsets.get_connected_components, split_mapping_by_keys and of
    the part of get_series_time_offsets that follows build_head_mapping:
    keep the component with the most levels, fit its offsets. *)
From Spowtd Require Export Model.FitOffsets.

Definition disjointb (a b : list nat) : bool := negb (existsb (fun x => mem_nat x b) a).

Fixpoint union_nat (a b : list nat) : list nat :=
  match a with
  | [] => b
  | x :: t => if mem_nat x b then union_nat t b else union_nat t (b ++ [x])
  end.

(** groups: Python dict (insertion order) from tuple of level ids to set of series *)
Definition group := (list Z * list nat)%type.

Definition cc_step (groups : list group) (h : Z) (series : list nat) : list group :=
  let matches := filter (fun g => negb (disjointb series (snd g))) groups in
  let others := filter (fun g => disjointb series (snd g)) groups in
  let new_keys := h :: flat_map fst matches in
  let new_group := fold_left (fun acc g => union_nat (snd g) acc) matches series in
  others ++ [(new_keys, new_group)].

Definition cc_groups (sah : list (Z * list nat)) : list group :=
  fold_left (fun gs p => cc_step gs (fst p) (snd p)) sah [].

(** sorted(keys, key=len, reverse=True): stable, longest first *)
Definition components (sah : list (Z * list nat)) : list (list Z) :=
  let gs := map fst (cc_groups sah) in
  sort_by (fun ks => (- Z.of_nat (length ks))%Z) gs.

(** only levels crossed by at least two series take part (they alone carry
    information; repaired in /repo, see known_findings.json) *)
Definition series_at_head (hm : head_mapping) : list (Z * list nat) :=
  map (fun p => (fst p, map fst (snd p))) (filter (fun p => Nat.ltb 1 (length (snd p))) hm).

(** offsets of the main body, as get_series_time_offsets computes them from the
    head mapping (series ids are positions in the sorted list) *)
Definition offsets_from_mapping (hm : head_mapping) : res (list nat * list Q * list Z) :=
  match components (series_at_head hm) with
  | [] => Err EAssert            (* assert len(head_mappings) == 1 *)
  | main :: _ =>
      let sub := filter (fun p => mem_Z (fst p) main) hm in
      match find_offsets sub with
      | Ok (ids, offs) => Ok (ids, offs, map fst (drop_single sub))
      | Err e => Err e
      end
  end.
