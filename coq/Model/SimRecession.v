(** C18 — model of spowtd/simulate_recession.py.

    Python                                                   model
    -----------------------------------------------------    ------------------------
    f(zeta) = Sy(zeta) / (-et - curvature * T(zeta))         [integrand]
    compute_recession_curve (asserts, dt[0] = 0,             [recession_curve_gen] =
      dt[i] = quad(f, grid[i-1], grid[i])[0], cumsum,           the two asserts, then
      mean shift)                                               Model/SimRise.v [rise_curve]
                                                                over the integrator [quad f]
    simulate_recession: curvature lookup                     [curvature_row]
      master-curve query (ORDER BY zeta_mm, s -> d, mm -> cm) [master_rows]
      ET query (avg over the joined rows * 24)               [et_selected], [et_mm_d]
      PEATCLSM transmissivity m2/s -> m2/d                   [T_m2_d]
      grid = cm * 10, mean of the measured times,
      curvature_km = curvature_m_km2 * 1e-3                  [sim_args]
    dump_simulated_recession: table / --observations         [recession_rows], [simulate_recession],
                                                             [simulate_recession_observations]

    The arithmetic of the command layer is written over [fops] (Model/SplineWrap.v):
    run at [Qops] by the generated case files, proved at [Rops].
    scipy.integrate.quad is a parameter ([quad], an oracle for the integral:
    Proofs/SimRecessionSpec.v states its contract as a hypothesis, the harness
    tests it at every run).  The specific yield and the transmissivity are
    total real functions here; the refusals of the transmissivity classes above
    their ceiling are property C15 / C16 (the theorems quantify over grids
    below the ceiling).  Definitions only. *)
From Coq Require Import Reals QArith ZArith.
From Coquelicot Require Import Coquelicot.
From Spowtd Require Export Model.SimRise.

(** ---- function level *)

(** The local function [f] of compute_recession_curve. *)
Definition integrand (Sy T : R -> R) (ET kappa : R) (z : R) : R :=
  (Sy z / (- ET - kappa * T z))%R.

Section Curve.
  Context {F : Type} (O : fops F).

  (** compute_recession_curve with [integ a b] standing for
      [quad(f, a, b)[0]]: [assert et_mm_d >= 0], [assert curvature_km >= 0],
      then exactly the body of compute_rise_curve (IndexError on an empty
      grid, dt[0] = 0, cumulative sum, mean shift). *)
  Definition recession_curve_gen (integ : F -> F -> F) (grid : list F) (m kappa ET : F)
    : res (list F) :=
    if fltb O ET (f0 O) then Err EAssert
    else if fltb O kappa (f0 O) then Err EAssert
    else rise_curve O integ grid m.
End Curve.

(** The function over the reals: [quad] is scipy.integrate.quad(...)[0]. *)
Definition recession_curve (quad : (R -> R) -> R -> R -> R) (Sy T : R -> R)
  (grid : list R) (m kappa ET : R) : res (list R) :=
  recession_curve_gen Rops (quad (integrand Sy T ET kappa)) grid m kappa ET.

(** What the integral is: the ideal quad. *)
Definition quad_ideal (f : R -> R) (a b : R) : R := RInt f a b.

(** Sum of [quad f] over the consecutive pairs of a subdivision; the generated
    case files state the integral over one grid cell as such a sum, split at
    the knots of the two hydraulic functions. *)
Fixpoint piece_sum (quad : (R -> R) -> R -> R -> R) (f : R -> R) (p : R) (pts : list R) : R :=
  match pts with
  | [] => 0%R
  | q :: t => (quad f p q + piece_sum quad f q t)%R
  end.

(** XXX hack of simulate_recession: PEATCLSM transmissivity is in m2/s. *)
Definition T_m2_d (is_peatclsm : bool) (T : R -> R) (z : R) : R :=
  if is_peatclsm then (T z * 24 * 3600)%R else T z.

(** ---- command level *)

Section Command.
  Context {F : Type} (O : fops F).
  Local Notation "a + b" := (fadd O a b).
  Local Notation "a - b" := (fsub O a b).
  Local Notation "a * b" := (fmul O a b).
  Local Notation "a / b" := (fdiv O a b).

  (** The tables the command reads.
      [curvature]: the rows of table curvature (curvature_m_km2);
      [master]: the rows (zeta_mm, elapsed_time_s) of view average_recession_time, any order;
      [rec_starts]: recession_interval.start_epoch;
      [zeta_ivs]: (start_epoch, thru_epoch) of zeta_interval;
      [et_steps]: (from_epoch, thru_epoch, evapotranspiration_mm_h). *)
  Record tables : Type := {
    curvature : list F;
    master : list (F * F);
    rec_starts : list Z;
    zeta_ivs : list (Z * Z);
    et_steps : list (Z * Z * F)
  }.

  (** SELECT EXISTS (SELECT 1 FROM curvature WHERE is_valid): ValueError
      without a row; then the first row. *)
  Definition curvature_row (db : tables) : res F :=
    match curvature db with
    | [] => Err EValue
    | c :: _ => Ok c
    end.

  (** elapsed_time_s / (3600 * 24), zeta_mm / 10, ORDER BY zeta_mm; no row:
      the transposed cursor cannot be unpacked (ValueError).
      Result: rows (zeta_cm, elapsed_time_d), ascending. *)
  Definition master_rows (db : tables) : res (list (F * F)) :=
    match sort_rows O (master db) with
    | [] => Err EValue
    | rows => Ok (map (fun r => (fst r / fofnat O 10, snd r / (fofnat O 3600 * fofnat O 24))) rows)
    end.

  (** FROM recession_interval AS ri
      JOIN zeta_interval AS zi ON zi.start_epoch = ri.start_epoch
      JOIN evapotranspiration AS e
        ON e.from_epoch >= zi.start_epoch AND e.thru_epoch <= zi.thru_epoch:
      one row per (ri, zi, e) that meets the conditions. *)
  Definition step_in (zi : Z * Z) (e : Z * Z * F) : bool :=
    (fst zi <=? fst (fst e))%Z && (snd (fst e) <=? snd zi)%Z.

  Definition et_selected (db : tables) : list (Z * Z * F) :=
    flat_map (fun s =>
      flat_map (fun zi => if (fst zi =? s)%Z then filter (step_in zi) (et_steps db) else [])
               (zeta_ivs db))
      (rec_starts db).

  (** avg(evapotranspiration_mm_h) * 24; avg over no row is NULL and
      [None >= 0] raises TypeError; [assert et_mm_d >= 0]. *)
  Definition et_mm_d (db : tables) : res F :=
    match map snd (et_selected db) with
    | [] => Err EType
    | vs =>
        let et := fmean O vs * fofnat O 24 in
        if fltb O et (f0 O) then Err EAssert else Ok et
    end.

  (** The arguments handed to compute_recession_curve and the measured curve:
      (grid_mm, mean_elapsed_time_d, curvature_km, et_mm_d, zeta_cm, elapsed_time_d). *)
  Definition sim_args (db : tables)
    : res (list F * F * F * F * list F * list F) :=
    bind (curvature_row db) (fun c =>
    bind (master_rows db) (fun rows =>
    bind (et_mm_d db) (fun et =>
      let zeta_cm := map fst rows in
      let time_d := map snd rows in
      Ok (map (fun z => z * fofnat O 10) zeta_cm, fmean O time_d,
          c / fofnat O 1000, et, zeta_cm, time_d)))).

  (** reversed(zip(avg_zeta_cm * 10, avg_elapsed_time_d, elapsed_time_d)) *)
  Definition recession_rows (zeta_cm time_d sim : list F) : list (F * F * F) :=
    rev (zip3 (map (fun z => z * fofnat O 10) zeta_cm) time_d sim).

  (** [curve grid mean curvature_km et] = compute_recession_curve on the
      parameter file's hydraulic functions. *)
  Definition simulate_recession (curve : list F -> F -> F -> F -> res (list F)) (db : tables)
    : res (list (F * F * F)) :=
    bind (sim_args db) (fun a =>
      match a with
      | (grid, mean, kappa, et, zeta_cm, time_d) =>
          bind (curve grid mean kappa et) (fun sim => Ok (recession_rows zeta_cm time_d sim))
      end).

  (** --observations: yaml.dump(list(reversed(elapsed_time_d.tolist()))) *)
  Definition simulate_recession_observations
    (curve : list F -> F -> F -> F -> res (list F)) (db : tables) : res (list F) :=
    bind (sim_args db) (fun a =>
      match a with
      | (grid, mean, kappa, et, _, _) =>
          bind (curve grid mean kappa et) (fun sim => Ok (rev sim))
      end).
End Command.

Arguments curvature {F}. Arguments master {F}. Arguments rec_starts {F}.
Arguments zeta_ivs {F}. Arguments et_steps {F}.

(** The command over the reals for a parameter file with specific yield [Sy],
    transmissivity [T] of type PEATCLSM ([is_peatclsm]) or spline. *)
Definition simulate_recession_R (quad : (R -> R) -> R -> R -> R) (Sy T : R -> R)
  (is_peatclsm : bool) (db : tables (F:=R)) : res (list (R * R * R)) :=
  simulate_recession Rops (recession_curve quad Sy (T_m2_d is_peatclsm T)) db.
