(** Master-curve assembly: model of the series construction and of the row
    writers of spowtd/rise.py (compute_rise_offsets) and spowtd/recession.py
    (compute_offsets), and of the part of fit_offsets.get_series_time_offsets
    that decides which (interval, level, mean crossing) triples are stored.
    The least-squares offsets themselves (numpy.linalg.solve) are not modelled:
    they belong to other properties; only the list of intervals that receive an
    offset is.

    Tables are lists of rows.  Foreign keys are not enforced by SQLite in
    these commands, so joins are modelled as joins, never as lookups that are
    assumed to succeed.  Definitions only. *)
From Spowtd Require Export Model.RegridFloat Model.ZetaGrid.

Record tables := mk_tables {
  t_water_level : list (Z * float);          (* epoch, zeta_mm *)
  t_storm : list (Z * Z);                    (* start_epoch, thru_epoch *)
  t_zeta_interval : list (Z * Z * bool);     (* start_epoch, thru_epoch, true = 'storm' / false = 'interstorm' *)
  t_pairing : list (Z * Z);                  (* zeta_interval_storm: interval_start_epoch, storm_start_epoch *)
  t_rain : list (Z * Z * float);             (* rainfall_intensity: from_epoch, thru_epoch, mm/h *)
  t_grid : option float                      (* zeta_grid.grid_interval_mm *)
}.

(** ** Pieces shared by both commands *)

(** SELECT epoch, zeta_mm FROM water_level ORDER BY epoch *)
Definition water_levels (t : tables) : list (Z * float) := sort_by fst (t_water_level t).

(** np.argwhere(epoch == e)[0, 0] *)
Fixpoint index_of (e : Z) (l : list Z) : option nat :=
  match l with
  | [] => None
  | a :: r => if Z.eqb a e then Some 0%nat else option_map S (index_of e r)
  end.

(** The opening lines of both functions: unpacking an empty result raises
    ValueError, a non-finite level fails the assertion. *)
Definition read_levels (t : tables) : res (list Z * list float) :=
  match water_levels t with
  | [] => Err EValue
  | wl => if forallb finiteb (map snd wl) then Ok (map fst wl, map snd wl) else Err EAssert
  end.

Definition grid_step (t : tables) : res float :=
  match t_grid t with Some s => Ok s | None => Err EValue end.

(** t - t.min() *)
Definition qminl (l : list Q) : Q :=
  match l with [] => 0 | a :: r => fold_left Qmin r a end.
Definition shift_min (x : list Q) : list Q := let m := qminl x in map (fun v => v - m) x.

(** Stable insertion sort on a rational key: sorted(..., key=initial head). *)
Fixpoint insert_q {A} (key : A -> Q) (x : A) (l : list A) : list A :=
  match l with
  | [] => [x]
  | y :: r => if Qle_bool (key x) (key y) then x :: y :: r else y :: insert_q key x r
  end.
Fixpoint sort_q {A} (key : A -> Q) (l : list A) : list A :=
  match l with
  | [] => []
  | x :: r => insert_q key x (sort_q key r)
  end.

Fixpoint enumerate_from {A} (i : nat) (l : list A) : list (nat * A) :=
  match l with
  | [] => []
  | a :: r => (i, a) :: enumerate_from (S i) r
  end.

(** ** get_connected_components and the choice of the first largest one *)

Definition disjointb (a b : list nat) : bool := negb (existsb (fun x => mem_nat x b) a).

(** groups: dict from tuples of head ids to sets of series ids, insertion ordered. *)
Definition cc_step (groups : list (list Z * list nat)) (e : Z * list nat) : list (list Z * list nat) :=
  let matches := filter (fun g => negb (disjointb (snd e) (snd g))) groups in
  let rest := filter (fun g => disjointb (snd e) (snd g)) groups in
  rest ++ [(fst e :: concat (map fst matches), snd e ++ concat (map snd matches))].

(** sorted(keys, key=len, reverse=True)[0]: the first among the longest. *)
Fixpoint first_longest (l : list (list Z)) (best : list Z) : list Z :=
  match l with
  | [] => best
  | k :: r => if Nat.ltb (length best) (length k) then first_longest r k else first_longest r best
  end.

Definition first_component {W} (mapping : list (Z * list (nat * W))) : list Z :=
  let series_at_head := map (fun e => (fst e, map fst (snd e))) mapping in
  first_longest (map fst (fold_left cc_step series_at_head [])) [].

Fixpoint insert_nat (x : nat) (l : list nat) : list nat :=
  match l with
  | [] => [x]
  | y :: r => if Nat.ltb x y then x :: y :: r else if Nat.eqb x y then y :: r else y :: insert_nat x r
  end.
(** sorted(set(...)) *)
Definition sorted_set (l : list nat) : list nat := fold_right insert_nat [] l.

Section Offsets.
(** Generic in what is recorded per crossing (V) and per (level, series) (W):
    the proofs instantiate them with positions and exact means, the generated
    case files with (position, tolerance) pairs. *)
Context {V W : Type}.
Variable rg : list Q -> list float -> float -> res (list (Z * V)).
Variable summ : list V -> W.

(** fit_offsets.build_head_mapping *)
Definition build_head_mapping_gen (series : list (list Q * list float)) (step : float)
  : res (list (Z * list (nat * W))) :=
  bind (all_ok (map (fun s => rg (fst s) (snd s) step) series))
       (fun all_items => Ok (head_mapping_gen summ all_items)).

(** Key of the sort: the first head of the series (finite). *)
Definition head_key (s : nat * (list Q * list float)) : Q :=
  match snd (snd s) with
  | h :: _ => match float_to_Q h with Some q => q | None => 0 end
  | [] => 0
  end.

(** get_series_time_offsets up to the call of find_offsets' solver:
    returns (original indices of the series that receive an offset,
             output_mapping: level -> [(original index, mean crossing)]). *)
Definition series_time_offsets (series : list (list Q * list float)) (step : float)
  : res (list nat * list (Z * list (nat * W))) :=
  match series with
  | [] => Err EValue                                       (* 'empty series list' *)
  | _ =>
    if existsb (fun s => match fst s with [] => true | _ => false end) series then Err EValue
    else if existsb (fun s => match snd s with [] => true | _ => false end) series then Err EIndex
    else
      let dec := sort_q head_key (enumerate_from 0 series) in
      let sorted_list := map (fun d => (shift_min (fst (snd d)), snd (snd d))) dec in
      let orig := fun j => nth j (map fst dec) 0%nat in
      bind (build_head_mapping_gen sorted_list step) (fun hm =>
        (* components are built from the heads shared by at least two series *)
        match filter (fun e => Nat.ltb 1 (length (snd e))) hm with
        | [] => Err EAssert                                (* assert len(head_mappings) == 1 *)
        | shared =>
          let cc := first_component shared in
          let kept := filter (fun e => mem_Z (fst e) cc) hm in
          (* find_offsets: heads with a single series are deleted *)
          let used := filter (fun e => negb (Nat.eqb (length (snd e)) 1)) kept in
          match used with
          | [] => Err EValue                               (* max() of an empty sequence *)
          | _ =>
            let ids := sorted_set (concat (map (fun e => map fst (snd e)) used)) in
            Ok (map orig ids,
                map (fun e => (fst e, map (fun p => (orig (fst p), snd p)) (snd e))) used)
          end
        end)
  end.

(** The rows the two writers insert: one (start_epoch) per series with an
    offset, one (start_epoch, zeta_number, mean crossing) per mapping entry.
    [start_of i] = start epoch of the interval whose series has index i. *)
Definition curve_rows (start_of : nat -> Z) (r : list nat * list (Z * list (nat * W)))
  : list Z * list (Z * Z * W) :=
  (map start_of (fst r),
   flat_map (fun e => map (fun p => (start_of (fst p), fst e, snd p)) (snd e)) (snd r)).

(** ** rise.py *)

(** storm JOIN zeta_interval_storm JOIN zeta_interval ORDER BY s.start_epoch:
    (storm start, storm thru, interval start, interval thru). *)
Definition rise_join (t : tables) : list (Z * Z * Z * Z) :=
  flat_map (fun s =>
    flat_map (fun p =>
      if Z.eqb (snd p) (fst s) then
        flat_map (fun zi =>
          if Z.eqb (fst (fst zi)) (fst p) then [(fst s, snd s, fst (fst zi), snd (fst zi))] else [])
          (t_zeta_interval t)
      else []) (t_pairing t))
    (sort_by fst (t_storm t)).

(** View storm_total_rain_depth for one storm, in exact arithmetic (SQLite sums
    in binary64; the check allows for that rounding). No rainfall row: the view
    has no row and fetchone()[0] raises TypeError. *)
Definition storm_depth (t : tables) (s_start s_thru : Z) : res Q :=
  let rows := filter (fun r => Z.leb s_start (fst (fst r)) && Z.leb (snd (fst r)) s_thru) (t_rain t) in
  match rows with
  | [] => Err EType
  | _ =>
    match all_to_Q (map snd rows) with
    | Some qs =>
        Ok (qsum (map (fun rq => snd rq * inject_Z (snd (fst (fst rq)) - fst (fst (fst rq))) / 3600)
                      (combine rows qs)))
    | None => Err EOther
    end
  end.

Fixpoint strictly_increasing (l : list float) : bool :=
  match l with
  | a :: ((b :: _) as r) => PrimFloat.ltb a b && strictly_increasing r
  | _ => true
  end.

Definition slice {A} (a b : nat) (l : list A) : list A := firstn (b - a) (skipn a l).

(** One matched storm: (interval start epoch, series). *)
Definition rise_series_row (t : tables) (epochs : list Z) (zetas : list float)
  (row : Z * Z * Z * Z) : res (Z * (list Q * list float)) :=
  match row with
  | (s_start, s_thru, z_start, z_thru) =>
    match index_of z_start epochs with
    | None => Err EIndex
    | Some a =>
      match index_of z_thru epochs with
      | None => Err EIndex
      | Some b =>
        bind (storm_depth t s_start s_thru) (fun depth =>
          if negb (Nat.ltb a b) then Err EAssert
          else
            let seq := slice a (S b) zetas in
            if negb (strictly_increasing seq) then Err EAssert
            else Ok (z_start, ([0; depth], [nth a zetas 0%float; nth b zetas 0%float])))
      end
    end
  end.

Definition rise_series (t : tables) : res (list (Z * (list Q * list float))) :=
  bind (read_levels t) (fun ez =>
    all_ok (map (rise_series_row t (fst ez) (snd ez)) (rise_join t))).

Definition rise_command (t : tables) : res (list Z * list (Z * Z * W)) :=
  bind (rise_series t) (fun ss =>
  bind (grid_step t) (fun step =>
  bind (series_time_offsets (map snd ss) step) (fun r =>
    Ok (curve_rows (fun i => nth i (map fst ss) 0%Z) r)))).

(** ** recession.py *)

Definition interstorm_intervals (t : tables) : list (Z * Z) :=
  map fst (filter (fun zi => negb (snd zi)) (sort_by (fun zi => fst (fst zi)) (t_zeta_interval t))).

(** Samples selected by epoch range; the assertions on the first and last one. *)
Definition recession_series_row (wl : list (Z * float)) (iv : Z * Z)
  : res (Z * (list Q * list float)) :=
  let sel := filter (fun r => Z.leb (fst iv) (fst r) && Z.leb (fst r) (snd iv)) wl in
  match sel with
  | [] => Err EIndex
  | first :: _ =>
      if negb (Z.eqb (fst first) (fst iv)) then Err EAssert
      else if negb (Z.eqb (fst (last sel first)) (snd iv)) then Err EAssert
      else Ok (fst first, (map (fun r => inject_Z (fst r)) sel, map snd sel))
  end.

Definition recession_series (t : tables) : res (list (Z * (list Q * list float))) :=
  bind (read_levels t) (fun _ =>
    all_ok (map (recession_series_row (water_levels t)) (interstorm_intervals t))).

Definition recession_command (t : tables) : res (list Z * list (Z * Z * W)) :=
  bind (recession_series t) (fun ss =>
  bind (grid_step t) (fun step =>
  bind (series_time_offsets (map snd ss) step) (fun r =>
    Ok (curve_rows (fun i => nth i (map fst ss) 0%Z) r)))).

End Offsets.

(** ** Instances *)

(** What the theorems are about: exact positions, exact means. *)
Definition rise_rows (t : tables) : res (list Z * list (Z * Z * Q)) := rise_command regrid qmean t.
Definition recession_rows (t : tables) : res (list Z * list (Z * Z * Q)) :=
  recession_command regrid qmean t.

(** What the case files evaluate: the same with a tolerance attached. *)
Definition rise_rows_tol (t : tables) := rise_command regrid_with_tol summ_tol t.
Definition recession_rows_tol (t : tables) := recession_command regrid_with_tol summ_tol t.

(** ** Comparison with the tables written by the commands *)

(** Extra relative slack for values that SQLite / numpy computed in binary64
    from the same data (the storm's total depth is a float sum in the view). *)
Definition within_slack (m : Q * Q) (i : Q) : bool :=
  Qle_bool (Qabs (i - fst m)) (snd m + (1 # 1000000000000) * Qabs (fst m)).

Definition find_row (e k : Z) (rows : list (Z * Z * (Q * Q))) : option (Q * Q) :=
  match find (fun r => Z.eqb (fst (fst r)) e && Z.eqb (snd (fst r)) k) rows with
  | Some r => Some (snd r)
  | None => None
  end.

Definition rows_match (model : list (Z * Z * (Q * Q))) (impl : list (Z * Z * Q)) : bool :=
  Nat.eqb (length model) (length impl) &&
  forallb (fun r => match find_row (fst (fst r)) (snd (fst r)) model with
                    | Some m => within_slack m (snd r)
                    | None => false
                    end) impl.

Definition same_set (a b : list Z) : bool :=
  Nat.eqb (length a) (length b) && forallb (fun x => mem_Z x b) a && forallb (fun x => mem_Z x a) b.

Fixpoint rows_to_Q (l : list (Z * Z * float)) : option (list (Z * Z * Q)) :=
  match l with
  | [] => Some []
  | (ek, f) :: r =>
      match float_to_Q f, rows_to_Q r with
      | Some q, Some r' => Some ((ek, q) :: r')
      | _, _ => None
      end
  end.

(** impl: Ok (start epochs of the offsets table, rows of the crossing table) or
    the exception raised by the command. *)
Definition check_rows (model : res (list Z * list (Z * Z * (Q * Q))))
  (impl : res (list Z * list (Z * Z * float))) : bool :=
  match model, impl with
  | Ok m, Ok i =>
      match rows_to_Q (snd i) with
      | Some iq => same_set (fst m) (fst i) && rows_match (snd m) iq
      | None => false
      end
  | Err a, Err b => err_eqb a b
  | _, _ => false
  end.

Definition check_rise (c : tables * res (list Z * list (Z * Z * float))) : bool :=
  check_rows (rise_rows_tol (fst c)) (snd c).
Definition check_recession (c : tables * res (list Z * list (Z * Z * float))) : bool :=
  check_rows (recession_rows_tol (fst c)) (snd c).
