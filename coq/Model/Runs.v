(** Run detection: model of classify.get_true_interval_masks followed by
    np.nonzero on each mask, i.e. the list of maximal runs of [true] in a
    boolean vector, as (start, stop) index pairs with [stop] exclusive, in
    increasing order. *)
From Spowtd Require Export Model.Util.

Definition shift1 (p : nat * nat) : nat * nat := (S (fst p), S (snd p)).

Fixpoint true_runs (l : list bool) : list (nat * nat) :=
  match l with
  | [] => []
  | false :: t => map shift1 (true_runs t)
  | true :: t =>
      match true_runs t with
      | (0, e) :: r => (0, S e) :: map shift1 r
      | r => (0, 1) :: map shift1 r
      end
  end.

(** The same with the accumulator loop a programmer would write (used by the
    correspondence check as a second, independent executable definition). *)
Fixpoint runs_from (l : list bool) (i : nat) (cur : option nat) : list (nat * nat) :=
  match l with
  | [] => match cur with Some s => [(s, i)] | None => [] end
  | true :: t =>
      match cur with
      | Some s => runs_from t (S i) (Some s)
      | None => runs_from t (S i) (Some i)
      end
  | false :: t =>
      match cur with
      | Some s => (s, i) :: runs_from t (S i) None
      | None => runs_from t (S i) None
      end
  end.
Definition true_runs_loop (l : list bool) : list (nat * nat) := runs_from l 0 None.

(** Runs with at least two samples (what classify_interstorms keeps). *)
Definition long_runs (l : list bool) : list (nat * nat) :=
  filter (fun p => Nat.ltb 1 (snd p - fst p)) (true_runs l).
