(** Glue for the generated case files of C17 (never used by a proof): the
    models of Model/SimRise.v run on the binary64 inputs of the real code,
    (a) over exact rationals with splev / splint of the object's own tck as
    tables (wrapper of Model/SplineWrap.v), (b) over big-number rationals with
    the exact spline of Model/SplineWrapPP.v; results compared with the
    implementation's inside Coq.  Definitions only. *)
From Coq Require Import QArith Qabs PrimFloat.
From Bignums Require Import BigQ.
From Spowtd Require Export Model.SplineWrapFloat Model.SimRise.

Section Checks.
  Context {F : Type} (O : fops F).
  Variable conv : float -> F.
  (** [near scale model impl] *)
  Variable near : F -> F -> F -> bool.
  Variable integ : F -> F -> F.

  Fixpoint all2 {A B} (f : A -> B -> bool) (l1 : list A) (l2 : list B) : bool :=
    match l1, l2 with
    | [], [] => true
    | x :: t1, y :: t2 => f x y && all2 f t1 t2
    | _, _ => false
    end.

  (** compute_rise_curve(grid, mean) returned [impl] (or raised) *)
  Definition fl_check (grid : list float) (mean : float) (scale : float)
             (impl : res (list float)) : bool :=
    match rise_curve O integ (map conv grid) (conv mean), impl with
    | Ok Wm, Ok Wi => all2 (fun m i => near (conv scale) m (conv i)) Wm Wi
    | Err e1, Err e2 => err_eqb e1 e2
    | _, _ => false
    end.

  (** `spowtd simulate rise`: [view] rows of average_rising_depth (any order),
      [rows] the parsed table, [obs] the parsed --observations vector *)
  Definition cl_check (view : list (float * float)) (scale : float)
             (impl : res (list (float * float * float) * list float)) : bool :=
    match simulate_rise O integ (map (fun r => (conv (fst r), conv (snd r))) view), impl with
    | Ok rm, Ok (rows, obs) =>
        all2 (fun m i => match m, i with
                         | (z, s, w), (zi, si, wi) =>
                             feqb O z (conv zi) && feqb O s (conv si)
                             && near (conv scale) w (conv wi)
                         end) rm rows
        && all2 (fun m i => near (conv scale) (snd m) (conv i)) rm obs
    | Err e1, Err e2 => err_eqb e1 e2
    | _, _ => false
    end.
End Checks.

(** (a) tables.  sp entries are (i, j, splint(pts_i, pts_j)). *)
Definition sp_table_idx (pts : list float) (sp : list (nat * nat * float)) : list (Q * Q * Q) :=
  let q := Qfs pts in
  map (fun e => match e with (i, j, v) => (nth i q sentinel, nth j q sentinel, Qf v) end) sp.

Definition tab_src : Type :=
  (float * float * list float * list float * list (nat * nat * float))%type.
Definition tab_integ (s : tab_src) : Q -> Q -> Q :=
  match s with
  | (xmin, xmax, pts, ev, sp) =>
      Qintegrate_tab (Qf xmin) (Qf xmax) (ev_table pts ev) (sp_table_idx pts sp)
  end.
Definition Qnear_wrap (scale m i : Q) : bool := Qnear tol_wrap scale m i.

Definition fl_tab_case : Type :=
  (tab_src * list float * float * float * res (list float))%type.
Definition fl_tab_check (c : fl_tab_case) : bool :=
  match c with
  | (s, grid, mean, scale, impl) =>
      fl_check Qops Qf Qnear_wrap (tab_integ s) grid mean scale impl
  end.

Definition cl_tab_case : Type :=
  (tab_src * list (float * float) * float
   * res (list (float * float * float) * list float))%type.
Definition cl_tab_check (c : cl_tab_case) : bool :=
  match c with
  | (s, view, scale, impl) => cl_check Qops Qf Qnear_wrap (tab_integ s) view scale impl
  end.

(** (b) exact spline: (order, knots, values) *)
Definition exact_src : Type := (nat * list float * list float)%type.
Definition exact_integ (s : exact_src) : option (bigQ -> bigQ -> bigQ) :=
  match s with
  | (order, knots, values) =>
      let k := BQs knots in
      match exact_segs order k (BQs values) with
      | Some segs => Some (pp_integrate BQops k segs)
      | None => None
      end
  end.
Definition BQnear_exact (scale m i : bigQ) : bool := BQnear btol_exact scale m i.

Definition fl_exact_case : Type :=
  (exact_src * list float * float * float * res (list float))%type.
Definition fl_exact_check (c : fl_exact_case) : bool :=
  match c with
  | (s, grid, mean, scale, impl) =>
      match exact_integ s with
      | Some integ => fl_check BQops BQ BQnear_exact integ grid mean scale impl
      | None => false
      end
  end.

Definition cl_exact_case : Type :=
  (exact_src * list (float * float) * float
   * res (list (float * float * float) * list float))%type.
Definition cl_exact_check (c : cl_exact_case) : bool :=
  match c with
  | (s, view, scale, impl) =>
      match exact_integ s with
      | Some integ => cl_check BQops BQ BQnear_exact integ view scale impl
      | None => false
      end
  end.
