(** Glue for the generated case files of C14 / C17 (never used by a proof):
    binary64 inputs and outputs of the real code are written as PrimFloat hex
    literals (exact, and fast to parse) and converted here to the exact
    rational they denote; check functions compare the rational models with the
    implementation's results inside Coq.  Definitions only. *)
From Coq Require Import QArith Qabs PrimFloat FloatOps SpecFloat.
From Bignums Require Import BigQ.
From Spowtd Require Export Model.SplineWrapPP.

(** The rational denoted by a finite binary64 (NaN / infinities: a sentinel
    that no comparison accepts). *)
Definition Q_of_float (f : float) : Q :=
  match Prim2SF f with
  | S754_zero _ => 0
  | S754_finite s m e =>
      let v := match e with
               | Z0 => inject_Z (Zpos m)
               | Zpos p => inject_Z (Zpos m * 2 ^ (Zpos p))
               | Zneg p => Qmake (Zpos m) (2 ^ p)
               end in
      if s then Qopp v else v
  | _ => sentinel
  end.
Definition Qf := Q_of_float.
Definition Qfs (l : list float) : list Q := map Q_of_float l.

(** |m - i| <= tol * scale *)
Definition Qnear (tol scale m i : Q) : bool := Qle_bool (Qabs (m - i)) (tol * scale).

(** ---- wrapper with tables sampled from the tck.
    pts: levels; ev_i = splev(pts_i); sp_i_j = splint(pts_i, pts_j). *)
Definition ev_table (pts ev : list float) : list (Q * Q) := combine (Qfs pts) (Qfs ev).
Definition sp_table (pts : list float) (sp : list (list float)) : list (Q * Q * Q) :=
  flat_map (fun pr => map (fun qv => (Qf (fst pr), Qf (fst qv), Qf (snd qv)))
                          (combine pts (snd pr)))
           (combine pts sp).

Definition tol_wrap : Q := 1 # 10000000000.
Definition tol_exact : Q := 1 # 1000000000.

(** one knot set: (xmin, xmax, pts, ev, sp, integrals (a, b, impl),
    calls (x, impl), array call (xs, impls)) *)
Definition wrap_case : Type :=
  (float * float * list float * list float * list (list float)
   * list (float * float * float) * list (float * float) * (list float * list float))%type.

Definition wrap_check (c : wrap_case) : bool :=
  match c with
  | (xmin, xmax, pts, ev, sp, ints, calls, (axs, avs)) =>
      let xmin := Qf xmin in let xmax := Qf xmax in
      let evt := ev_table pts ev in
      let spt := sp_table pts sp in
      forallb (fun t => match t with (a, b, v) =>
                 Qclose tol_wrap (Qintegrate_tab xmin xmax evt spt (Qf a) (Qf b)) (Qf v) end) ints
      && forallb (fun t => Qeq_bool (Qcall_tab xmin xmax evt (Qf (fst t))) (Qf (snd t))) calls
      && list_eqb Qeq_bool (call_array Qops xmin xmax (lookup1 evt) (Qfs axs)) (Qfs avs)
  end.

(** ---- exact spline, evaluated with the certified big-number rationals of the
    Bignums library (same polymorphic definitions, instance [BQops]; the stdlib
    [Q] instance is too slow on 800-bit numerators).
    Case: (order, knots, values, function scale, integral scale,
    calls (x, impl), integrals (a, b, impl)); order 3 = not-a-knot cubic,
    order 1 = piecewise linear. *)
Definition BQltb (a b : bigQ) : bool :=
  match BigQ.compare a b with Lt => true | _ => false end.
Definition BQleb (a b : bigQ) : bool :=
  match BigQ.compare a b with Gt => false | _ => true end.
Definition BQops : fops bigQ := {|
  f0 := BigQ.zero;
  fadd := BigQ.add_norm;
  fsub := BigQ.sub_norm;
  fmul := BigQ.mul_norm;
  fdiv := BigQ.div_norm;
  fopp := BigQ.opp;
  fltb := BQltb;
  feqb := BigQ.eq_bool;
  fmin := fun a b => if BQleb a b then a else b;
  fmax := fun a b => if BQleb a b then b else a;
  fofnat := fun n => BigQ.of_Q (inject_Z (Z.of_nat n))
|}.
Definition BQ (f : float) : bigQ := BigQ.of_Q (Q_of_float f).
Definition BQs (l : list float) : list bigQ := map BQ l.
Definition BQnear (tol scale m i : bigQ) : bool :=
  let d := BigQ.sub_norm m i in
  let b := BigQ.mul_norm tol scale in
  BQleb d b && BQleb (BigQ.opp d) b.
Definition btol_exact : bigQ := BigQ.of_Q tol_exact.

Definition exact_case : Type :=
  (nat * list float * list float * float * float
   * list (float * float) * list (float * float * float))%type.

Definition exact_segs (order : nat) (knots values : list bigQ) : option (list (seg (F:=bigQ))) :=
  match order with
  | 3%nat => nak_pp BQops knots values
  | 1%nat => if increasing BQops knots && Nat.eqb (length knots) (length values)
                && Nat.leb 2 (length knots)
             then Some (lin_pp BQops knots values) else None
  | _ => None
  end.

Definition exact_check (c : exact_case) : bool :=
  match c with
  | (order, knots, values, fs, is_, calls, ints) =>
      let knots := BQs knots in let values := BQs values in
      match exact_segs order knots values with
      | None => false
      | Some segs =>
          forallb (fun t => BQnear btol_exact (BQ fs)
                              (pp_call BQops knots segs (BQ (fst t))) (BQ (snd t))) calls
          && forallb (fun t => match t with (a, b, v) =>
                        BQnear btol_exact (BQ is_)
                               (pp_integrate BQops knots segs (BQ a) (BQ b)) (BQ v) end) ints
      end
  end.
