(** Water-level grid: model of spowtd/zeta_grid.py populate_zeta_grid,
      range(int(math.floor(min / step)), int(math.ceil(max / step)))
    with min, max = SELECT min(zeta_mm), max(zeta_mm) FROM water_level and the
    quotients taken in binary64 (PrimFloat division is bit-exact); floor / ceil
    of a finite binary64 number are exact integers in Python.
    Definitions only. *)
From Spowtd Require Export Model.RegridFloat.
From Coq Require Import FloatOps SpecFloat.

(** numpy / SQL comparison of finite binary64 numbers through their exact values. *)
Definition fmin_list (l : list Q) : option Q :=
  match l with
  | [] => None
  | a :: t => Some (fold_left Qmin t a)
  end.

Definition fmax_list (l : list Q) : option Q :=
  match l with
  | [] => None
  | a :: t => Some (fold_left Qmax t a)
  end.

(** The float among [l] realising the minimum (SQL min() returns the stored value). *)
Fixpoint arg_min (l : list float) (best : float) (bq : Q) : float :=
  match l with
  | [] => best
  | f :: t =>
      match float_to_Q f with
      | Some q => if Qle_bool bq q then arg_min t best bq else arg_min t f q
      | None => arg_min t best bq
      end
  end.

Fixpoint arg_max (l : list float) (best : float) (bq : Q) : float :=
  match l with
  | [] => best
  | f :: t =>
      match float_to_Q f with
      | Some q => if Qle_bool q bq then arg_max t best bq else arg_max t f q
      | None => arg_max t best bq
      end
  end.

(** Grid from the two bounds and the step. Err EOther = outside the model
    (non-finite quotient: Python raises OverflowError / ValueError there;
    step 0 raises ZeroDivisionError). *)
Definition grid_of_bounds (zmin zmax step : float) : res (list Z) :=
  match float_to_Q (PrimFloat.div zmin step), float_to_Q (PrimFloat.div zmax step) with
  | Some lo, Some hi => Ok (zrange (Qfloor lo) (Qceiling hi))
  | _, _ => Err EOther
  end.

(** populate_zeta_grid on the column zeta_mm of water_level (all finite).
    An empty table gives min = max = NULL and None / step raises TypeError. *)
Definition populate_zeta_grid (zetas : list float) (step : float) : res (list Z) :=
  match zetas with
  | [] => Err EType
  | z0 :: t =>
      match float_to_Q z0 with
      | Some q0 => grid_of_bounds (arg_min t z0 q0) (arg_max t z0 q0) step
      | None => Err EOther
      end
  end.

Definition check_grid (c : list float * float * res (list Z)) : bool :=
  match c with
  | (zetas, step, impl) => res_eqb (list_eqb Z.eqb) (populate_zeta_grid zetas step) impl
  end.
