(** C16 — Ltac used by the generated case files. *)
From Coq Require Import Reals List ZArith Lra.
From Coquelicot Require Import Coquelicot.
From Interval Require Import Tactic.
From Spowtd Require Import Model.Util Model.Transm Model.TransmEval Model.Peatclsm.
Import ListNotations.
Open Scope R_scope.

(** Reduce [layer p Phi i j] on literal arguments to an expression over
    Rpower; the two saturation tests are decided by [lra]. *)
Ltac layer_eval :=
  cbv beta iota delta [layer campbell theta zm zl zu dz sd theta_s b_shape psi_s fst snd];
  decide_all.

Ltac T_peat_eval :=
  cbv beta iota delta [T_peat T_formula];
  repeat match goal with
         | |- context [Rlt_dec ?a ?b] => decide_Rlt a b
         | |- context [Req_EM_T ?a ?b] => decide_Req a b
         end.

Ltac admissible_eval := cbv beta iota delta [admissible sd theta_s b_shape psi_s]; lra.
