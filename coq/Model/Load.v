(** Executable model of `spowtd load` (spowtd/load.py + the tables of
    spowtd/schema.sql that it fills), over epochs in Z and values as exact
    rationals Q (a binary64 value is a dyadic rational, embedded exactly).

    One definition per Python function / SQL statement.  A table with an
    `integer PRIMARY KEY` is the list of its rows sorted by that key (SQLite
    stores such a table in key order, and `SELECT ... FROM water_level_staging`
    without ORDER BY scans it in that order); a duplicate key is
    [Err EIntegrity], a Python ValueError is [Err EValue].

    Definitions only; the proofs are in Proofs/Load*.v. *)
From Spowtd Require Export Model.Util.
From Coq Require Export QArith.
From Coq Require String.
Local Open Scope Z_scope.

Definition row : Type := Z * Q.          (* (epoch, value) *)
Definition step_row : Type := Z * Z * Q. (* (from_epoch, thru_epoch, value) *)

(** ** Staging tables: executemany INSERT, one row after the other *)

(** INSERT of one row into a table kept in key order. *)
Fixpoint ins_row (r : row) (l : list row) : res (list row) :=
  match l with
  | [] => Ok [r]
  | h :: t =>
      if fst r <? fst h then Ok (r :: l)
      else if fst r =? fst h then Err EIntegrity
      else match ins_row r t with Ok t' => Ok (h :: t') | Err e => Err e end
  end.

Fixpoint stage_from (acc : list row) (rows : list row) : res (list row) :=
  match rows with
  | [] => Ok acc
  | r :: rest => bind (ins_row r acc) (fun acc' => stage_from acc' rest)
  end.

Definition stage (rows : list row) : res (list row) := stage_from [] rows.

(** ** populate_grid_time *)

Fixpoint zmin_l (a : Z) (l : list Z) : Z :=
  match l with [] => a | b :: t => zmin_l (Z.min a b) t end.
Fixpoint zmax_l (a : Z) (l : list Z) : Z :=
  match l with [] => a | b :: t => zmax_l (Z.max a b) t end.

(** SELECT min(epoch), max(epoch) FROM water_level_staging  (NULLs when empty) *)
Definition wl_span (wl_t : list row) : option (Z * Z) :=
  match map fst wl_t with
  | [] => None
  | a :: t => Some (zmin_l a t, zmax_l a t)
  end.

(** SELECT epoch FROM rainfall_intensity_staging JOIN a ON epoch >= min AND
    epoch <= max ORDER BY epoch   (no row when min / max are NULL) *)
Definition grid_rain_epochs (rain_t wl_t : list row) : list Z :=
  match wl_span wl_t with
  | None => []
  | Some (lo, hi) => filter (fun e => (lo <=? e) && (e <=? hi)) (map fst rain_t)
  end.

(** np.diff *)
Fixpoint diffs (l : list Z) : list Z :=
  match l with
  | a :: (b :: _) as t => (b - a) :: diffs t
  | _ => []
  end.

(** delta_t = sorted(set(np.diff(time_grid))); len(delta_t) != 1 -> ValueError *)
Definition uniform_step (g : list Z) : res Z :=
  match diffs g with
  | [] => Err EValue
  | d :: r => if forallb (Z.eqb d) r then Ok d else Err EValue
  end.

Definition last_Z (l : list Z) : Z := last l 0.

(** Returns (time_grid including the closing instant, time_step). *)
Definition populate_grid_time (rain_t wl_t : list row) : res (list Z * Z) :=
  let g := grid_rain_epochs rain_t wl_t in
  bind (uniform_step g) (fun step => Ok (g ++ [last_Z g + step], step)).

(** ** populate_rainfall_intensity / the INSERT of populate_evapotranspiration

    INSERT INTO x (from_epoch, thru_epoch, v)
    SELECT s.epoch, s.epoch + :step, v FROM staging AS s JOIN grid_time USING (epoch)
    WHERE s.epoch <= :time_grid[-2]
    with CHECK (from_epoch < thru_epoch) and both epochs REFERENCES grid_time. *)
Definition regrid_select (staged : list row) (tg : list Z) (step : Z) : list step_row :=
  let last_start := nth (length tg - 2) tg 0 in
  map (fun r => (fst r, fst r + step, snd r))
      (filter (fun r => mem_Z (fst r) tg && (fst r <=? last_start)) staged).

Definition step_row_ok (tg : list Z) (r : step_row) : bool :=
  let '(f, t, _) := r in (f <? t) && mem_Z f tg && mem_Z t tg.

Definition regrid (staged : list row) (tg : list Z) (step : Z) : res (list step_row) :=
  let rows := regrid_select staged tg step in
  if forallb (step_row_ok tg) rows then Ok rows else Err EIntegrity.

(** SELECT epoch FROM grid_time WHERE NOT EXISTS (... es.epoch = gt.epoch):
    every grid instant, the closing one included. *)
Definition et_missing (et_t : list row) (tg : list Z) : list Z :=
  filter (fun e => negb (mem_Z e (map fst et_t))) tg.

Definition populate_et (et_t : list row) (tg : list Z) (step : Z) : res (list step_row) :=
  match et_missing et_t tg with
  | [] => regrid et_t tg step
  | _ :: _ => Err EValue
  end.

(** ** populate_water_level *)

(** zip(zeta_t[:-1], zeta_t[1:]) *)
Fixpoint adjacent_pairs {A} (l : list A) : list (A * A) :=
  match l with
  | a :: (b :: _) as t => (a, b) :: adjacent_pairs t
  | _ => []
  end.

(** time_steps.min()  (ValueError on an empty array) *)
Definition min_step (zt : list Z) : res Z :=
  match diffs zt with
  | [] => Err EValue
  | d :: r => Ok (zmin_l d r)
  end.

(** gap_i = nonzero(time_steps != time_steps.min()); the pairs
    (zeta_t[gap_i], zeta_t[gap_i + 1]) *)
Definition wl_gaps (zt : list Z) (mn : Z) : list (Z * Z) :=
  filter (fun p => negb (snd p - fst p =? mn)) (adjacent_pairs zt).

(** valid_boundaries = [time_grid[0]] + [a, b for each gap] + [time_grid[-1]] *)
Definition boundaries (first_g last_g : Z) (gaps : list (Z * Z)) : list Z :=
  [first_g] ++ flat_map (fun p => [fst p; snd p]) gaps ++ [last_g].

(** valid_intervals = [(vb[i], vb[i+1], i // 2 + 1) for i in range(0, len(vb), 2)] *)
Fixpoint pair_up (l : list Z) (k : Z) : list (Z * Z * Z) :=
  match l with
  | a :: b :: t => (a, b, k) :: pair_up t (k + 1)
  | _ => []
  end.

(** data_intervals[:] = -1; for (start, through, label): data_intervals[mask] = label
    (a later interval overwrites an earlier one). *)
Definition label_step (t : Z) (acc : option Z) (iv : Z * Z * Z) : option Z :=
  let '(s, e, k) := iv in if (s <=? t) && (t <=? e) then Some k else acc.
Definition label_of (ivs : list (Z * Z * Z)) (t : Z) : option Z :=
  fold_left (label_step t) ivs None.

Definition is_some {A} (o : option A) : bool := match o with Some _ => true | None => false end.

(** np.interp(x, xp, fp) at one x, for xp increasing: below the first sample
    the first value, from the last sample on the last value, at a sample the
    sample's value, otherwise slope * (x - xp[j]) + fp[j]. *)
Definition lerp (a b : row) (x : Z) : Q :=
  ((snd b - snd a) / inject_Z (fst b - fst a) * inject_Z (x - fst a) + snd a)%Q.

Fixpoint interp_from (a : row) (rest : list row) (x : Z) : Q :=
  match rest with
  | [] => snd a
  | b :: rest' =>
      if x <? fst b then (if x =? fst a then snd a else lerp a b x)
      else interp_from b rest' x
  end.

Definition interp (a : row) (rest : list row) (x : Z) : Q :=
  if x <? fst a then snd a else interp_from a rest x.

(** a[mask] *)
Fixpoint select {A} (mask : list bool) (l : list A) : list A :=
  match mask, l with
  | m :: mt, x :: t => if m then x :: select mt t else select mt t
  | _, _ => []
  end.

(** Returns (grid_time rows (epoch, data_interval), water_level rows). *)
Definition populate_water_level (wl_t : list row) (tg : list Z)
  : res (list (Z * option Z) * list row) :=
  match wl_t with
  | [] => Err EValue                      (* zip of no rows does not unpack *)
  | a :: rest =>
      let zt := map fst wl_t in
      bind (min_step zt) (fun mn =>
      let gaps := wl_gaps zt mn in
      let vb := boundaries (hd 0 tg) (last_Z tg) gaps in
      if negb (Nat.even (length vb)) then Err EAssert else
      let ivs := pair_up vb 1 in
      let labels := map (label_of ivs) tg in
      let mask := map is_some labels in
      let zeta_on_grid := map (interp a rest) (removelast tg) in   (* time_grid[:-1] *)
      Ok (combine tg labels,
          combine (select mask tg) (select (removelast mask) zeta_on_grid)))
  end.

(** ** load_data *)

Record loaded : Type := {
  ld_step : Z;                          (* time_grid.time_step_s *)
  ld_tz : String.string;                       (* time_grid.source_time_zone *)
  ld_grid : list (Z * option Z);        (* grid_time *)
  ld_rain : list step_row;              (* rainfall_intensity *)
  ld_et : list step_row;                (* evapotranspiration *)
  ld_wl : list row;                     (* water_level *)
  ld_rain_staging : list row;
  ld_et_staging : list row;
  ld_wl_staging : list row }.

(** Everything after the three staging tables are filled. *)
Definition load_staged (tz : String.string) (rain_t et_t wl_t : list row) : res loaded :=
  bind (populate_grid_time rain_t wl_t) (fun gs =>
  let tg := fst gs in let step := snd gs in
  bind (regrid rain_t tg step) (fun rain_g =>
  bind (populate_et et_t tg step) (fun et_g =>
  bind (populate_water_level wl_t tg) (fun gw =>
  Ok {| ld_step := step; ld_tz := tz; ld_grid := fst gw; ld_rain := rain_g; ld_et := et_g;
        ld_wl := snd gw; ld_rain_staging := rain_t; ld_et_staging := et_t;
        ld_wl_staging := wl_t |})))).

(** [populated]: sqlite_master already lists a table. *)
Definition load_model (populated : bool) (tz : String.string) (rain et wl : list row) : res loaded :=
  if populated then Err EValue else
  bind (stage rain) (fun rain_t =>
  bind (stage et) (fun et_t =>
  bind (stage wl) (fun wl_t => load_staged tz rain_t et_t wl_t))).
