(** C20 — transaction protocol of one workflow step, as Python's [sqlite3] module
    (legacy transaction control, the default of [sqlite3.connect]) runs it.

    Anchors: spowtd/user_interface.py (one [with sqlite3.connect(db) as connection:]
    block per sub-command), classify.py / rise.py / recession.py (one
    [connection.commit()] at the very end), zeta_grid.py, set_curvature.py (no
    explicit commit: the [with] block commits).

    The store type is abstract ([St]): the protocol theorems hold whatever a
    dataset file contains.  Definitions only; proofs are in Proofs/TxnSpec.v. *)
From Spowtd Require Import Model.Util.

Section Txn.
  Variable St : Type.

  (** One Python-level action on the connection of a sub-command.
      [Dml n w]: one [execute] / [executemany] call of an INSERT / UPDATE / DELETE /
      REPLACE; it issues [n] SQL statements ([n] = number of parameter rows of an
      executemany, 1 for execute; fewer when the call is cut short) and its effect
      on the working copy is [w] (the written values may depend on everything the
      step has read or written so far: [w] takes the working copy).
      [Select]: any other statement.  [Commit] / [Rollback]: explicit calls.
      [ExitOk] / [ExitExn]: leaving the [with connection:] block normally / by an
      exception.  A killed process is a trace that simply stops. *)
  Inductive event : Type :=
  | Dml (n : nat) (w : St -> St)
  | Select
  | Commit
  | Rollback
  | ExitOk
  | ExitExn.

  (** Connection state: no transaction open, or a transaction with its working copy. *)
  Inductive conn : Type :=
  | Idle
  | InTxn (working : St).

  (** [(committed store, connection)] after one event.  The implicit BEGIN of the
      legacy mode: a DML on an idle connection opens a transaction on a copy of
      the committed store.  [commit()] and the normal exit of the [with] block
      publish the working copy; [rollback()] and the exceptional exit drop it. *)
  Definition step (s : St * conn) (e : event) : St * conn :=
    match e, snd s with
    | Dml _ w, Idle => (fst s, InTxn (w (fst s)))
    | Dml _ w, InTxn x => (fst s, InTxn (w x))
    | Select, _ => s
    | Commit, InTxn x => (x, Idle)
    | ExitOk, InTxn x => (x, Idle)
    | Commit, Idle => s
    | ExitOk, Idle => s
    | Rollback, _ => (fst s, Idle)
    | ExitExn, _ => (fst s, Idle)
    end.

  Definition run_from (s : St * conn) (tr : list event) : St * conn := fold_left step tr s.

  (** The dataset file after one process ran [tr] on a fresh connection and then
      ended (whatever is still uncommitted when the trace stops is lost: process
      exit and SIGKILL alike). *)
  Definition run (tr : list event) (s : St) : St := fst (run_from (s, Idle) tr).

  (** SQL statements the connection issues, as [set_trace_callback] reports them. *)
  Inductive sqlstmt : Set := SBegin | SStmt | SCommit | SRollback.

  Definition emit (k : conn) (e : event) : list sqlstmt :=
    match e, k with
    | Dml n _, Idle => SBegin :: repeat SStmt n
    | Dml n _, InTxn _ => repeat SStmt n
    | Select, _ => [SStmt]
    | Commit, InTxn _ => [SCommit]
    | ExitOk, InTxn _ => [SCommit]
    | Commit, Idle => []
    | ExitOk, Idle => []
    | Rollback, InTxn _ => [SRollback]
    | ExitExn, InTxn _ => [SRollback]
    | Rollback, Idle => []
    | ExitExn, Idle => []
    end.

  Fixpoint sql_from (s : St * conn) (tr : list event) : list sqlstmt :=
    match tr with
    | [] => []
    | e :: t => emit (snd s) e ++ sql_from (step s e) t
    end.

  Definition sql_trace (tr : list event) (s : St) : list sqlstmt := sql_from (s, Idle) tr.

  (** The body of a step: DML and SELECT calls only. *)
  Definition is_body (e : event) : bool :=
    match e with Dml _ _ | Select => true | _ => false end.

  Definition body_only (b : list event) : Prop := forallb is_body b = true.

  (** Effect of a body on a store: its DMLs composed in order. *)
  Definition effect_ev (x : St) (e : event) : St :=
    match e with Dml _ w => w x | _ => x end.
  Definition effect (b : list event) (x : St) : St := fold_left effect_ev b x.

  (** The shape every sub-command must have: body, at most one explicit commit
      as the last action inside the block, normal exit.  [step_shape tr b]:
      [tr] has the shape, with body [b]. *)
  Inductive step_shape : list event -> list event -> Prop :=
  | shape_exit : forall b, body_only b -> step_shape (b ++ [ExitOk]) b
  | shape_commit_exit : forall b, body_only b -> step_shape (b ++ [Commit; ExitOk]) b.

  (** Faults: after [k] events the step is hit by an exception (the [with] block
      is left exceptionally) or the process is killed (nothing more happens). *)
  Inductive fault : Set := FExn | FKill.

  Definition cut (k : nat) (f : fault) (tr : list event) : list event :=
    firstn k tr ++ match f with FExn => [ExitExn] | FKill => [] end.

  (** A failed attempt of ANY program: a body (possibly ending in a DML call cut
      short) that never reached a commit, ended by an exception or a kill. *)
  Inductive failed_attempt : list event -> Prop :=
  | failed_exn : forall b, body_only b -> failed_attempt (b ++ [ExitExn])
  | failed_kill : forall b, body_only b -> failed_attempt b.

  (** A history: processes run one after the other on the same file. *)
  Definition run_history (h : list (list event)) (s : St) : St :=
    fold_left (fun s tr => run tr s) h s.

  (** [erase_failed h h']: [h'] is [h] with some failed attempts left out. *)
  Inductive erase_failed : list (list event) -> list (list event) -> Prop :=
  | ef_nil : erase_failed [] []
  | ef_keep : forall a h h', erase_failed h h' -> erase_failed (a :: h) (a :: h')
  | ef_drop : forall a h h', failed_attempt a -> erase_failed h h' -> erase_failed (a :: h) h'.
End Txn.

Arguments Dml {St} n w.
Arguments Select {St}.
Arguments Commit {St}.
Arguments Rollback {St}.
Arguments ExitOk {St}.
Arguments ExitExn {St}.
Arguments Idle {St}.
Arguments InTxn {St} working.
Arguments step {St} s e.
Arguments run_from {St} s tr.
Arguments run {St} tr s.
Arguments emit {St} k e.
Arguments sql_from {St} s tr.
Arguments sql_trace {St} tr s.
Arguments is_body {St} e.
Arguments body_only {St} b.
Arguments effect_ev {St} x e.
Arguments effect {St} b x.
Arguments step_shape {St} _ _.
Arguments cut {St} k f tr.
Arguments failed_attempt {St} _.
Arguments run_history {St} h s.
Arguments erase_failed {St} _ _.

(** * Executable instance used by the generated case files

    Stores are lists of tokens; the i-th DML call of a trace pushes its token, so
    the final store tells exactly which DML calls were published. *)
Inductive cev : Set :=
| CDml (n tok : nat) | CSelect | CCommit | CRollback | CExitOk | CExitExn.

Definition ev_of (c : cev) : event (list nat) :=
  match c with
  | CDml n tok => Dml n (cons tok)
  | CSelect => Select
  | CCommit => Commit
  | CRollback => Rollback
  | CExitOk => ExitOk
  | CExitExn => ExitExn
  end.

Inductive outcome : Set := OPre | OPost | OMixed.

Definition outcome_eqb (a b : outcome) : bool :=
  match a, b with OPre, OPre | OPost, OPost | OMixed, OMixed => true | _, _ => false end.

Definition sqlstmt_eqb (a b : sqlstmt) : bool :=
  match a, b with
  | SBegin, SBegin | SStmt, SStmt | SCommit, SCommit | SRollback, SRollback => true
  | _, _ => false
  end.

Definition nats_eqb := list_eqb Nat.eqb.

(** What the file holds after [attempt], relative to the fault-free trace [full]
    of the same step from the same pre-state (the empty token list): the previous
    content, the complete result, or something else. *)
Definition predicted_outcome (full attempt : list cev) : outcome :=
  let r := run (map ev_of attempt) [] in
  if nats_eqb r [] then OPre
  else if nats_eqb r (run (map ev_of full) []) then OPost
  else OMixed.

Definition predicted_sql (attempt : list cev) : list sqlstmt :=
  sql_trace (map ev_of attempt) [].

(** Decidable version of [step_shape] on case traces. *)
Definition cev_is_body (c : cev) : bool :=
  match c with CDml _ _ | CSelect => true | _ => false end.

Fixpoint shape_ok (tr : list cev) : bool :=
  match tr with
  | [CExitOk] => true
  | [CCommit; CExitOk] => true
  | c :: t => cev_is_body c && shape_ok t
  | [] => false
  end.

(** One generated case: fault-free events of the step, events of the attempt,
    SQL trace observed in the attempt (None: not compared), outcome observed. *)
Definition txn_case_ok (c : list cev * list cev * option (list sqlstmt) * outcome) : bool :=
  match c with
  | (full, attempt, osql, out) =>
      outcome_eqb (predicted_outcome full attempt) out
      && match osql with
         | Some sql => list_eqb sqlstmt_eqb (predicted_sql attempt) sql
         | None => true
         end
  end.

(** * Stores as tables, read / write sets, independence (for commutation). *)
Section Frames.
  Variable table : Type.
  Variable row : Type.

  Definition store := table -> list row.

  Definition store_eq (s s' : store) : Prop := forall t, s t = s' t.

  Definition agree (T : list table) (s s' : store) : Prop := forall t, In t T -> s t = s' t.

  (** [f] writes only tables of [W], and what it writes depends only on the
      content of the tables of [R] and [W]. *)
  Record respects (R W : list table) (f : store -> store) : Prop := {
    writes_only : forall s t, ~ In t W -> f s t = s t;
    reads_only : forall s s', agree (R ++ W) s s' -> agree W (f s) (f s')
  }.

  Definition disjoint (A B : list table) : Prop := forall t, In t A -> ~ In t B.

  (** A declared step: read set, write set, transformer. *)
  Record dstep : Type := { d_reads : list table; d_writes : list table; d_fun : store -> store }.

  Definition valid (d : dstep) : Prop := respects (d_reads d) (d_writes d) (d_fun d).

  Definition indep (f g : dstep) : Prop :=
    disjoint (d_writes f) (d_reads g ++ d_writes g) /\
    disjoint (d_writes g) (d_reads f ++ d_writes f).

  (** Steps applied one after the other, first element first. *)
  Definition apply_steps (l : list dstep) (s : store) : store :=
    fold_left (fun s d => d_fun d s) l s.

  Inductive pairwise_indep : list dstep -> Prop :=
  | pi_nil : pairwise_indep []
  | pi_cons : forall d l, Forall (indep d) l -> pairwise_indep l -> pairwise_indep (d :: l).
End Frames.

Arguments store_eq {table row} s s'.
Arguments agree {table row} T s s'.
Arguments respects {table row} R W f.
Arguments disjoint {table} A B.
Arguments d_reads {table row} d.
Arguments d_writes {table row} d.
Arguments d_fun {table row} d.
Arguments valid {table row} d.
Arguments indep {table row} f g.
Arguments apply_steps {table row} l s.
Arguments pairwise_indep {table row} _.

(** * The tables of spowtd/schema.sql and the declared read / write sets of the
    five steps (read off the SQL; the authorizer callback checks on every run
    that a step touches no other table). *)
Inductive tbl : Set :=
| t_time_grid | t_grid_time | t_thresholds | t_grid_time_flags | t_rainfall_intensity
| t_evapotranspiration | t_water_level | t_storm | t_zeta_interval | t_zeta_interval_storm
| t_zeta_grid | t_discrete_zeta | t_rising_interval | t_recession_interval
| t_rising_interval_zeta | t_recession_interval_zeta | t_curvature
| t_rainfall_intensity_staging | t_water_level_staging | t_evapotranspiration_staging.

Definition tbl_index (t : tbl) : nat :=
  match t with
  | t_time_grid => 0 | t_grid_time => 1 | t_thresholds => 2 | t_grid_time_flags => 3
  | t_rainfall_intensity => 4 | t_evapotranspiration => 5 | t_water_level => 6 | t_storm => 7
  | t_zeta_interval => 8 | t_zeta_interval_storm => 9 | t_zeta_grid => 10 | t_discrete_zeta => 11
  | t_rising_interval => 12 | t_recession_interval => 13 | t_rising_interval_zeta => 14
  | t_recession_interval_zeta => 15 | t_curvature => 16 | t_rainfall_intensity_staging => 17
  | t_water_level_staging => 18 | t_evapotranspiration_staging => 19
  end.

Definition tbl_eqb (a b : tbl) : bool := Nat.eqb (tbl_index a) (tbl_index b).

Fixpoint mem_tbl (t : tbl) (l : list tbl) : bool :=
  match l with [] => false | x :: r => tbl_eqb t x || mem_tbl t r end.

Definition disjointb (A B : list tbl) : bool := forallb (fun t => negb (mem_tbl t B)) A.

Definition indepb (Rf Wf Rg Wg : list tbl) : bool :=
  disjointb Wf (Rg ++ Wg) && disjointb Wg (Rf ++ Wf).

Definition R_classify := [t_grid_time; t_rainfall_intensity; t_water_level; t_time_grid; t_storm].
Definition W_classify :=
  [t_thresholds; t_grid_time_flags; t_zeta_interval; t_storm; t_zeta_interval_storm].
Definition R_zeta_grid := [t_water_level].
Definition W_zeta_grid := [t_zeta_grid; t_discrete_zeta].
Definition R_curvature : list tbl := [].
Definition W_curvature := [t_curvature].
Definition R_rise :=
  [t_water_level; t_storm; t_zeta_interval; t_zeta_interval_storm; t_rainfall_intensity; t_zeta_grid].
Definition W_rise := [t_rising_interval; t_rising_interval_zeta].
Definition R_recession := [t_water_level; t_zeta_interval; t_zeta_grid].
Definition W_recession := [t_recession_interval; t_recession_interval_zeta].

(** Case check for the authorizer's observations: a step may write only its
    declared write set and read only its declared read and write sets. *)
Inductive stepid : Set := s_classify | s_zeta_grid | s_curvature | s_rise | s_recession.

Definition declared_sets (s : stepid) : list tbl * list tbl :=
  match s with
  | s_classify => (R_classify, W_classify)
  | s_zeta_grid => (R_zeta_grid, W_zeta_grid)
  | s_curvature => (R_curvature, W_curvature)
  | s_rise => (R_rise, W_rise)
  | s_recession => (R_recession, W_recession)
  end.

Definition subsetb (A B : list tbl) : bool := forallb (fun t => mem_tbl t B) A.

Definition tables_case_ok (c : stepid * list tbl * list tbl) : bool :=
  match c with
  | (s, reads, writes) =>
      let (R, W) := declared_sets s in
      subsetb writes W && subsetb reads (R ++ W)
  end.

(** Shape case: the fault-free trace of a step has the step shape and its SQL
    trace is the predicted one. *)
Definition shape_case_ok (c : list cev * list sqlstmt) : bool :=
  shape_ok (fst c) && list_eqb sqlstmt_eqb (predicted_sql (fst c)) (snd c).
