(** Model of the view storm_total_rain_depth over exact rationals:
      SUM(ri.rainfall_intensity_mm_h * (ri.thru_epoch - ri.from_epoch) / 3600.)
      over rainfall_intensity rows with from_epoch >= s.start_epoch
                                   and thru_epoch <= s.thru_epoch. *)
From Spowtd Require Export Model.Util.
From Coq Require Export QArith.

Record rain_row := { r_from : Z; r_thru : Z; r_mm_h : Q }.

Definition row_depth (r : rain_row) : Q := r_mm_h r * inject_Z (r_thru r - r_from r) / 3600.

Definition in_storm (start thru : Z) (r : rain_row) : bool :=
  (start <=? r_from r)%Z && (r_thru r <=? thru)%Z.

Fixpoint qsum (l : list Q) : Q := match l with [] => 0 | x :: t => x + qsum t end.

Definition view_depth (start thru : Z) (rows : list rain_row) : Q :=
  qsum (map row_depth (filter (in_storm start thru) rows)).

(** The rainfall table on the uniform grid: step i covers [t0+i*step, t0+(i+1)*step). *)
Fixpoint grid_rows (t0 step : Z) (vs : list Q) : list rain_row :=
  match vs with
  | [] => []
  | v :: t => {| r_from := t0; r_thru := t0 + step; r_mm_h := v |} :: grid_rows (t0 + step) step t
  end.

(** Indexed sum of intensity x step length over the steps s <= i < e. *)
Fixpoint indexed_depth (i s e : Z) (step : Z) (vs : list Q) : Q :=
  match vs with
  | [] => 0
  | v :: t => (if (s <=? i)%Z && (i <? e)%Z then v * inject_Z step / 3600 else 0)
              + indexed_depth (i + 1) s e step t
  end.
