(** C19 — the six generators of spowtd/pestfiles.py as functions from a parameter
    record, the measured master-curve values (as printed tokens) and counts to the
    LINES of the generated file (the file is [os.linesep.join lines]), and a model
    of how PEST reads a template file, an instruction file and a control file.

    PEST is not installed here: the readers follow the PEST manual (template
    files: ch. 3.2; instruction files: ch. 3.3 — primary marker, line advance
    [l<n>], fixed observation [[name]c1:c2] = characters c1..c2, numbered from 1,
    of the current line; control file: ch. 4.2).

    Floats never occur: float <-> text conversions ([str], ['{:0.17g}'], PyYAML's
    float representer, [float()], YAML's float resolver) are oracles; the
    generators take the printed tokens.  Definitions only. *)
From Coq Require Import String Ascii DecimalString Decimal DecimalNat.
From Spowtd Require Import Model.Util.
Open Scope string_scope.
Open Scope list_scope.
Infix "+++" := String.append (right associativity, at level 60).

(** * Strings *)
Definition nat_str (n : nat) : string := NilEmpty.string_of_uint (Nat.to_uint n).

Definition parse_nat (s : string) : option nat :=
  match s with
  | "" => None
  | _ => option_map Nat.of_uint (NilEmpty.uint_of_string s)
  end.

Definition space : ascii := " "%char.
Definition is_space (c : ascii) : bool := Ascii.eqb c space.

Fixpoint spaces (n : nat) : string :=
  match n with O => "" | S k => String space (spaces k) end.

(** Python's [str.ljust] / [str.rjust]: pad to width, never truncate. *)
Definition ljust (w : nat) (s : string) : string := s +++ spaces (w - String.length s).
Definition rjust (w : nat) (s : string) : string := spaces (w - String.length s) +++ s.

Fixpoint ltrim (s : string) : string :=
  match s with
  | String c t => if is_space c then ltrim t else s
  | "" => ""
  end.

Fixpoint rtrim (s : string) : string :=
  match s with
  | "" => ""
  | String c t =>
      let t' := rtrim t in
      if is_space c && (match t' with "" => true | _ => false end) then "" else String c t'
  end.

Definition trim (s : string) : string := rtrim (ltrim s).

(** Whitespace-separated words (free-format reading). *)
Fixpoint words_aux (acc : string) (s : string) : list string :=
  match s with
  | "" => match acc with "" => [] | _ => [acc] end
  | String c t =>
      if is_space c
      then match acc with "" => words_aux "" t | _ => acc :: words_aux "" t end
      else words_aux (acc +++ String c "") t
  end.
Definition words (s : string) : list string := words_aux "" s.

Definition first_word (s : string) : string := hd "" (words s).

Definition starts_with_char (c : ascii) (s : string) : bool :=
  match s with String d _ => Ascii.eqb c d | "" => false end.

Definition lower_char (c : ascii) : ascii :=
  let n := nat_of_ascii c in
  if ((65 <=? n)%nat && (n <=? 90)%nat)%bool then ascii_of_nat (n + 32) else c.

Fixpoint lower (s : string) : string :=
  match s with "" => "" | String c t => String (lower_char c) (lower t) end.

Definition strings_eqb := list_eqb String.eqb.

(** * Parameters (what the generators look at) *)
Record sy_par : Set := {
  sy_spline : bool;            (* specific_yield.type = spline (else peatclsm) *)
  sy_zeta : list string;       (* str() of zeta_knots_mm (spline) *)
  sy_n : nat                   (* len(sy_knots) (spline) *)
}.

Inductive tr_par : Set :=
| TPeat (ksmacz0 alpha zeta_max : string)           (* str() of the three values *)
| TSpline (zeta kknots : list string) (tmin : string).

Record params : Set := { p_sy : sy_par; p_tr : tr_par }.

Definition dash (v : string) : string := "    - " +++ v.

Definition sy_tpl (p : sy_par) : list string :=
  if sy_spline p then
    ["  type: spline"; "  zeta_knots_mm:"] ++ map dash (sy_zeta p)
    ++ ["  sy_knots:  # Specific yield, dimensionless"]
    ++ map (fun i => "    - @sy_knot_" +++ ljust 16 (nat_str i) +++ "@") (seq 1 (sy_n p))
  else
    ["  type: peatclsm";
     "  sd: @sd                      @";
     "  theta_s: @theta_s                 @";
     "  b: @b                       @";
     "  psi_s: @psi_s                   @"].

(** generate_rise_tpl_file: transmissivity is written as fixed values. *)
Definition rise_tpl (p : params) : list string :=
  ["ptf @"; "specific_yield:"] ++ sy_tpl (p_sy p) ++ ["transmissivity:"] ++
  match p_tr p with
  | TPeat k a z =>
      ["  type: peatclsm";
       "  Ksmacz0: " +++ k +++ "  # m/s";
       "  alpha: " +++ a +++ "  # dimensionless";
       "  zeta_max_cm: " +++ z]
  | TSpline zeta kk tmin =>
      ["  type: spline"; "  zeta_knots_mm:"] ++ map dash zeta
      ++ ["  K_knots_km_d:  # Conductivity, km /d"] ++ map dash kk
      ++ ["  minimum_transmissivity_m2_d: " +++ tmin +++ "  # Minimum transmissivity, m2 /d"]
  end.

(** generate_curves_tpl_file: transmissivity parameters are placeholders too. *)
Definition curves_tpl (p : params) : list string :=
  ["ptf @"; "specific_yield:"] ++ sy_tpl (p_sy p) ++ ["transmissivity:"] ++
  match p_tr p with
  | TPeat k a z =>
      ["  type: peatclsm";
       "  Ksmacz0: @Ksmacz0                 @  # m/s";
       "  alpha: @alpha                   @  # dimensionless";
       "  zeta_max_cm: " +++ z]
  | TSpline zeta kk tmin =>
      ["  type: spline"; "  zeta_knots_mm:"] ++ map dash zeta
      ++ ["  K_knots_km_d:  # Conductivity, km /d"]
      ++ map (fun i => "    - @K_knot_" +++ ljust 17 (nat_str i) +++ "@") (seq 1 (List.length kk))
      ++ ["  minimum_transmissivity_m2_d: @T_min                   @  # Minimum transmissivity, m2 /d"]
  end.

(** Instruction files. *)
Definition ins_line (i : nat) : string := "l1 [e" +++ nat_str i +++ "]3:24".

Definition rise_ins (n_zeta : nat) : list string :=
  ["pif @"; "@# Rise curve simulation vector@"] ++ map ins_line (seq 1 n_zeta).

Definition curves_ins (n_rise n_rec : nat) : list string :=
  ["pif @"; "@# Rise curve simulation vector@"] ++ map ins_line (seq 1 n_rise)
  ++ ["@# Recession curve simulation vector@"] ++ map ins_line (seq (n_rise + 1) n_rec).

(** Control files. *)
Definition count_line (npar nobs npargp nobsgp : nat) : string :=
  rjust 5 (nat_str npar) +++ rjust 6 (nat_str nobs) +++ rjust 6 (nat_str npargp)
  +++ "     0" +++ rjust 6 (nat_str nobsgp).

Definition control_tail : list string :=
  ["    1     1 double point   1   0   0";
   "   5.0  2.0   0.3  0.03    10";
   "  3.0   3.0 0.001  0";
   "  0.1";
   "   30  0.01     4     3  0.01     3";
   "    1     1     1"].

Definition obs_line (grp : string) (i : nat) (tok : string) : string :=
  "e" +++ nat_str i +++ "    " +++ tok +++ "    1.0   " +++ grp.

(** [obs_lines grp first toks]: observation lines numbered from [first]. *)
Fixpoint obs_lines (grp : string) (first : nat) (toks : list string) : list string :=
  match toks with
  | [] => []
  | t :: r => obs_line grp first t :: obs_lines grp (S first) r
  end.

Definition rise_par_groups (spline : bool) : list string :=
  if spline then ["sy_knot      relative 0.01  0.0  switch  2.0 parabolic"]
  else ["sd           relative 0.01  0.0  switch  2.0 parabolic";
        "theta_s      relative 0.01  0.0  switch  2.0 parabolic";
        "b            relative 0.01  0.0  switch  2.0 parabolic";
        "psi_s        relative 0.01  0.0  switch  2.0 parabolic"].

Definition rise_par_data (spline : bool) (n : nat) : list string :=
  if spline then
    map (fun i => "sy_knot_" +++ nat_str i +++ "   none relative   NaN  0.01  1    sy_knot    1.0  0.0 1")
        (seq 1 n)
  else ["sd          none relative   NaN  0.0   2.0  sd         1.0  0.0 1";
        "theta_s     none relative   NaN  0.01  1    theta_s    1.0  0.0 1";
        "b           none relative   NaN  0.01  20.0 b          1.0  0.0 1";
        "psi_s       none relative   NaN  -1.0  -0.01  psi_s      1.0  0.0 1"].

(** generate_rise_pst_file.  [n_zeta] = count(distinct zeta_number) of
    rising_interval_zeta; [obs] = '{:0.17g}' of average_rising_depth by level. *)
Definition rise_pst (p : params) (n_zeta : nat) (obs : list string) : list string :=
  let spline := sy_spline (p_sy p) in
  let npar := if spline then sy_n (p_sy p) else 4 in
  let npargp := if spline then 1 else 4 in
  ["pcf"; "* control data"; "restart  estimation"; count_line npar n_zeta npargp 1]
  ++ control_tail
  ++ ["* parameter groups"] ++ rise_par_groups spline
  ++ ["* parameter data"] ++ rise_par_data spline npar
  ++ ["* observation groups"; "storageobs"]
  ++ ["* observation data"] ++ obs_lines "storageobs" 1 obs
  ++ ["* model command line"; "bash simulate-rise.sh";
      "* model input/output"; "rise_pars.yml.tpl  rise_pars.yml";
      "rise_observations.ins  rise_observations.yml";
      "* prior information"].

Definition curves_par_groups (spline : bool) : list string :=
  if spline then ["sy_knot      relative 0.01  0.0  switch  2.0 parabolic";
                  "k_knot       relative 0.01  0.0  switch  2.0 parabolic";
                  "T_min        relative 0.01  0.0  switch  2.0 parabolic"]
  else ["sd           relative 0.01  0.0  switch  2.0 parabolic";
        "theta_s      relative 0.01  0.0  switch  2.0 parabolic";
        "b            relative 0.01  0.0  switch  2.0 parabolic";
        "psi_s        relative 0.01  0.0  switch  2.0 parabolic";
        "Ksmacz0      relative 0.01  0.0  switch  2.0 parabolic";
        "alpha        relative 0.01  0.0  switch  2.0 parabolic"].

Definition curves_par_data (spline : bool) (n_sy n_t : nat) : list string :=
  if spline then
    map (fun i => "sy_knot_" +++ nat_str i +++ "  none relative  NaN  0.01     1       sy_knot  1.0  0.0  1")
        (seq 1 n_sy)
    ++ map (fun i => "k_knot_" +++ nat_str i +++ "   log  factor    NaN  1.0e-04  1.0e+5  k_knot   1.0  0.0  1")
        (seq 1 n_t)
    ++ ["T_min      log  factor    NaN  1.0e-04  1.0e+5  T_min    1.0  0.0  1"]
  else ["sd          none relative   NaN  0.0      2.0        sd         1.0  0.0  1";
        "theta_s     none relative   NaN  0.01     1          theta_s    1.0  0.0  1";
        "b           none relative   NaN  0.01     20.0       b          1.0  0.0  1";
        "psi_s       none relative   NaN  -1.0     -0.01      psi_s      1.0  0.0  1";
        "Ksmacz0     log  factor     NaN  1.0e-04  1.0e+5  Ksmacz0    1.0  0.0  1";
        "alpha       none relative   NaN  1        20.0       alpha      1.0  0.0  1"].

(** generate_curves_pst_file.  With a spline specific yield the code takes
    len(transmissivity.K_knots_km_d): a peatclsm transmissivity has no such key. *)
Definition curves_pst (p : params) (rise_obs rec_obs : list string) : res (list string) :=
  let spline := sy_spline (p_sy p) in
  let n_sy := sy_n (p_sy p) in
  match (if spline then
           match p_tr p with
           | TSpline _ kk _ => Ok (List.length kk)
           | TPeat _ _ _ => Err EKey
           end
         else Ok 0) with
  | Err e => Err e
  | Ok n_t =>
    let npar := if spline then n_sy + n_t + 1 else 6 in
    let npargp := if spline then 3 else 6 in
    let n_rise := List.length rise_obs in
    Ok (["pcf"; "* control data"; "restart  estimation";
         count_line npar (n_rise + List.length rec_obs) npargp 2]
        ++ control_tail
        ++ ["* parameter groups"] ++ curves_par_groups spline
        ++ ["* parameter data"] ++ curves_par_data spline n_sy n_t
        ++ ["* observation groups"; "storageobs"; "timeobs"]
        ++ ["* observation data"] ++ obs_lines "storageobs" 1 rise_obs
        ++ obs_lines "timeobs" (n_rise + 1) rec_obs
        ++ ["* model command line"; "bash simulate-curves.sh";
            "* model input/output"; "curves_pars.yml.tpl  curves_pars.yml";
            "curves_observations.ins  curves_observations.yml";
            "* prior information"])
  end.

(** * Observation order: master-curve rows keyed by level number *)
Definition sort_asc {A} (rows : list (Z * A)) : list (Z * A) := sort_by (fun r => fst r) rows.
Definition sort_desc {A} (rows : list (Z * A)) : list (Z * A) :=
  sort_by (fun r => (- fst r)%Z) rows.

(** pestfiles: rise observations ORDER BY zeta_mm; recession ORDER BY zeta_mm DESC.
    simulate: rise ORDER BY zeta_mm; recession ORDER BY zeta_mm, then reversed. *)
Definition pst_rise_order {A} (rows : list (Z * A)) := sort_asc rows.
Definition pst_recession_order {A} (rows : list (Z * A)) := sort_desc rows.
Definition sim_rise_order {A} (rows : list (Z * A)) := sort_asc rows.
Definition sim_recession_order {A} (rows : list (Z * A)) := rev (sort_asc rows).

(** `spowtd simulate rise|recession --observations`: a comment line, then the
    YAML block sequence of the values (PyYAML writes "- " and the float). *)
Definition sim_output (header : string) (toks : list string) : list string :=
  header :: map (fun t => "- " +++ t) toks.
Definition rise_header := "# Rise curve simulation vector".
Definition recession_header := "# Recession curve simulation vector".

(** * PEST as a reader *)

(** Template file: after the [ptf @] line, every text between a pair of
    delimiters is a parameter space; its name is the text with blanks removed at
    both ends. *)
Fixpoint scan_fields (inside : bool) (acc : string) (s : string) : list string :=
  match s with
  | "" => []
  | String c t =>
      if Ascii.eqb c "@"%char
      then if inside then trim acc :: scan_fields false "" t else scan_fields true "" t
      else if inside then scan_fields true (acc +++ String c "") t else scan_fields false "" t
  end.

Definition line_fields (l : string) : list string := scan_fields false "" l.

Definition tpl_placeholders (tpl : list string) : res (list string) :=
  match tpl with
  | "ptf @" :: rest => Ok (flat_map line_fields rest)
  | _ => Err EValue
  end.

(** Filling a template: each parameter space, delimiters included, is replaced
    by the value's text padded to the width of the space (PEST never writes more
    characters than the space holds: [None] if the text does not fit). *)
Fixpoint fill_line (val : string -> string) (inside : bool) (acc : string) (s : string)
  : option string :=
  match s with
  | "" => if inside then None else Some ""
  | String c t =>
      if Ascii.eqb c "@"%char
      then if inside
           then let v := val (trim acc) in
                let w := String.length acc + 2 in
                if (String.length v <=? w)%nat
                then option_map (fun r => ljust w v +++ r) (fill_line val false "" t)
                else None
           else fill_line val true "" t
      else if inside then fill_line val true (acc +++ String c "") t
           else option_map (String c) (fill_line val false "" t)
  end.

Fixpoint fill_lines (val : string -> string) (ls : list string) : option (list string) :=
  match ls with
  | [] => Some []
  | l :: r =>
      match fill_line val false "" l, fill_lines val r with
      | Some a, Some b => Some (a :: b)
      | _, _ => None
      end
  end.

Definition tpl_fill (val : string -> string) (tpl : list string) : option (list string) :=
  match tpl with
  | "ptf @" :: rest => fill_lines val rest
  | _ => None
  end.

(** The scalar a YAML reader sees on a line [key: value  # comment] or
    [- value]: comment removed, blanks removed at both ends.  (Enough for the
    parameter files spowtd writes: block mappings / sequences of plain scalars.) *)
Fixpoint strip_comment (s : string) : string :=
  match s with
  | "" => ""
  | String c t =>
      if Ascii.eqb c space && starts_with_char "#"%char t then "" else String c (strip_comment t)
  end.

Fixpoint after_colon (s : string) : option string :=
  match s with
  | "" => None
  | String c t => if Ascii.eqb c ":"%char then Some t else after_colon t
  end.

Definition yaml_scalar (line : string) : string :=
  let l := ltrim (strip_comment line) in
  match l with
  | String "-" (String " " t) => trim t
  | _ => match after_colon l with Some t => trim t | None => trim l end
  end.

(** Instruction file. *)
Fixpoint split_char (c : ascii) (s : string) : option (string * string) :=
  match s with
  | "" => None
  | String d t =>
      if Ascii.eqb c d then Some ("", t)
      else match split_char c t with
           | Some (a, b) => Some (String d a, b)
           | None => None
           end
  end.

(** [l<n> [<name>]<c1>:<c2>] *)
Definition parse_instruction (i : string) : option (nat * string * nat * nat) :=
  match i with
  | String "l" r =>
      match split_char space r with
      | Some (n, String "[" r2) =>
          match split_char "]"%char r2 with
          | Some (name, cols) =>
              match split_char ":"%char cols with
              | Some (c1, c2) =>
                  match parse_nat n, parse_nat c1, parse_nat c2 with
                  | Some n', Some a, Some b => Some (n', name, a, b)
                  | _, _, _ => None
                  end
              | None => None
              end
          | None => None
          end
      | _ => None
      end
  | _ => None
  end.

Definition contains (text line : string) : bool :=
  match index 0 text line with Some _ => true | None => false end.

(** Lines after the first line containing [text]. *)
Fixpoint seek (text : string) (out : list string) : option (list string) :=
  match out with
  | [] => None
  | l :: r => if contains text l then Some r else seek text r
  end.

Definition marker_text (i : string) : option string :=
  match i with
  | String "@" r => match split_char "@"%char r with Some (t, "") => Some t | _ => None end
  | _ => None
  end.

(** Run the instructions (after the [pif @] line) over the lines of the model
    output that follow the cursor.  Result: (observation name, text of the
    columns with blanks removed at both ends). *)
Fixpoint ins_run (ins : list string) (out : list string) : res (list (string * string)) :=
  match ins with
  | [] => Ok []
  | i :: rest =>
      match marker_text i with
      | Some text =>
          match seek text out with
          | Some out' => ins_run rest out'
          | None => Err EValue
          end
      | None =>
          match parse_instruction i with
          | Some (n, name, c1, c2) =>
              match skipn (n - 1) out with
              | cur :: out' =>
                  if ((1 <=? n)%nat && (1 <=? c1)%nat && (c1 <=? c2)%nat)%bool then
                    bind (ins_run rest out')
                         (fun l => Ok ((name, trim (substring (c1 - 1) (c2 - c1 + 1) cur)) :: l))
                  else Err EValue
              | [] => Err EIndex
              end
          | None => Err EValue
          end
      end
  end.

Definition ins_read (ins out : list string) : res (list (string * string)) :=
  match ins with
  | "pif @" :: rest => ins_run rest out
  | _ => Err EValue
  end.

(** Control file: lines of a section (after its [* title] line up to the next
    line that starts with [*]); the count line is the 4th line. *)
Fixpoint take_section (ls : list string) : list string :=
  match ls with
  | [] => []
  | l :: r => if starts_with_char "*"%char l then [] else l :: take_section r
  end.

Fixpoint pst_section (title : string) (ls : list string) : list string :=
  match ls with
  | [] => []
  | l :: r => if String.eqb l title then take_section r else pst_section title r
  end.

Definition pst_counts (pst : list string) : option (list nat) :=
  match nth_error pst 3 with
  | None => None
  | Some l =>
      fold_right (fun w acc => match parse_nat w, acc with
                               | Some n, Some a => Some (n :: a)
                               | _, _ => None
                               end) (Some []) (words l)
  end.

Definition pst_par_names (pst : list string) : list string :=
  map first_word (pst_section "* parameter data" pst).

Definition pst_obs (pst : list string) : list (string * string) :=
  map (fun l => (nth 0 (words l) "", nth 1 (words l) "")) (pst_section "* observation data" pst).

(** * Case checks (generated files compared line by line, byte for byte) *)
Definition lines_case_ok (c : list string * list string) : bool := strings_eqb (fst c) (snd c).

Definition res_lines_eqb := res_eqb strings_eqb.

Definition pairs_eqb := list_eqb (pair_eqb String.eqb String.eqb).
