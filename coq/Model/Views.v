(** The SQL views of spowtd/schema.sql through which the master curves are read
    (plotting, the PEST files and the user never read the tables directly):

      average_rising_depth / average_recession_time
        SELECT zeta_number * zg.grid_interval_mm AS zeta_mm,
               AVG(offset + mean_crossing) AS value
        FROM rising_interval AS ri            -- offsets: (start_epoch, offset)
        JOIN rising_interval_zeta USING (start_epoch)   -- crossings
        JOIN discrete_zeta AS dz USING (zeta_number)    -- grid levels
        JOIN zeta_grid AS zg ON zg.id = dz.zeta_grid    -- the singleton step
        GROUP BY zeta_number, grid_interval_mm;

      rising_curve_line_segment
        storm_total_rise (zeta_interval_storm JOIN zeta_interval JOIN water_level
        JOIN water_level) JOIN storm_total_rain_depth USING (storm_start_epoch)
        JOIN rising_interval ON start_epoch = interval_start_epoch.

    All joins are INNER joins: a row of the left operand with no partner gives
    no row.  Joins are modelled as joins (nested loops over the row lists, no
    foreign key is assumed to hold), in the left-deep order of the FROM clause.
    Numbers: level numbers and epochs are integers; offsets, crossing values,
    water levels, intensities and the step are exact rationals (a binary64
    value IS a rational; SQLite adds and divides in binary64, which the
    correspondence check allows for with a tolerance).
    GROUP BY: SQLite emits the groups in ascending order of the grouping terms
    (here: zeta_number; the step is a single value).  The views have no ORDER
    BY; the order modelled is the one SQLite 3.40 produces, and it is compared
    exactly on every run.
    Definitions only. *)
From Spowtd Require Export Model.FitOffsets.
From Spowtd Require Model.DepthView.
From Coq Require Import Qabs.

(** ** INNER JOIN on an integer key: for every row [a] of the left operand, the
    rows [b] of the right operand whose key equals [sel a]. *)
Definition join_on {A B C} (sel : A -> Z) (kb : B -> Z) (g : A -> B -> C)
  (l : list A) (T : list B) : list C :=
  flat_map (fun a => flat_map (fun b => if Z.eqb (kb b) (sel a) then [g a b] else []) T) l.

(** ** average_rising_depth / average_recession_time *)

(** Row of the join before grouping: (zeta_number, offset, crossing value). *)
Definition vj_level (r : Z * Q * Q) : Z := fst (fst r).
Definition vj_term (r : Z * Q * Q) : Q := snd (fst r) + snd r.

Definition view_join (offsets : list (Z * Q)) (crossings : list (Z * Z * Q)) (grid : list Z)
  : list (Z * Q * Q) :=
  join_on (fun oc : (Z * Q) * (Z * Z * Q) => snd (fst (snd oc))) (fun k : Z => k)
          (fun oc k => (k, snd (fst oc), snd (snd oc)))
          (join_on (fun o : Z * Q => fst o) (fun c : Z * Z * Q => fst (fst c))
                   (fun o c => (o, c)) offsets crossings)
          grid.

(** Keys of the groups, ascending, each once. *)
Fixpoint insert_level (k : Z) (l : list Z) : list Z :=
  match l with
  | [] => [k]
  | y :: t => if Z.ltb k y then k :: y :: t else if Z.eqb k y then y :: t else y :: insert_level k t
  end.
Definition group_keys (l : list Z) : list Z := fold_right insert_level [] l.

(** AVG over a (non-empty) group. *)
Definition sql_avg (l : list Q) : Q := qsum l / inject_Z (Z.of_nat (length l)).

Definition view_group (k : Z) (rows : list (Z * Q * Q)) : list (Z * Q * Q) :=
  filter (fun r => Z.eqb (vj_level r) k) rows.

(** Level numbers of the view's rows, in the view's order. *)
Definition view_levels (offsets : list (Z * Q)) (crossings : list (Z * Z * Q)) (grid : list Z)
  : list Z :=
  group_keys (map vj_level (view_join offsets crossings grid)).

(** The view: rows (zeta_mm, AVG(offset + crossing)). *)
Definition view_average (offsets : list (Z * Q)) (crossings : list (Z * Z * Q)) (grid : list Z)
  (step : Q) : list (Q * Q) :=
  let rows := view_join offsets crossings grid in
  map (fun k => (inject_Z k * step, sql_avg (map vj_term (view_group k rows))))
      (group_keys (map vj_level rows)).

(** ** The bridge to Model/FitOffsets.v: the entries (level, interval, crossing
    value) of the ALIGNED intervals - those that have a row in the offsets
    table; interval id = position of that row - and the assignment of offsets
    the table holds.  The grid plays no part here. *)
Fixpoint number_rows {A} (i : nat) (l : list A) : list (nat * A) :=
  match l with
  | [] => []
  | a :: r => (i, a) :: number_rows (S i) r
  end.

Definition entries_from (n : nat) (offsets : list (Z * Q)) (crossings : list (Z * Z * Q))
  : list entry :=
  join_on (fun io : nat * (Z * Q) => fst (snd io)) (fun c : Z * Z * Q => fst (fst c))
          (fun io c => {| e_head := snd (fst c); e_series := fst io; e_val := snd c |})
          (number_rows n offsets) crossings.

Definition aligned_entries (offsets : list (Z * Q)) (crossings : list (Z * Z * Q)) : list entry :=
  entries_from 0 offsets crossings.

Definition offset_of (offsets : list (Z * Q)) (i : nat) : Q := nth i (map snd offsets) 0.

(** Levels of the assembled curve: those crossed by an aligned interval. *)
Definition curve_levels (offsets : list (Z * Q)) (crossings : list (Z * Z * Q)) : list Z :=
  group_keys (map e_head (aligned_entries offsets crossings)).

(** The writers' last step (rise.py:130-152, recession.py:94-126): every offset
    is stored minus the level mean at the reference level. *)
Definition shift_offsets (m : Q) (offsets : list (Z * Q)) : list (Z * Q) :=
  map (fun o => (fst o, snd o - m)) offsets.

Definition store_with_reference (offsets : list (Z * Q)) (crossings : list (Z * Z * Q)) (ref : Z)
  : list (Z * Q) :=
  shift_offsets (head_mean (aligned_entries offsets crossings) (offset_of offsets) ref) offsets.

(** The tables a writer produces from the result of get_series_time_offsets:
    one offsets row per series id, one crossing row per mapping entry
    ([start_of] = start epoch of the interval with that series id). *)
Definition written_offsets (start_of : nat -> Z) (sids : list nat) (offs : list Q) : list (Z * Q) :=
  map (fun s => (start_of s, assignment sids offs s)) sids.
Definition written_crossings (start_of : nat -> Z) (hm : head_mapping) : list (Z * Z * Q) :=
  flat_map (fun p => map (fun c => (start_of (fst c), fst p, snd c)) (snd p)) hm.

(** ** rising_curve_line_segment *)

(** storm_total_rise: (storm_start_epoch, interval_start_epoch, initial, final)
    from zeta_interval_storm [pairing: (interval start, storm start)],
    zeta_interval [(start, thru); the type column is not consulted] and
    water_level [(epoch, level)] twice. *)
Definition total_rise_rows (pairing : list (Z * Z)) (zint : list (Z * Z)) (wl : list (Z * Q))
  : list (Z * Z * Q * Q) :=
  let j1 := join_on (fun p : Z * Z => fst p) (fun zi : Z * Z => fst zi)
                    (fun p zi => (p, snd zi)) pairing zint in            (* ((e, s), thru) *)
  let j2 := join_on (fun r : Z * Z * Z => fst (fst r)) (fun w : Z * Q => fst w)
                    (fun r w => (r, snd w)) j1 wl in                     (* (((e, s), thru), zi) *)
  join_on (fun r : Z * Z * Z * Q => snd (fst r)) (fun w : Z * Q => fst w)
          (fun r w => (snd (fst (fst r)), fst (fst (fst r)), snd r, snd w)) j2 wl.

(** storm_total_rain_depth: one row per storm that has at least one rainfall
    row inside it (GROUP BY s.start_epoch over an inner join; start_epoch is the
    PRIMARY KEY of storm, which SQLite enforces). *)
Definition rain_depth_rows (storms : list (Z * Z)) (rain : list DepthView.rain_row) : list (Z * Q) :=
  flat_map (fun s => match filter (DepthView.in_storm (fst s) (snd s)) rain with
                     | [] => []
                     | _ => [(fst s, DepthView.view_depth (fst s) (snd s) rain)]
                     end) storms.

(** Rows (interval_start_epoch, rain_depth_offset_mm, rain_total_depth_mm,
    initial_zeta_mm, final_zeta_mm). *)
Definition view_line_segments (pairing : list (Z * Z)) (zint : list (Z * Z)) (wl : list (Z * Q))
  (storms : list (Z * Z)) (rain : list DepthView.rain_row) (offsets : list (Z * Q))
  : list (Z * Q * Q * Q * Q) :=
  let j := join_on (fun r : Z * Z * Q * Q => fst (fst (fst r))) (fun d : Z * Q => fst d)
                   (fun r d => (r, snd d)) (total_rise_rows pairing zint wl)
                   (rain_depth_rows storms rain) in
  join_on (fun rd : (Z * Z * Q * Q) * Q => snd (fst (fst (fst rd)))) (fun o : Z * Q => fst o)
          (fun rd o => (snd (fst (fst (fst rd))), snd o, snd rd, snd (fst (fst rd)), snd (fst rd)))
          j offsets.

Definition seg_epoch (r : Z * Q * Q * Q * Q) : Z := fst (fst (fst (fst r))).
Definition seg_offset (r : Z * Q * Q * Q * Q) : Q := snd (fst (fst (fst r))).

(** ** Comparison with what the real SQLite views return (generated case files) *)

Definition qclose (rel : Q) (scale : Q) (m i : Q) : bool := Qle_bool (Qabs (i - m)) (rel * scale).

Fixpoint forallb2 {A B} (f : A -> B -> bool) (l1 : list A) (l2 : list B) : bool :=
  match l1, l2 with
  | [], [] => true
  | a :: t1, b :: t2 => f a b && forallb2 f t1 t2
  | _, _ => false
  end.

(** Magnitude of the terms of a group: what the binary64 rounding of SQLite's
    AVG is relative to (the mean itself may cancel to 0 at the reference level). *)
Definition view_scales (offsets : list (Z * Q)) (crossings : list (Z * Z * Q)) (grid : list Z)
  : list Q :=
  let rows := view_join offsets crossings grid in
  map (fun k => sql_avg (map (fun r => Qabs (snd (fst r)) + Qabs (snd r)) (view_group k rows)))
      (group_keys (map vj_level rows)).

Definition rel_zeta : Q := 1 # 1000000000000000.     (* one rounding of level * step *)
Definition rel_value : Q := 1 # 1000000000.

(** case = (offsets, crossings, grid levels, step, rows of the real view in the
    order SQLite returned them). *)
Definition view_case := (list (Z * Q) * list (Z * Z * Q) * list Z * Q * list (Q * Q))%type.

(** the view as SQL computes it = the real view: same number of rows, same
    levels in the same order, values within 1e-9 of the terms' magnitude *)
Definition check_view_model (c : view_case) : bool :=
  match c with
  | (offsets, crossings, grid, step, impl) =>
      forallb2 (fun ms i => qclose rel_zeta (Qabs (fst (fst ms))) (fst (fst ms)) (fst i)
                            && qclose rel_value (snd ms) (snd (fst ms)) (snd i))
               (combine (view_average offsets crossings grid step) (view_scales offsets crossings grid))
               impl
  end.

(** the conclusion of C13_view_shows_every_stored_level evaluated on the real
    view: its levels are ALL the levels crossed by an aligned interval *)
Definition check_view_complete (c : view_case) : bool :=
  match c with
  | (offsets, crossings, grid, step, impl) =>
      forallb2 (fun k i => qclose rel_zeta (Qabs (inject_Z k * step)) (inject_Z k * step) (fst i))
               (curve_levels offsets crossings) impl
  end.

Definition check_view (c : view_case) : bool := check_view_model c && check_view_complete c.

(** line segments: compared as row sets ordered by interval start (the order
    of a join without ORDER BY is the planner's choice). *)
Definition seg_case := (list (Z * Z) * list (Z * Z) * list (Z * Q) * list (Z * Z)
                        * list (Z * Z * Q) * list (Z * Q) * list (Z * Q * Q * Q * Q))%type.

Definition to_rain_rows (l : list (Z * Z * Q)) : list DepthView.rain_row :=
  map (fun r => {| DepthView.r_from := fst (fst r); DepthView.r_thru := snd (fst r);
                   DepthView.r_mm_h := snd r |}) l.

Definition seg_close (m i : Z * Q * Q * Q * Q) : bool :=
  match m, i with
  | (e, o, d, zi, zf), (e', o', d', zi', zf') =>
      Z.eqb e e' && Qeq_bool o o' && qclose rel_value (Qabs d) d d' && Qeq_bool zi zi' && Qeq_bool zf zf'
  end.

Definition check_segments (c : seg_case) : bool :=
  match c with
  | (pairing, zint, wl, storms, rain, offsets, impl) =>
      forallb2 seg_close
               (sort_by seg_epoch (view_line_segments pairing zint wl storms (to_rain_rows rain) offsets))
               (sort_by seg_epoch impl)
  end.
