(** Model of spowtd/simulate_rise.py.

    [rise_curve] = compute_rise_curve(specific_yield, zeta_grid_mm,
    mean_storage_mm):
        dW[0] = 0.0;  dW[i] = specific_yield.integrate(grid[i-1], grid[i])
        W = np.cumsum(dW);  W += mean_storage_mm - W.mean()
    generic in the integrator [integ] (for a specific yield object this is
    Model/SplineWrap.v [integrate], SpecificYield.integrate just forwards).

    [simulate_rise] = the command `spowtd simulate rise`: rows of the view
    average_rising_depth ORDER BY zeta_mm, requested mean = mean of the
    measured storage, output table rows (level_mm, measured, simulated);
    with --observations only the simulated column is written.

    Over [fops] like the spline models: run at Q / BigQ, proved at R.
    Definitions only. *)
From Coq Require Import QArith Reals.
From Spowtd Require Export Model.SplineWrap.

Section SimRise.
  Context {F : Type} (O : fops F).
  Variable integ : F -> F -> F.
  Local Notation "a + b" := (fadd O a b).
  Local Notation "a - b" := (fsub O a b).
  Local Notation "a / b" := (fdiv O a b).

  (** integ z_{i-1} z_i for the levels after [prev] *)
  Fixpoint increments (prev : F) (zs : list F) : list F :=
    match zs with
    | [] => []
    | z :: t => integ prev z :: increments z t
    end.

  (** np.cumsum *)
  Fixpoint cumsum_from (acc : F) (l : list F) : list F :=
    match l with
    | [] => []
    | x :: t => (acc + x) :: cumsum_from (acc + x) t
    end.

  Definition fsum (l : list F) : F := fold_left (fadd O) l (f0 O).
  Definition fmean (l : list F) : F := fsum l / fofnat O (length l).

  (** The storage before the mean shift: W_0 = 0, W_i = W_{i-1} + dW_i. *)
  Definition raw_curve (z0 : F) (t : list F) : list F :=
    cumsum_from (f0 O) (f0 O :: increments z0 t).

  (** An empty grid: [dW_mm[0] = 0.0] raises IndexError. *)
  Definition rise_curve (grid : list F) (m : F) : res (list F) :=
    match grid with
    | [] => Err EIndex
    | z0 :: t =>
        let W := raw_curve z0 t in
        let shift := m - fmean W in
        Ok (map (fun w => w + shift) W)
    end.

  (** ORDER BY zeta_mm: insertion sort on the level (first component). *)
  Fixpoint insert_row (r : F * F) (l : list (F * F)) : list (F * F) :=
    match l with
    | [] => [r]
    | s :: t => if fltb O (fst s) (fst r) then s :: insert_row r t else r :: s :: t
    end.
  Fixpoint sort_rows (l : list (F * F)) : list (F * F) :=
    match l with
    | [] => []
    | r :: t => insert_row r (sort_rows t)
    end.

  Fixpoint zip3 (a b c : list F) : list (F * F * F) :=
    match a, b, c with
    | x :: ta, y :: tb, z :: tc => (x, y, z) :: zip3 ta tb tc
    | _, _, _ => []
    end.

  (** [view] = rows (zeta_mm, mean_crossing_depth_mm) of average_rising_depth in
      any order.  No row: unpacking the transposed cursor raises ValueError. *)
  Definition simulate_rise (view : list (F * F)) : res (list (F * F * F)) :=
    match sort_rows view with
    | [] => Err EValue
    | rows =>
        let zs := map fst rows in
        let ms := map snd rows in
        bind (rise_curve zs (fmean ms)) (fun W => Ok (zip3 zs ms W))
    end.

  (** --observations: [yaml.dump(W_mm.tolist())] *)
  Definition simulate_rise_observations (view : list (F * F)) : res (list F) :=
    bind (simulate_rise view) (fun rows => Ok (map snd rows)).
End SimRise.
