(** C04 — interstorm intervals are clean, maximal, rain-free recessions; stored
    per-step flags agree with the definitions.  Statements only; proofs are in
    Proofs/. Quantification: all boolean vectors of rain / fast-increment flags
    of equal length, hence all loaded datasets and all thresholds. *)
From Spowtd Require Import Model.Mystery Proofs.RunsSpec Proofs.MysterySpec
  Generated.MysteryGen Proofs.MysteryGenSpec Proofs.InterstormRecordSpec.
From Spowtd Require Import Model.Flags Proofs.RunsRecordSpec Proofs.InterstormDataSpec.

(** The "unexplained rise" flag of sample i is off iff some sample r <= i had
    rain and samples r+1..i are rain-free and end no fast increment. *)
Theorem C04_mystery_flag_char : forall jump rain i,
  length jump = length rain -> i < length rain ->
  (nth i (mystery_from true jump rain) true = false <-> dry_since_rain jump rain i).
Proof. exact mystery_char. Qed.
Print Assumptions C04_mystery_flag_char.

(** The interstorm flag of sample i is on iff the sample is rain-free, some
    earlier sample had rain, and every sample since the last rainy one is
    rain-free and ends no fast increment. *)
Theorem C04_interstorm_flag_char : forall jump rain i,
  length jump = length rain -> i < length rain ->
  (nth i (interstorm_flags jump rain) false = true <->
   nth i rain false = false /\
   exists r, r < i /\ nth r rain false = true /\ quiet jump rain r i).
Proof. exact interstorm_char. Qed.
Print Assumptions C04_interstorm_flag_char.

(** Tie to the code by TRANSLATION (in addition to the correspondence check):
    [gen_mask] is regenerated from the Python source of get_mystery_jump_mask on
    every run (harness/translate.py, fail closed).  It equals the model for all
    inputs, so the characterisation above is a theorem about the translated
    code itself; and the function's two closing assertions can never fail. *)
Theorem C04_translated_code_is_model : forall jump rain,
  gen_mask jump rain = mystery_from true jump rain.
Proof. exact generated_is_model. Qed.
Print Assumptions C04_translated_code_is_model.

Theorem C04_translated_flag_char : forall jump rain i,
  length jump = length rain -> i < length rain ->
  (nth i (gen_mask jump rain) true = false <-> dry_since_rain jump rain i).
Proof. intros jump rain i. rewrite generated_is_model. exact (mystery_char jump rain i). Qed.
Print Assumptions C04_translated_flag_char.

Theorem C04_translated_assertions_never_fail : forall jump rain,
  gen_closing_assertions = [1; 2] /\
  (forall i, i < length (gen_mask jump rain) -> nth i rain false = true -> nth i (gen_mask jump rain) true = false) /\
  (forall i, i < length (gen_mask jump rain) -> nth i rain true = false -> nth i jump false = true ->
             nth i (gen_mask jump rain) false = true).
Proof. exact generated_assertions_never_fail. Qed.
Print Assumptions C04_translated_assertions_never_fail.

(** Recorded intervals (first sample, last sample) are exactly the maximal runs
    of the interstorm flag with at least two samples: sound and complete. *)
Theorem C04_intervals_exact : forall jump rain a b,
  In (a, b) (interstorm_intervals jump rain) <->
  a < b /\ is_run (interstorm_flags jump rain) a (S b).
Proof. exact interstorm_intervals_exact. Qed.
Print Assumptions C04_intervals_exact.

(** Run detection itself: [true_runs] lists exactly the maximal runs. *)
Theorem C04_runs_exact : forall l s e, In (s, e) (true_runs l) <-> is_run l s e.
Proof. exact true_runs_spec. Qed.
Print Assumptions C04_runs_exact.

(** The first sample of a stretch is never flagged interstorm. *)
Theorem C04_first_sample_not_interstorm : forall jump rain,
  length jump = length rain -> nth 0 (interstorm_flags jump rain) false = false.
Proof. exact interstorm_first_false. Qed.
Print Assumptions C04_first_sample_not_interstorm.

(** The first sentence of the property on the record itself (no flags in the
    statement): (a, b) is recorded iff it has at least two samples, every sample
    of it is clean (rain-free, rain earlier in the stretch, no rain and no fast
    increment since that rain), and neither neighbour is clean (maximal).  Left
    to right is "every recorded interval is ..."; right to left is "every
    stretch meeting these conditions is recorded". *)
Theorem C04_intervals_on_the_record : forall jump rain a b,
  length jump = length rain ->
  (In (a, b) (interstorm_intervals jump rain) <->
   a < b /\ b < length rain /\
   (forall i, a <= i -> i <= b -> clean_sample jump rain i) /\
   (a = 0 \/ ~ clean_sample jump rain (a - 1)) /\
   (S b = length rain \/ ~ clean_sample jump rain (S b))).
Proof. exact interstorm_intervals_on_the_record. Qed.
Print Assumptions C04_intervals_on_the_record.

(** One witness of earlier rain serves the whole interval: it lies before the
    interval, and nothing between it and the interval's last sample is rainy or
    ends a fast increment. *)
Theorem C04_interval_rain_before_none_inside : forall jump rain a b,
  length jump = length rain -> In (a, b) (interstorm_intervals jump rain) ->
  (forall i, a <= i -> i <= b -> nth i rain false = false) /\
  (exists r, r < a /\ nth r rain false = true /\ quiet jump rain r b).
Proof. exact interval_has_rain_before_and_none_inside. Qed.
Print Assumptions C04_interval_rain_before_none_inside.

(** The same on the DATA of one gap-free stretch (binary64 rain intensities and
    water levels, the jump threshold and the step length): what the model of
    classify_interstorms records is exactly the maximal stretches of two samples
    or more that are rain-free (intensity not above 0), have rain earlier in the
    stretch and, since that rain, no rain and no increment strictly above
    threshold x step length. *)
Theorem C04_stretch_intervals_on_the_data : forall thr step rain z a b,
  length z = length rain ->
  (In (a, b) (sf_intervals (classify_interstorms_stretch thr step rain z)) <->
   a < b /\ b < length rain /\
   (forall i, a <= i -> i <= b -> clean_on_data thr step rain z i) /\
   (a = 0 \/ ~ clean_on_data thr step rain z (a - 1)) /\
   (S b = length rain \/ ~ clean_on_data thr step rain z (S b))).
Proof. exact stretch_intervals_on_the_data. Qed.
Print Assumptions C04_stretch_intervals_on_the_data.

Example C04_example_data :
  sf_intervals (classify_interstorms_stretch 5%float 3600
     [0; 2; 0; 0; 0; 0; 1; 0; 0]%float [10; 30; 29; 28; 27; 40; 39; 38; 37]%float)
  = [(2, 4); (7, 8)].
Proof. vm_compute. reflexivity. Qed.

(** Non-vacuity: a record with rain, a quiet recession, a dry fast increment
    (flagged as unexplained until the next rain) and a second recession. *)
Example C04_example :
  let rain := [false; true; false; false; false; false; true; false; false] in
  let jump := [false; true; false; false; true;  false; false; false; false] in
  interstorm_flags jump rain = [false; false; true; true; false; false; false; true; true]
  /\ interstorm_intervals jump rain = [(2, 3); (7, 8)].
Proof. vm_compute. split; reflexivity. Qed.
