(** C02 — the recorded matching admits no blocking pair (first sentence of the
    property), for every candidate graph, every preference function, every
    schedule; and at data level with the keys the code uses.

    The second sentence (storm-optimality and schedule independence when no
    candidate ties) is proved in Proofs/OptimalSpec.v (McVitie-Wilson: the
    invariant "no storm has been turned down by a rise it holds in some stable
    matching" is kept by every step under every schedule) and stated below,
    generic and at data level.  On the storm side the proposal list itself is
    the (strict) order, so only ties on the rise side have to be excluded.  It is
    additionally tested on every run by enumerating all schedules inside Coq on
    the generated cases ([all_outcomes]).

    The duration key of the code counts head *samples* of the rise where the
    recorded duration counts *steps*: the theorem below is about the code's key
    [dur_key]; for the recorded-duration reading the statement is refuted by a
    witness in Refuted/C02.v (known finding C02/duration-off-by-one). *)
From Spowtd Require Import Model.Matching Proofs.RunsSpec Proofs.MatchingSpec
  Proofs.MatchStormsSpec Proofs.ClassifySpec Proofs.OptimalSpec Proofs.MatchStormsOptimal
  Proofs.MatchStormsOptimalData.

(** Generic: if storm [s] is unmatched, or rise [j] has a strictly smaller key
    than its partner (its proposal order being sorted by that key), then [j]
    holds a storm it likes at least as much as [s]: (s, j) does not block. *)
Theorem C02_no_blocking_pair_generic : forall pref cands, NoDup (map fst cands) -> forall sched,
  exists st, stable_matching pref cands sched = Ok (mt st) /\
    forall key : nat -> nat -> Z,
      (forall s p q a b, O cands s = p ++ a :: q -> In b q -> (key s a <= key s b)%Z) ->
      forall s j, In j (O cands s) -> M st j <> Some s ->
        ((forall j', M st j' <> Some s) \/ exists j0, M st j0 = Some s /\ (key s j < key s j0)%Z) ->
        exists s', M st j = Some s' /\ (pref j s <= pref j s')%Z.
Proof.
  intros pref cands Hk sched.
  destruct (stable_matching_total pref cands Hk sched) as (st & _ & I & Hf & Hsm).
  exists st. split; [exact Hsm|].
  intros key Hsorted s j. exact (final_no_blocking_pair pref cands st I Hf key Hsorted s j).
Qed.
Print Assumptions C02_no_blocking_pair_generic.

(** Every recorded pair is a candidate (an edge of the overlap relation), no
    storm holds two rises and no rise two storms. *)
Theorem C02_matching_within_candidates : forall pref cands, NoDup (map fst cands) -> forall sched,
  exists st, stable_matching pref cands sched = Ok (mt st) /\
    (forall j s, In (j, s) (mt st) -> In j (O cands s)) /\
    NoDup (map fst (mt st)) /\ NoDup (map snd (mt st)).
Proof.
  intros pref cands Hk sched.
  destruct (stable_matching_total pref cands Hk sched) as (st & _ & I & Hf & Hsm).
  exists st. split; [exact Hsm|]. split; [|split].
  - intros j s Hin. apply (final_edge pref cands st I). apply (final_pair_in pref cands st I). exact Hin.
  - exact (final_rises_nodup pref cands st I).
  - exact (final_storms_nodup pref cands st I).
Qed.
Print Assumptions C02_matching_within_candidates.

(** Data level, any flags, any schedule, the code's keys: storm key
    |(#rain steps) - (#head samples of the rise)|, rise key -|start difference|. *)
Theorem C02_no_blocking_pair_data : forall heavy jumpf sched r sp rp,
  match_storms_flags heavy jumpf sched = Ok r ->
  is_run heavy (fst sp) (snd sp) -> 1 <= snd rp -> is_run jumpf (fst rp) (snd rp - 1) ->
  (exists i, fst sp <= i /\ i < snd sp /\ fst rp <= i /\ i < snd rp - 1) ->
  ~ In (sp, rp) r ->
  ((forall rp', ~ In (sp, rp') r) \/
   exists rp0, In (sp, rp0) r /\ (dur_key sp rp < dur_key sp rp0)%Z) ->
  exists sp', In (sp', rp) r /\ (start_pref (fst rp) (fst sp) <= start_pref (fst rp) (fst sp'))%Z.
Proof. exact ms_stable. Qed.
Print Assumptions C02_no_blocking_pair_data.

(** Second sentence, generic.  [stable pref cands mu]: mu is a matching within
    the candidate edges with no blocking pair (storms rank rises by position in
    their proposal list, rises rank storms by [pref]).  When no rise values two
    of its candidate storms equally, (a) the recorded matching is stable in that
    sense, (b) every storm gets in it a rise at least as good (equal, or earlier
    in its list) as in ANY stable matching, (c) the result is the same whatever
    the order in which the storms are taken from the work set. *)
Theorem C02_storm_optimal_generic : forall pref cands, NoDup (map fst cands) ->
  (forall s, NoDup (O cands s)) ->
  (forall j s s', In j (O cands s) -> In j (O cands s') -> s <> s' -> pref j s <> pref j s') ->
  forall sched m, stable_matching pref cands sched = Ok m ->
    (exists st, m = mt st /\ stable pref cands (final_matching st)) /\
    (forall mu s j, stable pref cands mu -> mr mu j = Some s ->
       exists j', alookup j' m = Some s /\ (j' = j \/ before (O cands s) j' j)).
Proof.
  intros pref cands Hk Hl Hs sched m H. split.
  - eapply result_stable; eassumption.
  - intros mu s j Hmu Hj. eapply result_storm_optimal; eassumption.
Qed.
Print Assumptions C02_storm_optimal_generic.

Theorem C02_schedule_independent_generic : forall pref cands, NoDup (map fst cands) ->
  (forall s, NoDup (O cands s)) ->
  (forall j s s', In j (O cands s) -> In j (O cands s') -> s <> s' -> pref j s <> pref j s') ->
  forall sched1 sched2 m1 m2,
    stable_matching pref cands sched1 = Ok m1 -> stable_matching pref cands sched2 = Ok m2 ->
    forall j s, alookup j m1 = Some s <-> alookup j m2 = Some s.
Proof. exact schedule_independent. Qed.
Print Assumptions C02_schedule_independent_generic.

(** Data level: for any flag vectors in which no rise is equally close in start
    to two storms overlapping it, the recorded set of pairs does not depend on
    the order in which Python's set hands out the storms. *)
Theorem C02_schedule_independent_data : forall heavy jumpf, no_rise_ties heavy jumpf ->
  forall sched1 sched2 r1 r2,
    match_storms_flags heavy jumpf sched1 = Ok r1 -> match_storms_flags heavy jumpf sched2 = Ok r2 ->
    forall pr, In pr r1 <-> In pr r2.
Proof. exact ms_schedule_independent. Qed.
Print Assumptions C02_schedule_independent_data.

(** Data level, "simultaneously best for every storm": on the candidate lists
    built from the flag vectors of a stretch (the argument match_storms hands to
    find_stable_matching), with no rise equally close in start to two of its
    candidate storms, the result is stable and every storm holds a rise at least
    as early in its own proposal order as any stable matching gives it -
    whatever the schedule. *)
Theorem C02_storm_optimal_data : forall heavy jumpf, no_rise_ties heavy jumpf ->
  let cands := all_candidates (true_runs heavy) (rises_of jumpf) in
  forall sched m, stable_matching start_pref cands sched = Ok m ->
    (exists st, m = mt st /\ stable start_pref cands (final_matching st)) /\
    (forall mu s j, stable start_pref cands mu -> mr mu j = Some s ->
       exists j', alookup j' m = Some s /\ (j' = j \/ before (O cands s) j' j)).
Proof. exact ms_storm_optimal. Qed.
Print Assumptions C02_storm_optimal_data.

(** Non-vacuity: storm 0 is displaced from rise 3 by storm 1 and settles for
    rise 5; the outcome is the same under every schedule. *)
Example C02_example :
  let pref := fun j s => match j, s with 3, 0 => (-3)%Z | 3, 1 => (-2)%Z | _, _ => (-5)%Z end in
  all_outcomes pref [(0, [3; 5]); (1, [3])] = [Ok [(3, 1); (5, 0)]; Ok [(3, 1); (5, 0)]].
Proof. vm_compute. reflexivity. Qed.

(** Non-vacuity of the hypotheses of the second sentence on the same example:
    proposal lists without repetition, rise 3 values storms 0 and 1 differently. *)
Example C02_example_no_ties :
  let pref := fun j s => match j, s with 3, 0 => (-3)%Z | 3, 1 => (-2)%Z | _, _ => (-5)%Z end in
  let cands := [(0, [3; 5]); (1, [3])] in
  NoDup (map fst cands) /\ (forall s, NoDup (O cands s)) /\
  (forall j s s', In j (O cands s) -> In j (O cands s') -> s <> s' -> pref j s <> pref j s').
Proof.
  cbv zeta. split; [|split].
  - repeat constructor; simpl; intuition discriminate.
  - intros [|[|s]]; vm_compute; repeat constructor; simpl; intuition discriminate.
  - intros j [|[|s]] [|[|s']]; vm_compute; intros H1 H2 Hne; try tauto; try congruence;
      repeat match goal with H : _ \/ _ |- _ => destruct H end; subst; try tauto; try discriminate; try congruence.
Qed.
