(** C20 — each workflow step is all-or-nothing and independent steps commute.
    Statements only; proofs are in Proofs/TxnSpec.v, the model in Model/Txn.v.

    Quantification: ALL event traces of the step shape (any number of DML /
    SELECT calls with arbitrary effects, optional final commit, normal exit of
    the [with] block), ALL cut points, both fault kinds (exception, kill), ALL
    stores; for commutation ALL transformers respecting the declared read /
    write table sets.  What is NOT proved here: that SQLite's journal and the
    [sqlite3] module implement [Model.Txn.step] — that is exercised on every
    run by fault enumeration (harness/props/c20.py). *)
From Coq Require Import List Permutation.
From Spowtd Require Import Model.Util Model.Txn Proofs.TxnSpec.
Import ListNotations.

(** All-or-nothing: a step hit by an exception or a kill after any number of
    its actions leaves the previous content or the complete result. *)
Theorem C20_atomic : forall (St : Type) (tr b : list (event St)), step_shape tr b ->
  forall k f (s : St), run (cut k f tr) s = s \/ run (cut k f tr) s = run tr s.
Proof. exact atomic. Qed.
Print Assumptions C20_atomic.

(** ... and which of the two: everything before the publishing action (the
    explicit commit, else the normal exit) leaves the previous content; a fault
    after it leaves the complete result, which is the composed effect of the body. *)
Theorem C20_atomic_precise : forall (St : Type) (tr b : list (event St)), step_shape tr b ->
  forall k f (s : St),
    (k <= length b -> run (cut k f tr) s = s) /\
    (length b < k -> run (cut k f tr) s = run tr s) /\
    run tr s = effect b s.
Proof.
  intros St tr b H k f s. split; [|split].
  - intro Hk. exact (cut_early_pre St tr b k f s H Hk).
  - intro Hk. exact (cut_late_post St tr b k f s H Hk).
  - exact (run_shaped St tr b s H).
Qed.
Print Assumptions C20_atomic_precise.

(** The step can be run again: after a failed attempt a new run gives what a
    first run would have given (or the attempt had already completed). *)
Theorem C20_retry : forall (St : Type) (tr b : list (event St)), step_shape tr b ->
  forall k f (s : St),
    (run (cut k f tr) s = s /\ run tr (run (cut k f tr) s) = run tr s)
    \/ run (cut k f tr) s = run tr s.
Proof. exact retry. Qed.
Print Assumptions C20_retry.

(** A failed attempt of ANY program — any sequence of DML / SELECT calls, the last
    one possibly cut short, that never reached a commit — is invisible. *)
Theorem C20_failed_attempt_invisible : forall (St : Type) (a : list (event St)) (s : St),
  failed_attempt a -> run a s = s.
Proof. exact failed_attempt_invisible. Qed.
Print Assumptions C20_failed_attempt_invisible.

(** Any number of failed attempts interleaved anywhere in a history of processes
    does not change the final dataset. *)
Theorem C20_failed_attempts_invisible : forall (St : Type) (h h' : list (list (event St))),
  erase_failed h h' -> forall s : St, run_history h s = run_history h' s.
Proof. exact failures_invisible. Qed.
Print Assumptions C20_failed_attempts_invisible.

(** Every cut of a shaped step before its publishing action is such a failed attempt. *)
Theorem C20_cut_is_failed_attempt : forall (St : Type) (tr b : list (event St)) k f,
  step_shape tr b -> k <= length b -> failed_attempt (cut k f tr).
Proof. exact cut_early_failed. Qed.
Print Assumptions C20_cut_is_failed_attempt.

(** Commutation: steps whose write sets are disjoint from everything the other
    reads or writes commute (table by table). *)
Theorem C20_commute : forall (table row : Type)
    (table_eq_dec : forall a b : table, {a = b} + {a <> b})
    Rf Wf Rg Wg (f g : store table row -> store table row),
  respects Rf Wf f -> respects Rg Wg g ->
  disjoint Wf (Rg ++ Wg) -> disjoint Wg (Rf ++ Wf) ->
  forall s, store_eq (f (g s)) (g (f s)).
Proof. exact commute. Qed.
Print Assumptions C20_commute.

(** All orders of pairwise independent steps agree. *)
Theorem C20_order_irrelevant : forall (table row : Type)
    (table_eq_dec : forall a b : table, {a = b} + {a <> b})
    (l l' : list (dstep table row)),
  Permutation l l' -> Forall valid l -> pairwise_indep l ->
  forall s, store_eq (apply_steps l s) (apply_steps l' s).
Proof. exact order_irrelevant. Qed.
Print Assumptions C20_order_irrelevant.

(** Headline: same independent steps, any two orders, any failed attempts in
    between (by exception or kill, cut anywhere before the commit): same dataset. *)
Theorem C20_histories_agree : forall (table row : Type)
    (table_eq_dec : forall a b : table, {a = b} + {a <> b})
    (h1 h2 g1 g2 : list (list (event (store table row)))) (ds1 ds2 : list (dstep table row)),
  erase_failed h1 g1 -> erase_failed h2 g2 ->
  implements table row g1 ds1 -> implements table row g2 ds2 ->
  Permutation ds1 ds2 -> Forall valid ds1 -> pairwise_indep ds1 ->
  forall s, store_eq (run_history h1 s) (run_history h2 s).
Proof. exact histories_agree. Qed.
Print Assumptions C20_histories_agree.

(** Instances for spowtd's steps with the table sets read off the SQL (and
    checked against the authorizer callback on every run). *)
Theorem C20_classify_grid_curvature_any_order : forall (row : Type)
    (classify grid curv : store tbl row -> store tbl row),
  respects R_classify W_classify classify ->
  respects R_zeta_grid W_zeta_grid grid ->
  respects R_curvature W_curvature curv ->
  forall l, Permutation [declared row R_classify W_classify classify;
                         declared row R_zeta_grid W_zeta_grid grid;
                         declared row R_curvature W_curvature curv] l ->
  forall s, store_eq (curv (grid (classify s))) (apply_steps l s).
Proof. exact setup_steps_any_order. Qed.
Print Assumptions C20_classify_grid_curvature_any_order.

Theorem C20_rise_recession_commute : forall (row : Type)
    (rise recession : store tbl row -> store tbl row),
  respects R_rise W_rise rise -> respects R_recession W_recession recession ->
  forall s, store_eq (rise (recession s)) (recession (rise s)).
Proof. exact rise_recession_commute. Qed.
Print Assumptions C20_rise_recession_commute.

(** The shape hypothesis is what carries atomicity: with a commit in the middle
    (e.g. moved into a loop) the model itself exhibits a mixture. *)
Theorem C20_commit_in_loop_not_atomic : forall (St : Type) (w1 w2 : St -> St) (s : St),
  w1 s <> s -> w2 (w1 s) <> w1 s ->
  let tr := [Dml 1 w1; Commit; Dml 1 w2; Commit; ExitOk] in
  run (cut 3 FExn tr) s <> s /\ run (cut 3 FExn tr) s <> run tr s.
Proof. exact early_commit_not_atomic. Qed.
Print Assumptions C20_commit_in_loop_not_atomic.

(** Non-vacuity.  The trace of `set-zeta-grid` on a 3-level grid (INSERT, SELECT,
    executemany of 3 rows, normal exit), on token stores: shaped; cut inside the
    executemany leaves the pre-state; complete run publishes both DML calls; the
    predicted SQL trace has the implicit BEGIN first and COMMIT last. *)
Example C20_example_shape :
  let full := [CDml 1 0; CSelect; CDml 3 2; CExitOk] in
  shape_ok full = true
  /\ step_shape (map ev_of full) (map ev_of [CDml 1 0; CSelect; CDml 3 2])
  /\ run (map ev_of full) [] = [2; 0]
  /\ predicted_outcome full [CDml 1 0; CSelect; CDml 2 2; CExitExn] = OPre
  /\ predicted_outcome full (full ++ [CExitExn]) = OPost
  /\ predicted_sql full = [SBegin; SStmt; SStmt; SStmt; SStmt; SStmt; SCommit]
  /\ predicted_sql [CDml 1 0; CSelect; CDml 2 2; CExitExn]
     = [SBegin; SStmt; SStmt; SStmt; SStmt; SRollback]
  /\ predicted_outcome [CDml 1 0; CCommit; CDml 1 2; CCommit; CExitOk]
                       [CDml 1 0; CCommit; CDml 1 2; CExitExn] = OMixed.
Proof.
  vm_compute. repeat split; try reflexivity.
  apply (shape_exit (list nat) (map ev_of [CDml 1 0; CSelect; CDml 3 2])). reflexivity.
Qed.

(** Non-vacuity of [respects] and of independence: a transformer that appends
    to [t_curvature] a row computed from nothing respects (R_curvature, W_curvature);
    one that copies the size of [t_water_level] into [t_zeta_grid] respects the
    set-zeta-grid sets; they commute by the theorem. *)
Example C20_example_respects :
  let curv := fun (s : store tbl nat) t => if tbl_eqb t t_curvature then 7 :: s t else s t in
  respects R_curvature W_curvature curv.
Proof.
  simpl. split.
  - intros s t Hn. destruct (tbl_eqb t t_curvature) eqn:E; [|reflexivity].
    apply tbl_eqb_eq in E. subst. exfalso. apply Hn. simpl. auto.
  - intros s s' Ha t Hin. simpl in Hin. destruct Hin as [<- | []].
    simpl. f_equal. apply Ha. simpl. auto.
Qed.
