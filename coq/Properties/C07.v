(** C07 — results do not depend on the time origin.

    After the repair of the jump flag (Refuted/C07.v records the old behaviour),
    epochs enter the classification of a stretch only through the lookup
    index -> epoch and "start of last step + step"; the fitting uses times
    re-based to the first instant of each interval; the depth view uses epoch
    differences.  Hence for EVERY integer shift d (not only multiples of the
    step — this also covers a change of fixed-offset time zone):
    every row is shifted by d and nothing else changes. *)
From Spowtd Require Import Model.ClassifyEpochs Model.DepthView Proofs.ShiftSpec Proofs.RebaseSpec
  Proofs.DepthViewSpec.
From Spowtd Require Import Model.Load Model.ClassifyCommand Model.LoadText Proofs.TimeZoneSpec
  Proofs.LoadClassifyLink Proofs.LoadShiftSpec.
From Spowtd Require Model.Views Proofs.ViewsShiftSpec.
From Coq Require String.
Close Scope Q_scope.

Theorem C07_classification_shift_equivariant : forall d ep step thr_s thr_j rain zeta sched r,
  length ep = length rain -> length zeta = length rain ->
  classify_stretch ep step thr_s thr_j rain zeta sched = Ok r ->
  classify_stretch (map (fun t => (t + d)%Z) ep) step thr_s thr_j rain zeta sched = Ok (shift_rows d r).
Proof. exact classify_stretch_shift. Qed.
Print Assumptions C07_classification_shift_equivariant.

Theorem C07_rebased_times_origin_free : forall k l, rebase (map (fun t => (t + k)%Z) l) = rebase l.
Proof. exact rebase_shift. Qed.
Print Assumptions C07_rebased_times_origin_free.

(** the storm depth of steps s..e-1 does not depend on where the grid starts *)
Theorem C07_depth_origin_free : forall t0 t0' step s e vs, (0 < step)%Z ->
  (view_depth (t0 + s * step) (t0 + e * step) (grid_rows t0 step vs)
   == view_depth (t0' + s * step) (t0' + e * step) (grid_rows t0' step vs))%Q.
Proof.
  intros t0 t0' step s e vs H.
  rewrite (view_depth_indexed t0 step s e vs H), (view_depth_indexed t0' step s e vs H). reflexivity.
Qed.
Print Assumptions C07_depth_origin_free.

Example C07_example :
  exists r, classify_stretch [1000; 2200; 3400; 4600; 5800]%Z 1200 1%float 5%float
              [0; 9; 0.5; 0; 0]%float [0; 0; 4; 3.5; 3]%float [] = Ok r
            /\ storm_rows r = [(2200, 3400)]%Z /\ rise_rows r = [(2200, 3400)]%Z
            /\ interstorm_rows r = [(4600, 5800)]%Z.
Proof. eexists. vm_compute. repeat split; reflexivity. Qed.

(** ** load

    Adding the same integer d (any d, not only a multiple of the step) to the
    epoch of every row of the three input series commutes with the model of
    `spowtd load`: the same refusal (same error kind), or every stored epoch
    (grid instants, from/thru of the rainfall and ET rows, water-level epochs,
    staging tables) moved by d with the step, the zone name, the data-interval
    labels and every value - the interpolated water levels included - EQUAL
    (Leibniz equality of the rationals, not only Qeq). *)
Theorem C07_load_shift_equivariant : forall d pop tz rain et wl,
  load_model pop tz (shift_series d rain) (shift_series d et) (shift_series d wl)
  = map_res (shift_loaded d) (load_model pop tz rain et wl).
Proof. exact load_shift. Qed.
Print Assumptions C07_load_shift_equivariant.

(** The stretches classify reads from the shifted load are the shifted
    stretches ([fr], [fz]: how a stored REAL is read back, arbitrary) ... *)
Theorem C07_stretches_of_shifted_load : forall fr fz d L,
  stretches_of_load fr fz (shift_loaded d L) = map (shift_stretch d) (stretches_of_load fr fz L).
Proof. exact stretches_of_load_shift. Qed.
Print Assumptions C07_stretches_of_shifted_load.

(** ... hence load followed by the classify command is shift equivariant end
    to end in the model: every table of load and of classify is the shifted one. *)
Theorem C07_load_then_classify_shift_equivariant :
  forall fr fz d pop tz rain et wl thr_s thr_j scheds L c,
  load_then_classify fr fz pop tz rain et wl thr_s thr_j scheds = Ok (L, c) ->
  load_then_classify fr fz pop tz (shift_series d rain) (shift_series d et) (shift_series d wl)
    thr_s thr_j scheds = Ok (shift_loaded d L, shift_command d c).
Proof. exact load_then_classify_shift. Qed.
Print Assumptions C07_load_then_classify_shift_equivariant.

(** A refused input stays refused (same kind when it is load that refuses, by
    [C07_load_shift_equivariant]; the kind of a refusal of classify is not
    covered). *)
Theorem C07_load_then_classify_shift_refusal :
  forall fr fz d pop tz rain et wl thr_s thr_j scheds e,
  load_then_classify fr fz pop tz rain et wl thr_s thr_j scheds = Err e ->
  exists e', load_then_classify fr fz pop tz (shift_series d rain) (shift_series d et)
               (shift_series d wl) thr_s thr_j scheds = Err e'.
Proof. exact load_then_classify_shift_refusal. Qed.
Print Assumptions C07_load_then_classify_shift_refusal.

(** The zone-change half, for load on timestamp texts: declaring the same
    files in the fixed-offset zone off2 instead of off1 (C11: every text is
    stored as clock seconds - offset) is the shift by off1 - off2; only the
    recorded zone name differs. *)
Theorem C07_load_fixed_zone_change : forall off1 dst1 off2 dst2 pop tz1 tz2 rain et wl,
  load_text_model pop tz2 (fixed_zone off2 dst2) rain et wl
  = map_res (fun L => with_tz tz2 (shift_loaded (off1 - off2)%Z L))
      (load_text_model pop tz1 (fixed_zone off1 dst1) rain et wl).
Proof. exact load_text_zone_change. Qed.
Print Assumptions C07_load_fixed_zone_change.

(** Non-vacuity: rainfall every 10 s from -10 to 70 (rows out of order), water
    level every 4 s from -2 to 54 with the samples 22 and 26 missing (a gap
    18..30 around the grid instant 20; the levels at 0, 10, 40 are interpolated
    between off-grid samples), everything shifted by 7 s - not a multiple of
    the step.  And a refusal (one instant twice) that stays the same refusal. *)
Definition c07_r (t n : Z) (d : positive) : row := (t, Qmake n d).
Definition c07_rain : list row :=
  [c07_r (30) (2) 1; c07_r (-10) (9) 1; c07_r (0) (0) 1; c07_r (10) (1) 2; c07_r (20) (0) 1;
   c07_r (40) (0) 1; c07_r (50) (3) 4; c07_r (60) (7) 1; c07_r (70) (8) 1].
Definition c07_et : list row :=
  [c07_r (60) (1) 10; c07_r (0) (1) 10; c07_r (10) (2) 10; c07_r (20) (3) 10;
   c07_r (30) (4) 10; c07_r (40) (5) 10; c07_r (50) (6) 10].
Definition c07_wl : list row :=
  [c07_r (-2) (-100) 1; c07_r (2) (-96) 1; c07_r (6) (-90) 1; c07_r (10) (-91) 1;
   c07_r (14) (-92) 1; c07_r (18) (-93) 1; c07_r (30) (-80) 1;
   c07_r (34) (-81) 1; c07_r (38) (-82) 1; c07_r (42) (-85) 1;
   c07_r (54) (-70) 1; c07_r (46) (-84) 1; c07_r (50) (-83) 1].

Example C07_load_example :
  match load_model false String.EmptyString c07_rain c07_et c07_wl,
        load_model false String.EmptyString (shift_series 7 c07_rain) (shift_series 7 c07_et)
          (shift_series 7 c07_wl) with
  | Ok L, Ok L' =>
      ld_step L = 10%Z /\ ld_step L' = 10%Z /\
      ld_grid L = [(0, Some 1); (10, Some 1); (20, None); (30, Some 2); (40, Some 2);
                   (50, Some 2); (60, Some 2)]%Z /\
      ld_grid L' = [(7, Some 1); (17, Some 1); (27, None); (37, Some 2); (47, Some 2);
                    (57, Some 2); (67, Some 2)]%Z /\
      map fst (ld_wl L) = [0; 10; 30; 40; 50]%Z /\ map fst (ld_wl L') = [7; 17; 37; 47; 57]%Z /\
      map snd (ld_wl L') = map snd (ld_wl L) /\
      map (fun r => Qred (snd r)) (ld_wl L) = [Qmake (-98) 1; Qmake (-91) 1; Qmake (-80) 1; Qmake (-167) 2; Qmake (-83) 1] /\
      L' = shift_loaded 7 L
  | _, _ => False
  end.
Proof. vm_compute. repeat split; reflexivity. Qed.

Example C07_load_refusal_example :
  load_model false String.EmptyString (c07_r (0) (1) 1 :: c07_rain) c07_et c07_wl = Err EIntegrity /\
  load_model false String.EmptyString (shift_series 7 (c07_r (0) (1) 1 :: c07_rain)) (shift_series 7 c07_et)
    (shift_series 7 c07_wl) = Err EIntegrity.
Proof. vm_compute. split; reflexivity. Qed.

(** "... and both master curves unchanged", at the level they are read: the
    views average_rising_depth / average_recession_time (Model/Views.v) join the
    offsets and crossings tables on the interval's start epoch and on nothing
    else that is a time; shifting the start epochs of both tables by the same d
    leaves every row of the view - level and value - as it was. *)
Theorem C07_master_curve_views_time_shift : forall d offsets crossings grid step,
  Views.view_average (ViewsShiftSpec.shift_offset_keys d offsets)
                     (ViewsShiftSpec.shift_crossing_keys d crossings) grid step
  = Views.view_average offsets crossings grid step /\
  Views.view_levels (ViewsShiftSpec.shift_offset_keys d offsets)
                    (ViewsShiftSpec.shift_crossing_keys d crossings) grid
  = Views.view_levels offsets crossings grid.
Proof. exact ViewsShiftSpec.view_average_time_shift. Qed.
Print Assumptions C07_master_curve_views_time_shift.

(** ... in particular for the tables the writers produce from one solver result
    when every interval starts d later (the re-based times that go into the
    solver are the same by C07_rebased_times_origin_free). *)
Theorem C07_written_view_time_shift : forall d (start_of : nat -> Z) hm sids offs grid step,
  Views.view_average (Views.written_offsets (fun s => (start_of s + d)%Z) sids offs)
                     (Views.written_crossings (fun s => (start_of s + d)%Z) hm) grid step
  = Views.view_average (Views.written_offsets start_of sids offs)
                       (Views.written_crossings start_of hm) grid step.
Proof. exact ViewsShiftSpec.written_view_time_shift. Qed.
Print Assumptions C07_written_view_time_shift.

Example C07_view_shift_example :
  Views.view_average (ViewsShiftSpec.shift_offset_keys 7 [(100, Qmake 3 1); (200, Qmake 8 1)]%Z)
                     (ViewsShiftSpec.shift_crossing_keys 7 [(100, 1, Qmake 8 1); (200, 1, Qmake 3 1); (200, 2, Qmake 1 1)]%Z)
                     [1; 2; 3]%Z (Qmake 1 2)
  = Views.view_average [(100, Qmake 3 1); (200, Qmake 8 1)]%Z
                       [(100, 1, Qmake 8 1); (200, 1, Qmake 3 1); (200, 2, Qmake 1 1)]%Z [1; 2; 3]%Z (Qmake 1 2)
  /\ length (Views.view_average [(100, Qmake 3 1); (200, Qmake 8 1)]%Z
                       [(100, 1, Qmake 8 1); (200, 1, Qmake 3 1); (200, 2, Qmake 1 1)]%Z [1; 2; 3]%Z (Qmake 1 2)) = 2%nat.
Proof. vm_compute. split; reflexivity. Qed.
