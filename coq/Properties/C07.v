(** C07 — results do not depend on the time origin.

    After the repair of the jump flag (Refuted/C07.v records the old behaviour),
    epochs enter the classification of a stretch only through the lookup
    index -> epoch and "start of last step + step"; the fitting uses times
    re-based to the first instant of each interval; the depth view uses epoch
    differences.  Hence for EVERY integer shift d (not only multiples of the
    step — this also covers a change of fixed-offset time zone):
    every row is shifted by d and nothing else changes. *)
From Spowtd Require Import Model.ClassifyEpochs Model.DepthView Proofs.ShiftSpec Proofs.RebaseSpec
  Proofs.DepthViewSpec.
Close Scope Q_scope.

Theorem C07_classification_shift_equivariant : forall d ep step thr_s thr_j rain zeta sched r,
  length ep = length rain -> length zeta = length rain ->
  classify_stretch ep step thr_s thr_j rain zeta sched = Ok r ->
  classify_stretch (map (fun t => (t + d)%Z) ep) step thr_s thr_j rain zeta sched = Ok (shift_rows d r).
Proof. exact classify_stretch_shift. Qed.
Print Assumptions C07_classification_shift_equivariant.

Theorem C07_rebased_times_origin_free : forall k l, rebase (map (fun t => (t + k)%Z) l) = rebase l.
Proof. exact rebase_shift. Qed.
Print Assumptions C07_rebased_times_origin_free.

(** the storm depth of steps s..e-1 does not depend on where the grid starts *)
Theorem C07_depth_origin_free : forall t0 t0' step s e vs, (0 < step)%Z ->
  (view_depth (t0 + s * step) (t0 + e * step) (grid_rows t0 step vs)
   == view_depth (t0' + s * step) (t0' + e * step) (grid_rows t0' step vs))%Q.
Proof.
  intros t0 t0' step s e vs H.
  rewrite (view_depth_indexed t0 step s e vs H), (view_depth_indexed t0' step s e vs H). reflexivity.
Qed.
Print Assumptions C07_depth_origin_free.

Example C07_example :
  exists r, classify_stretch [1000; 2200; 3400; 4600; 5800]%Z 1200 1%float 5%float
              [0; 9; 0.5; 0; 0]%float [0; 0; 4; 3.5; 3]%float [] = Ok r
            /\ storm_rows r = [(2200, 3400)]%Z /\ rise_rows r = [(2200, 3400)]%Z
            /\ interstorm_rows r = [(4600, 5800)]%Z.
Proof. eexists. vm_compute. repeat split; reflexivity. Qed.
