(** C18 — the simulated recession curve obeys the water-balance equation.

    Statements only; proofs in Proofs/SimRecessionSpec.v.  Model:
    Model/SimRecession.v (compute_recession_curve, simulate_recession and the
    table of `spowtd simulate recession`).

    Quantification of the function-level theorems: all specific-yield and
    transmissivity functions continuous on a level range [lo, hi] (below the
    transmissivity ceiling) with T > 0 there, all ET >= 0 and curvature >= 0
    not both zero, all grids (any length, any order) of levels of the range,
    all requested means.  scipy.integrate.quad is the variable [quad] with the
    contract "returns the integral of f between two levels of the range". *)
From Coq Require Import Reals List Sorted Permutation ZArith QArith Lra Lia.
From Coquelicot Require Import Coquelicot.
From Spowtd Require Import Model.SimRecession Proofs.SimRiseSpec Proofs.SimRecessionSpec.
Import ListNotations.
Local Open Scope R_scope.

(** Between any two grid levels the simulated elapsed time differs by the
    integral of Sy / (-ET - curvature T). *)
Theorem C18_diff :
  forall (Sy T : R -> R) (lo hi ET kappa : R),
    (forall z, lo <= z <= hi -> continuous Sy z) ->
    (forall z, lo <= z <= hi -> continuous T z) ->
    (forall z, lo <= z <= hi -> 0 < T z) ->
    0 <= ET -> 0 <= kappa -> (0 < ET \/ 0 < kappa) ->
    forall quad : (R -> R) -> R -> R -> R,
    (forall a b, lo <= a <= hi -> lo <= b <= hi ->
       quad (integrand Sy T ET kappa) a b = RInt (integrand Sy T ET kappa) a b) ->
    forall grid m t, Forall (fun z => lo <= z <= hi) grid ->
      recession_curve quad Sy T grid m kappa ET = Ok t ->
      forall i j d, (i < length grid)%nat -> (j < length grid)%nat ->
        nth j t d - nth i t d = RInt (integrand Sy T ET kappa) (nth i grid d) (nth j grid d).
Proof. exact signs_diff. Qed.
Print Assumptions C18_diff.

(** Refining the grid (more generally: any two grids): differences between
    shared levels are the same, whatever the two requested means ... *)
Theorem C18_refine :
  forall (Sy T : R -> R) (lo hi ET kappa : R),
    (forall z, lo <= z <= hi -> continuous Sy z) ->
    (forall z, lo <= z <= hi -> continuous T z) ->
    (forall z, lo <= z <= hi -> 0 < T z) ->
    0 <= ET -> 0 <= kappa -> (0 < ET \/ 0 < kappa) ->
    forall quad : (R -> R) -> R -> R -> R,
    (forall a b, lo <= a <= hi -> lo <= b <= hi ->
       quad (integrand Sy T ET kappa) a b = RInt (integrand Sy T ET kappa) a b) ->
    forall grid1 grid2 m1 m2 t1 t2,
      Forall (fun z => lo <= z <= hi) grid1 -> Forall (fun z => lo <= z <= hi) grid2 ->
      recession_curve quad Sy T grid1 m1 kappa ET = Ok t1 ->
      recession_curve quad Sy T grid2 m2 kappa ET = Ok t2 ->
      forall i j i' j' d,
        (i < length grid1)%nat -> (j < length grid1)%nat ->
        (i' < length grid2)%nat -> (j' < length grid2)%nat ->
        nth i grid1 d = nth i' grid2 d -> nth j grid1 d = nth j' grid2 d ->
        nth j t1 d - nth i t1 d = nth j' t2 d - nth i' t2 d.
Proof. exact signs_refine. Qed.
Print Assumptions C18_refine.

(** ... and the values at shared levels move by ONE common constant (the
    change of the mean shift). *)
Theorem C18_refine_common_shift :
  forall (Sy T : R -> R) (lo hi ET kappa : R),
    (forall z, lo <= z <= hi -> continuous Sy z) ->
    (forall z, lo <= z <= hi -> continuous T z) ->
    (forall z, lo <= z <= hi -> 0 < T z) ->
    0 <= ET -> 0 <= kappa -> (0 < ET \/ 0 < kappa) ->
    forall quad : (R -> R) -> R -> R -> R,
    (forall a b, lo <= a <= hi -> lo <= b <= hi ->
       quad (integrand Sy T ET kappa) a b = RInt (integrand Sy T ET kappa) a b) ->
    forall grid1 grid2 m1 m2 t1 t2,
      Forall (fun z => lo <= z <= hi) grid1 -> Forall (fun z => lo <= z <= hi) grid2 ->
      recession_curve quad Sy T grid1 m1 kappa ET = Ok t1 ->
      recession_curve quad Sy T grid2 m2 kappa ET = Ok t2 ->
      exists c, forall i i' d,
        (i < length grid1)%nat -> (i' < length grid2)%nat ->
        nth i grid1 d = nth i' grid2 d ->
        nth i' t2 d = nth i t1 d + c.
Proof. exact signs_common_shift. Qed.
Print Assumptions C18_refine_common_shift.

(** Reversing the grid: level k of the grid is level n-1-k of the reversed
    grid, and the differences between the same two levels are unchanged. *)
Theorem C18_reverse :
  forall (Sy T : R -> R) (lo hi ET kappa : R),
    (forall z, lo <= z <= hi -> continuous Sy z) ->
    (forall z, lo <= z <= hi -> continuous T z) ->
    (forall z, lo <= z <= hi -> 0 < T z) ->
    0 <= ET -> 0 <= kappa -> (0 < ET \/ 0 < kappa) ->
    forall quad : (R -> R) -> R -> R -> R,
    (forall a b, lo <= a <= hi -> lo <= b <= hi ->
       quad (integrand Sy T ET kappa) a b = RInt (integrand Sy T ET kappa) a b) ->
    forall grid m1 m2 t1 t2,
      Forall (fun z => lo <= z <= hi) grid ->
      recession_curve quad Sy T grid m1 kappa ET = Ok t1 ->
      recession_curve quad Sy T (rev grid) m2 kappa ET = Ok t2 ->
      forall i j d, (i < length grid)%nat -> (j < length grid)%nat ->
        nth (length grid - 1 - j) t2 d - nth (length grid - 1 - i) t2 d
        = nth j t1 d - nth i t1 d.
Proof. exact signs_reverse. Qed.
Print Assumptions C18_reverse.

(** Time increases as the level falls (specific yield positive). *)
Theorem C18_time_increases_downward :
  forall (Sy T : R -> R) (lo hi ET kappa : R),
    (forall z, lo <= z <= hi -> continuous Sy z) ->
    (forall z, lo <= z <= hi -> continuous T z) ->
    (forall z, lo <= z <= hi -> 0 < T z) ->
    0 <= ET -> 0 <= kappa -> (0 < ET \/ 0 < kappa) ->
    forall quad : (R -> R) -> R -> R -> R,
    (forall a b, lo <= a <= hi -> lo <= b <= hi ->
       quad (integrand Sy T ET kappa) a b = RInt (integrand Sy T ET kappa) a b) ->
    (forall z, lo <= z <= hi -> 0 < Sy z) ->
    forall grid m t, Forall (fun z => lo <= z <= hi) grid ->
      recession_curve quad Sy T grid m kappa ET = Ok t ->
      forall i j d, (i < length grid)%nat -> (j < length grid)%nat ->
        nth j grid d < nth i grid d -> nth i t d < nth j t d.
Proof. exact signs_time_increases_downward. Qed.
Print Assumptions C18_time_increases_downward.

(** Zero curvature: elapsed time x ET = storage released according to the
    simulated rise curve W (Model/SimRise.v [rise_curve] over the integral of
    specific yield: property C17), between any two grid levels; the
    transmissivity plays no role. *)
Theorem C18_zero_curvature :
  forall (Sy T : R -> R) (lo hi ET : R),
    (forall z, lo <= z <= hi -> continuous Sy z) ->
    0 < ET ->
    forall quad : (R -> R) -> R -> R -> R,
    (forall g a b, lo <= a <= hi -> lo <= b <= hi ->
       (forall z, lo <= z <= hi -> continuous g z) -> quad g a b = RInt g a b) ->
    forall grid m mW t W, Forall (fun z => lo <= z <= hi) grid ->
      recession_curve quad Sy T grid m 0 ET = Ok t ->
      rise_curve Rops (quad Sy) grid mW = Ok W ->
      forall i j d, (i < length grid)%nat -> (j < length grid)%nat ->
        ET * (nth j t d - nth i t d) = - (nth j W d - nth i W d).
Proof. exact zero_curvature_storage. Qed.
Print Assumptions C18_zero_curvature.

(** The mean of the returned curve is the requested mean: every hydraulic
    function, every quad, every non-empty grid (no curve is returned for an
    empty one). *)
Theorem C18_mean :
  forall quad Sy T grid m kappa ET t,
    recession_curve quad Sy T grid m kappa ET = Ok t -> fmean Rops t = m.
Proof. exact recession_mean_any. Qed.
Print Assumptions C18_mean.

(** What compute_recession_curve refuses, and that it answers otherwise. *)
Theorem C18_refusals :
  forall quad Sy T grid m kappa ET,
    (ET < 0 -> recession_curve quad Sy T grid m kappa ET = Err EAssert) /\
    (0 <= ET -> kappa < 0 -> recession_curve quad Sy T grid m kappa ET = Err EAssert) /\
    (0 <= ET -> 0 <= kappa -> grid = [] -> recession_curve quad Sy T grid m kappa ET = Err EIndex) /\
    (0 <= ET -> 0 <= kappa -> grid <> [] ->
     exists t, recession_curve quad Sy T grid m kappa ET = Ok t).
Proof. exact recession_refusals. Qed.
Print Assumptions C18_refusals.

(** A grid cell split at intermediate points (what the generated case files
    enclose piece by piece with the [integral] tactic): the sum over the pieces
    is the integral over the cell. *)
Theorem C18_cell_split :
  forall (Sy T : R -> R) (lo hi ET kappa : R),
    (forall z, lo <= z <= hi -> continuous Sy z) ->
    (forall z, lo <= z <= hi -> continuous T z) ->
    (forall z, lo <= z <= hi -> 0 < T z) ->
    0 <= ET -> 0 <= kappa -> (0 < ET \/ 0 < kappa) ->
    forall pts p, lo <= p <= hi -> Forall (fun z => lo <= z <= hi) pts ->
      piece_sum quad_ideal (integrand Sy T ET kappa) p pts
      = RInt (integrand Sy T ET kappa) p (last pts p).
Proof. exact signs_cell_split. Qed.
Print Assumptions C18_cell_split.

(** The ET used by the command: the join selects exactly the steps
    [from, thru) lying inside a zeta interval that starts where a recession
    interval of the master curve starts - every step of the interval. *)
Theorem C18_et_steps_selected :
  forall (db : tables (F:=R)) (e : Z * Z * R),
    In e (et_selected db) <->
    In e (et_steps db) /\
    exists s thru, In s (rec_starts db) /\ In (s, thru) (zeta_ivs db) /\
                   (s <= fst (fst e))%Z /\ (snd (fst e) <= thru)%Z.
Proof. exact (@et_selected_In R). Qed.
Print Assumptions C18_et_steps_selected.

(** ... each of them once, when the rows of the three tables are distinct
    (primary keys) and no two zeta intervals share a step ... *)
Theorem C18_et_each_step_once :
  forall (db : tables (F:=R)),
    NoDup (rec_starts db) -> NoDup (zeta_ivs db) -> NoDup (et_steps db) ->
    (forall zi zi' (e : Z * Z * R), In zi (zeta_ivs db) -> In zi' (zeta_ivs db) -> zi <> zi' ->
       step_in zi e = true -> step_in zi' e = true -> False) ->
    NoDup (et_selected db).
Proof. exact (@et_selected_NoDup R). Qed.
Print Assumptions C18_et_each_step_once.

(** ... ET = 24 x sum / count over those rows ... *)
Theorem C18_et_is_interval_average :
  forall (db : tables (F:=R)) e, et_mm_d Rops db = Ok e ->
    let vs := map snd (et_selected db) in
    vs <> [] /\ e = 24 * (fsum Rops vs / INR (length vs)) /\ 0 <= e.
Proof. exact et_mm_d_value. Qed.
Print Assumptions C18_et_is_interval_average.

(** ... which is the time-average rate (mm/d) because the steps of one time
    grid all last the same time d. *)
Theorem C18_et_is_time_average :
  forall (db : tables (F:=R)) e d, et_mm_d Rops db = Ok e -> 0 < d ->
    (forall s, In s (et_selected db) -> step_duration s = d) ->
    e = 24 * (fsum Rops (map (fun s => snd s * step_duration s) (et_selected db))
              / fsum Rops (map step_duration (et_selected db))).
Proof. exact et_is_time_average. Qed.
Print Assumptions C18_et_is_time_average.

(** The output: one row per level of the measured master curve, the level in
    mm (10 x the centimetre value held by the command = the view's zeta_mm),
    from the highest to the lowest, (level, measured d, simulated d); the
    simulated column is compute_recession_curve on the ascending levels with the
    mean of the measured column, curvature / 1000 and the ET above (PEATCLSM
    transmissivity x 86400); --observations is the reversed simulated vector =
    the third column. *)
Theorem C18_rows :
  forall quad Sy T peat (db : tables (F:=R)) rows,
    simulate_recession_R quad Sy T peat db = Ok rows ->
    let sorted := sort_rows Rops (master db) in
    let zeta_cm := map (fun r => fst r / 10) sorted in
    let levels := map fst sorted in
    let measured := map (fun r => snd r / 86400) sorted in
    exists c et sim,
      curvature_row db = Ok c /\ et_mm_d Rops db = Ok et /\
      Permutation (master db) sorted /\
      recession_curve quad Sy (T_m2_d peat T) levels (fmean Rops measured) (c / 1000) et = Ok sim /\
      rows = rev (zip3 levels measured sim) /\
      map (fun r => fst (fst r)) rows = rev (map (fun zc => zc * 10) zeta_cm) /\
      map (fun r => fst (fst r)) rows = rev levels /\
      StronglySorted (fun a b => b <= a) (map (fun r => fst (fst r)) rows) /\
      map (fun r => snd (fst r)) rows = rev measured /\
      map snd rows = rev sim /\
      simulate_recession_observations Rops
        (recession_curve quad Sy (T_m2_d peat T)) db = Ok (map snd rows).
Proof. exact simulate_recession_R_rows. Qed.
Print Assumptions C18_rows.

(** ---- non-vacuity *)

(** The hypotheses of the function-level theorems have an instance: constant
    Sy = 1/4, T = 2 on [-100, 0], ET = 3, curvature 1/2, the ideal quad; the
    function answers on a three-level grid, and by C18_diff the elapsed time
    between -30 and -20 is (1/4) / (-3 - 1) x 10 = -5/8 d (time runs backwards
    as the level rises). *)
Example C18_example_hypotheses :
  let Sy := fun _ : R => 1 / 4 in let T := fun _ : R => 2 in
  (forall z, -100 <= z <= 0 -> continuous Sy z) /\
  (forall z, -100 <= z <= 0 -> continuous T z) /\
  (forall z, -100 <= z <= 0 -> 0 < T z) /\ (forall z, -100 <= z <= 0 -> 0 < Sy z) /\
  0 <= 3 /\ 0 <= 1 / 2 /\ (0 < 3 \/ 0 < 1 / 2) /\
  (forall a b, -100 <= a <= 0 -> -100 <= b <= 0 ->
     quad_ideal (integrand Sy T 3 (1 / 2)) a b = RInt (integrand Sy T 3 (1 / 2)) a b) /\
  Forall (fun z => -100 <= z <= 0) [-30; -20; -10] /\
  exists t, recession_curve quad_ideal Sy T [-30; -20; -10] 5 (1 / 2) 3 = Ok t /\
            nth 1 t 0 - nth 0 t 0 = - 5 / 8 /\ fmean Rops t = 5.
Proof.
  intros Sy T.
  assert (HSy : forall z, -100 <= z <= 0 -> continuous Sy z) by (intros; apply continuous_const).
  assert (HT : forall z, -100 <= z <= 0 -> continuous T z) by (intros; apply continuous_const).
  assert (HTp : forall z, -100 <= z <= 0 -> 0 < T z) by (intros; unfold T; lra).
  assert (Hq : forall a b, -100 <= a <= 0 -> -100 <= b <= 0 ->
     quad_ideal (integrand Sy T 3 (1 / 2)) a b = RInt (integrand Sy T 3 (1 / 2)) a b)
    by reflexivity.
  assert (Hg : Forall (fun z => -100 <= z <= 0) [-30; -20; -10])
    by (repeat constructor; lra).
  split; [exact HSy|]. split; [exact HT|]. split; [exact HTp|].
  split; [intros; unfold Sy; lra|].
  split; [lra|]. split; [lra|]. split; [left; lra|].
  split; [exact Hq|]. split; [exact Hg|].
  destruct (proj2 (proj2 (proj2 (recession_refusals quad_ideal Sy T [-30; -20; -10] 5 (1 / 2) 3)))
              ltac:(lra) ltac:(lra) ltac:(discriminate)) as [t Ht].
  exists t. split; [exact Ht|]. split.
  - rewrite (C18_diff Sy T (-100) 0 3 (1 / 2) HSy HT HTp ltac:(lra) ltac:(lra)
                      ltac:(left; lra) quad_ideal Hq _ _ _ Hg Ht 0%nat 1%nat 0
                      ltac:(simpl; lia) ltac:(simpl; lia)).
    simpl nth.
    assert (E : forall x : R, integrand Sy T 3 (1 / 2) x = - 1 / 16)
      by (intros x; unfold integrand, Sy, T; field).
    rewrite (RInt_ext _ (fun _ => - 1 / 16)).
    + rewrite RInt_const. unfold scal. simpl. unfold mult. simpl. lra.
    + intros x _. apply E.
  - exact (C18_mean _ _ _ _ _ _ _ _ Ht).
Qed.

(** The command on rational tables (computed): two recession intervals
    [0, 7200] and [10800, 14400] of hourly steps with ET 1/10, 3/10 and 2/10
    mm/h, one step (9/10) outside them: ET = 24 x (1/10 + 3/10 + 2/10) / 3 =
    24/5 mm/d (the first steps alone would give 18/5); curvature 3/2 m/km2 ->
    3/2000; master curve handed over out of order; the stand-in for
    compute_recession_curve returns grid x et + curvature + mean so that every
    argument shows in the rows: highest level first, level in mm. *)
Definition C18_example_db : tables (F:=Q) :=
  {| curvature := [3 # 2]%Q;
     master := [(-10, 172800); (-30, 518400); (-20, 86400)]%Q;
     rec_starts := [0; 10800]%Z;
     zeta_ivs := [(0, 7200); (7200, 10800); (10800, 14400)]%Z;
     et_steps := [(0, 3600, 1 # 10); (3600, 7200, 3 # 10); (7200, 10800, 9 # 10);
                  (10800, 14400, 2 # 10)]%Z%Q |}.

Definition C18_example_curve (grid : list Q) (m kappa et : Q) : res (list Q) :=
  Ok (map (fun z => z * et + kappa + m)%Q grid).

Example C18_example_command :
  (match et_mm_d Qops C18_example_db with Ok e => Qeq_bool e (24 # 5) | Err _ => false end
   && match simulate_recession Qops C18_example_curve C18_example_db with
      | Ok rows =>
          list_eqb (fun a b => match a, b with (x, y, z), (x', y', z') =>
                      Qeq_bool x x' && Qeq_bool y y' && Qeq_bool z z' end)
                   rows [(-10, 2, -48 + (3 # 2000) + 3); (-20, 1, -96 + (3 # 2000) + 3);
                         (-30, 6, -144 + (3 # 2000) + 3)]%Q
      | Err _ => false
      end
   && match simulate_recession_observations Qops C18_example_curve C18_example_db with
      | Ok obs => list_eqb Qeq_bool obs [-48 + (3 # 2000) + 3; -96 + (3 # 2000) + 3;
                                         -144 + (3 # 2000) + 3]%Q
      | Err _ => false
      end)%bool = true.
Proof. vm_compute. reflexivity. Qed.

(** Refusals of the command: no curvature row (ValueError), no master curve
    (ValueError), no ET step inside the recession intervals (avg is NULL:
    TypeError); of the function: negative ET / curvature (AssertionError),
    empty grid (IndexError). *)
Example C18_example_refusals :
  (match simulate_recession Qops C18_example_curve
           {| curvature := []; master := master C18_example_db;
              rec_starts := rec_starts C18_example_db; zeta_ivs := zeta_ivs C18_example_db;
              et_steps := et_steps C18_example_db |} with Err EValue => true | _ => false end
   && match simulate_recession Qops C18_example_curve
           {| curvature := [1%Q]; master := [];
              rec_starts := rec_starts C18_example_db; zeta_ivs := zeta_ivs C18_example_db;
              et_steps := et_steps C18_example_db |} with Err EValue => true | _ => false end
   && match simulate_recession Qops C18_example_curve
           {| curvature := [1%Q]; master := master C18_example_db;
              rec_starts := [7200%Z]; zeta_ivs := zeta_ivs C18_example_db;
              et_steps := [(0, 3600, 1 # 10)]%Z%Q |} with Err EType => true | _ => false end
   && match recession_curve_gen Qops (fun _ _ => 0%Q) [1%Q] 0%Q 0%Q (-1 # 2)%Q with
      | Err EAssert => true | _ => false end
   && match recession_curve_gen Qops (fun _ _ => 0%Q) [1%Q] 0%Q (-1 # 2)%Q 1%Q with
      | Err EAssert => true | _ => false end
   && match recession_curve_gen Qops (fun _ _ => 0%Q) [] 0%Q 1%Q 1%Q with
      | Err EIndex => true | _ => false end)%bool = true.
Proof. vm_compute. reflexivity. Qed.
