(** C09 — the reference water level is the origin of the master curve.

    Exact arithmetic: subtracting from every offset the level mean at the
    reference level makes the master curve zero there and keeps all differences
    along the curve.  The same statement with ref = highest level of the curve
    is the no-reference case.
    Float layer (index of the reference level, acceptance / refusal):
    Model/RefIndex.v, bit-exact PrimFloat, tied by an exhaustive sweep in the
    correspondence check.  General theorems (Proofs/RefIndexFlocq.v, over the
    reals with Flocq's binary64 formalisation):
    - every float product k*step, for ANY normal finite step (2^-1022 <= step,
      |k|*step <= 2^1023) and ANY integer |k| < 2^51, is accepted and mapped to
      k (C09_multiples_accepted, and the same with float-comparison hypotheses);
      the bound 2^51 is tight (Example C09_bound_2p51_tight: an odd k < 2^52
      with step 0.1 that is refused);
    - any float within 1e-8 - slack of k*step (and within step/4), |k| < 2^50,
      is accepted and mapped to k (covers references typed as decimal text);
    - anything accepted with index k is within 1.0000000000000002e-8 + slack of
      k*step, hence a level farther than that from every multiple is refused;
      slack k step = 2^-53*|k*step| + 2^-1075 (rounding of the product).
    Side conditions are explicit hypotheses (finite operands, step > 0,
    |ref| <= 2^51*step on the refusal side).  The earlier bounded sweep
    (Proofs/RefIndexSweep.v: 12 steps x |k| <= 3000 by vm_compute) is subsumed by
    C09_multiples_accepted_float_hyps and is no longer an obligation of this file:
    coqchk, which has no VM, cannot re-check a 72 000-case sweep in reasonable time.
    Last section: the origin as the master-curve VIEWS show it (Model/Views.v):
    0 at the reference level after the writers' shift; without a reference the
    origin is the view's last row as long as no stored level is missing from
    the grid (C09_view_zero_at_reference, C09_view_origin_is_top_without_reference). *)
From Spowtd Require Import Model.FitOffsets Model.RefIndex Proofs.QSum Proofs.FitOffsetsSpec
  Proofs.InvarianceSpec Proofs.RegridFlocq Proofs.RefIndexFlocq.
From Coq Require Import ZArith Reals.
From Flocq Require Import Core.Core IEEE754.BinarySingleNaN IEEE754.PrimFloat.
From Coq Require Import PrimFloat FloatOps.

Theorem C09_origin_at_reference : forall E x ref c,
  In c (at_head E ref) -> head_mean E (fun s => x s - head_mean E x ref) ref == 0.
Proof. exact origin_at_reference. Qed.
Print Assumptions C09_origin_at_reference.

Theorem C09_origin_keeps_differences : forall E x ref h h' c c',
  In c (at_head E h) -> In c' (at_head E h') ->
  head_mean E (fun s => x s - head_mean E x ref) h - head_mean E (fun s => x s - head_mean E x ref) h'
  == head_mean E x h - head_mean E x h'.
Proof. exact origin_keeps_differences. Qed.
Print Assumptions C09_origin_keeps_differences.

(** GENERAL: every multiple k*step (float product, the way the master-curve
    views compute their levels) of every finite normal step is accepted and
    mapped to level k, for every integer |k| < 2^51, provided the product does
    not overflow. *)
Theorem C09_multiples_accepted : forall (step : float) (k : Z),
  BinarySingleNaN.is_finite (Prim2B step) = true ->
  (bpow radix2 (-1022) <= fval step)%R ->
  (Z.abs k < 2 ^ 51)%Z ->
  (IZR (Z.abs k) * fval step <= bpow radix2 1023)%R ->
  reference_index (PrimFloat.mul (float_of_Z k) step) step = Ok k.
Proof. exact multiples_accepted_general. Qed.
Print Assumptions C09_multiples_accepted.

(** the same with hypotheses that are float comparisons *)
Theorem C09_multiples_accepted_float_hyps : forall (step : float) (k : Z),
  (0x1p-1022 <=? step)%float = true -> (step <=? 0x1p+970)%float = true ->
  (Z.abs k < 2 ^ 51)%Z ->
  reference_index (PrimFloat.mul (float_of_Z k) step) step = Ok k.
Proof. exact multiples_accepted_float_hyps. Qed.
Print Assumptions C09_multiples_accepted_float_hyps.

(** any float close enough to a multiple is accepted and mapped to it *)
Theorem C09_near_multiple_accepted : forall (ref step : float) (k : Z),
  BinarySingleNaN.is_finite (Prim2B ref) = true ->
  BinarySingleNaN.is_finite (Prim2B step) = true -> (0 < fval step)%R ->
  (Z.abs k < 2 ^ 50)%Z ->
  (Rabs (fval ref - IZR k * fval step) <= / 4 * fval step)%R ->
  (Rabs (fval ref - IZR k * fval step) + slack k step <= 1e-8)%R ->
  reference_index ref step = Ok k.
Proof. exact near_multiple_accepted. Qed.
Print Assumptions C09_near_multiple_accepted.

(** anything accepted is (nearly) the nearest index and within 1e-8 + slack of
    the multiple it is mapped to *)
Theorem C09_accepted_near_multiple : forall (ref step : float) (k : Z),
  BinarySingleNaN.is_finite (Prim2B ref) = true ->
  BinarySingleNaN.is_finite (Prim2B step) = true -> (0 < fval step)%R ->
  (Rabs (fval ref) <= bpow radix2 51 * fval step)%R ->
  reference_index ref step = Ok k ->
  (Z.abs k <= 2 ^ 51)%Z /\
  (Rabs (IZR k - fval ref / fval step) <= / 2 + bpow radix2 (-2))%R /\
  (Rabs (fval ref - IZR k * fval step) < 1.0000000000000002e-8 + slack k step)%R.
Proof. exact accepted_near_multiple. Qed.
Print Assumptions C09_accepted_near_multiple.

(** a level that is not (within 1e-8 + slack of) a multiple of the step is refused *)
Theorem C09_off_grid_refused : forall (ref step : float),
  BinarySingleNaN.is_finite (Prim2B ref) = true ->
  BinarySingleNaN.is_finite (Prim2B step) = true -> (0 < fval step)%R ->
  (Rabs (fval ref) <= bpow radix2 51 * fval step)%R ->
  (forall k : Z, (Z.abs k <= 2 ^ 51)%Z ->
     (1.0000000000000002e-8 + slack k step <= Rabs (fval ref - IZR k * fval step))%R) ->
  reference_index ref step = Err EValue.
Proof. exact off_grid_refused. Qed.
Print Assumptions C09_off_grid_refused.

(** Non-vacuity of the hypotheses (step 0.1, k = 12345; 0.3 typed as text on a
    0.1 grid; 2.5 on a 1 mm grid) and tightness of the bound 2^51. *)
Example C09_multiples_accepted_nonvacuous :
  BinarySingleNaN.is_finite (Prim2B f0_1) = true /\
  (bpow radix2 (-1022) <= fval f0_1)%R /\ (Z.abs 12345 < 2 ^ 51)%Z /\
  (IZR (Z.abs 12345) * fval f0_1 <= bpow radix2 1023)%R /\
  reference_index (PrimFloat.mul (float_of_Z 12345) f0_1) f0_1 = Ok 12345%Z.
Proof. exact general_hyps_example. Qed.

Example C09_float_hyps_nonvacuous :
  (0x1p-1022 <=? f0_1)%float = true /\ (f0_1 <=? 0x1p+970)%float = true.
Proof. vm_compute. split; reflexivity. Qed.

Example C09_bound_2p51_tight :
  (2 ^ 51 < 4007345515705267 < 2 ^ 52)%Z /\
  reference_index (PrimFloat.mul (float_of_Z 4007345515705267) f0_1) f0_1 = Err EValue.
Proof. exact bound_2p51_tight. Qed.

Example C09_near_multiple_nonvacuous :
  BinarySingleNaN.is_finite (Prim2B f0_3) = true /\
  BinarySingleNaN.is_finite (Prim2B f0_1) = true /\ (0 < fval f0_1)%R /\
  (Z.abs 3 < 2 ^ 50)%Z /\
  (Rabs (fval f0_3 - IZR 3 * fval f0_1) <= / 4 * fval f0_1)%R /\
  (Rabs (fval f0_3 - IZR 3 * fval f0_1) + slack 3 f0_1 <= 1e-8)%R /\
  f0_3 <> PrimFloat.mul (float_of_Z 3) f0_1 /\
  reference_index f0_3 f0_1 = Ok 3%Z.
Proof. exact near_multiple_example. Qed.

Example C09_accepted_near_nonvacuous :
  BinarySingleNaN.is_finite (Prim2B f0_3) = true /\
  BinarySingleNaN.is_finite (Prim2B f0_1) = true /\ (0 < fval f0_1)%R /\
  (Rabs (fval f0_3) <= bpow radix2 51 * fval f0_1)%R /\
  reference_index f0_3 f0_1 = Ok 3%Z.
Proof. exact accepted_near_example. Qed.

Example C09_off_grid_nonvacuous :
  BinarySingleNaN.is_finite (Prim2B f2_5) = true /\
  BinarySingleNaN.is_finite (Prim2B 1%float) = true /\ (0 < fval 1%float)%R /\
  (Rabs (fval f2_5) <= bpow radix2 51 * fval 1%float)%R /\
  (forall k : Z, (Z.abs k <= 2 ^ 51)%Z ->
     (1.0000000000000002e-8 + slack k 1%float <= Rabs (fval f2_5 - IZR k * fval 1%float))%R) /\
  reference_index f2_5 1%float = Err EValue.
Proof. exact off_grid_example. Qed.

(** Concrete float facts (the two witnesses of the repaired defect and an
    off-grid reference), by evaluation of the bit-exact model. *)
Example C09_examples :
  reference_index (-0x1.2f33333333333p+5)%float 0x1.999999999999ap-4%float = Ok (-379)%Z   (* -37.9 on a 0.1 grid *)
  /\ reference_index 0x1.3333333333333p-2%float 0x1.999999999999ap-4%float = Ok 3%Z          (* 0.3 on a 0.1 grid *)
  /\ reference_index 0x1.4p+1%float 1%float = Err EValue.                                    (* 2.5 on a 1 mm grid *)
Proof. vm_compute. repeat split; reflexivity. Qed.

(** ** The origin as the views show it (Model/Views.v)

    [store_with_reference offsets crossings ref] is the writers' last step
    (rise.py:130-152, recession.py:94-126): every offset minus the level mean at
    level [ref] over the aligned intervals crossing it.  The view
    average_rising_depth / average_recession_time over the stored tables then
    lists 0 at [ref] (whenever it lists that level at all: ref a grid level
    crossed by an aligned interval) and elsewhere the curve measured from there.
    Without a reference the writers take the highest level of the mapping: when
    every crossing level is a grid level (C13_view_shows_every_stored_level)
    that is the view's LAST row, and it is 0.  A grid that lacks the top level
    breaks exactly this (Example C09_view_truncated_grid_loses_origin). *)
From Spowtd Require Import Model.Views Proofs.ViewsSpec.
Close Scope R_scope.
Open Scope Q_scope.

Theorem C09_view_zero_at_reference : forall offsets crossings grid step ref,
  NoDup grid -> In ref (view_levels offsets crossings grid) ->
  exists v, In (inject_Z ref * step, v)
               (view_average (store_with_reference offsets crossings ref) crossings grid step) /\
            v == 0.
Proof. exact view_zero_at_reference. Qed.
Print Assumptions C09_view_zero_at_reference.

Theorem C09_view_measured_from_reference : forall offsets crossings grid step ref,
  NoDup grid ->
  let E := aligned_entries offsets crossings in
  let x := offset_of offsets in
  let stored := store_with_reference offsets crossings ref in
  view_levels stored crossings grid = view_levels offsets crossings grid /\
  forall k, In k (view_levels offsets crossings grid) ->
    exists v, In (inject_Z k * step, v) (view_average stored crossings grid step) /\
              v == head_mean E x k - head_mean E x ref.
Proof. exact view_after_reference. Qed.
Print Assumptions C09_view_measured_from_reference.

Theorem C09_view_origin_is_top_without_reference : forall offsets crossings grid step,
  NoDup grid ->
  (forall e o k v, In (e, o) offsets -> In (e, k, v) crossings -> In k grid) ->
  curve_levels offsets crossings <> [] ->
  let top := last (curve_levels offsets crossings) 0%Z in
  (forall k, In k (curve_levels offsets crossings) -> (k <= top)%Z) /\
  exists v, last (view_average (store_with_reference offsets crossings top) crossings grid step) (0, 0)
            = (inject_Z top * step, v) /\ v == 0.
Proof. exact view_origin_is_top. Qed.
Print Assumptions C09_view_origin_is_top_without_reference.

(** Non-vacuity: two intervals (offsets 3 and 5) crossing levels -1 .. 2 (the
    top level is positive), step 1/2; reference level 1, then no reference. *)
Definition C09_ex_offsets : list (Z * Q) := [(100%Z, 3); (200%Z, 5)].
Definition C09_ex_crossings : list (Z * Z * Q) :=
  [(100%Z, (-1)%Z, 40); (100%Z, 0%Z, 30); (100%Z, 1%Z, 20);
   (200%Z, 0%Z, 29); (200%Z, 1%Z, 17); (200%Z, 2%Z, 4)].

Example C09_view_example_reference :
  map (fun r => (Qred (fst r), Qred (snd r)))
      (view_average (store_with_reference C09_ex_offsets C09_ex_crossings 1) C09_ex_crossings
                    [-2; -1; 0; 1; 2]%Z (1 # 2))
  = [(-1 # 2, 41 # 2); (0, 11); (1 # 2, 0); (1, -27 # 2)].
Proof. vm_compute. reflexivity. Qed.

Example C09_view_example_no_reference :
  curve_levels C09_ex_offsets C09_ex_crossings = [-1; 0; 1; 2]%Z /\
  map (fun r => (Qred (fst r), Qred (snd r)))
      (view_average (store_with_reference C09_ex_offsets C09_ex_crossings 2) C09_ex_crossings
                    [-2; -1; 0; 1; 2]%Z (1 # 2))
  = [(-1 # 2, 34); (0, 49 # 2); (1 # 2, 27 # 2); (1, 0)].
Proof. vm_compute. split; reflexivity. Qed.

(** the grid of a truncating set-zeta-grid (top level missing): the view's last
    row is no longer the origin - it is not 0 *)
Example C09_view_truncated_grid_loses_origin :
  map (fun r => (Qred (fst r), Qred (snd r)))
      (view_average (store_with_reference C09_ex_offsets C09_ex_crossings 2) C09_ex_crossings
                    [-3; -2; -1; 0; 1]%Z (1 # 2))
  = [(-1 # 2, 34); (0, 49 # 2); (1 # 2, 27 # 2)].
Proof. vm_compute. reflexivity. Qed.
