(** C09 — the reference water level is the origin of the master curve.

    Exact arithmetic: subtracting from every offset the level mean at the
    reference level makes the master curve zero there and keeps all differences
    along the curve.  The same statement with ref = highest level of the curve
    is the no-reference case.
    Float layer (index of the reference level, acceptance / refusal):
    Model/RefIndex.v, bit-exact PrimFloat, tied by an exhaustive sweep in the
    correspondence check.  Partial: "every multiple k*step is accepted and
    mapped to k" is proved for |k| <= 3000 and the listed steps by a complete
    sweep (bounded theorem below), not for all k and all steps. *)
From Spowtd Require Import Model.FitOffsets Model.RefIndex Proofs.QSum Proofs.FitOffsetsSpec
  Proofs.InvarianceSpec Proofs.RefIndexSweep.
From Coq Require Import PrimFloat.

Theorem C09_origin_at_reference : forall E x ref c,
  In c (at_head E ref) -> head_mean E (fun s => x s - head_mean E x ref) ref == 0.
Proof. exact origin_at_reference. Qed.
Print Assumptions C09_origin_at_reference.

Theorem C09_origin_keeps_differences : forall E x ref h h' c c',
  In c (at_head E h) -> In c' (at_head E h') ->
  head_mean E (fun s => x s - head_mean E x ref) h - head_mean E (fun s => x s - head_mean E x ref) h'
  == head_mean E x h - head_mean E x h'.
Proof. exact origin_keeps_differences. Qed.
Print Assumptions C09_origin_keeps_differences.

(** Every multiple k*step with |k| <= 3000 of the listed steps (1, .5, .1, .2, .3,
    2.5, 5, 1/3, .001, 2, .25, 10 mm) is accepted and mapped to level k: complete
    sweep of that finite domain inside Coq (bounded statement). *)
Theorem C09_multiples_accepted_bounded : forall step k,
  In step sweep_steps -> (-3000 <= k <= 3000)%Z ->
  reference_index (PrimFloat.mul (float_of_Z k) step) step = Ok k.
Proof. exact multiples_accepted_bounded. Qed.
Print Assumptions C09_multiples_accepted_bounded.

(** Concrete float facts (the two witnesses of the repaired defect and an
    off-grid reference), by evaluation of the bit-exact model. *)
Example C09_examples :
  reference_index (-0x1.2f33333333333p+5)%float 0x1.999999999999ap-4%float = Ok (-379)%Z   (* -37.9 on a 0.1 grid *)
  /\ reference_index 0x1.3333333333333p-2%float 0x1.999999999999ap-4%float = Ok 3%Z          (* 0.3 on a 0.1 grid *)
  /\ reference_index 0x1.4p+1%float 1%float = Err EValue.                                    (* 2.5 on a 1 mm grid *)
Proof. vm_compute. repeat split; reflexivity. Qed.
