(** C11 — timestamps are converted exactly and bad input is refused.

    Statements only; proofs are in Proofs/CalendarSpec.v, Proofs/TimeZoneSpec.v,
    Proofs/LoadTextSpec.v (and, for the load itself, C10's Proofs/Load*.v).

    Model (Model/Calendar.v, Model/TimeZone.v, Model/LoadText.v) of
    spowtd.load.generate_timestamped_rows = strptime(text, '%Y-%m-%d %H:%M:%S'),
    tz.localize(dt) (pytz, is_dst=False), .timestamp():
    - [parse_datetime s]: the fields of the canonical 19-character text s
      ([None] = ValueError);  [local_secs c]: seconds of those fields on a
      zone-less clock;  [render_datetime]: strftime of fields.
    - a [zone] is ANY table: the rule (offset, daylight-saving flag) before the
      first transition and a list of (UTC instant, rule from then on) — fixed
      offset zones are the tables without transitions.  [local_of z e]: the
      reading of the zone's clock at UTC instant e;  [render_text z e]: its text.
    - [stamp z s]: [Stamp e] = the row is stored with epoch e and the local time
      exists; [Shifted e] = the local time does not exist in the zone (skipped
      by a forward transition; outside the property's quantifier) and the row
      is stored with epoch e = localize(dt - 6 h) + 6 h as pytz does;
      [Refuse] = ValueError.
    Quantification: every zone table z, every text s, every instant e in Z. *)
From Spowtd Require Import Model.LoadText Proofs.LoadStage Proofs.LoadGrid Proofs.LoadLevel Proofs.LoadSpec
  Proofs.CalendarSpec Proofs.TimeZoneSpec Proofs.LoadTextSpec.
From Coq Require Import ZArith List.
From Coq Require String.
Local Open Scope Z_scope.

(** ** Timestamps *)

(** THE property: whenever a text is stored as an existing local time, the
    stored instant, rendered in the zone, is the original text. *)
Theorem C11_roundtrip : forall z s e, stamp z s = Stamp e -> render_text z e = s.
Proof. exact stamp_roundtrip. Qed.
Print Assumptions C11_roundtrip.

(** ... and every text that is a timestamp and denotes an existing local time
    of the zone IS stored that way — never refused, never shifted; when two
    instants share the reading (clocks set back), the one on standard time is
    taken if there is one, and the later of those with the same status. *)
Theorem C11_existing_time_is_stamped : forall z s c, parse_datetime s = Some c ->
  (exists e, local_of z e = local_secs c) ->
  exists e, stamp z s = Stamp e /\ local_of z e = local_secs c /\
    forall e', local_of z e' = local_secs c ->
      (tt_dst (info_at z e') = false -> tt_dst (info_at z e) = false) /\
      (tt_dst (info_at z e') = tt_dst (info_at z e) -> e' <= e).
Proof. exact stamp_existing. Qed.
Print Assumptions C11_existing_time_is_stamped.

(** An unambiguous local time is stored as the one instant it denotes. *)
Theorem C11_unambiguous : forall z s c e, parse_datetime s = Some c ->
  local_of z e = local_secs c -> (forall e', local_of z e' = local_secs c -> e' = e) ->
  stamp z s = Stamp e.
Proof. exact stamp_unambiguous. Qed.
Print Assumptions C11_unambiguous.

(** Fixed-offset zones: every timestamp is stored as (local seconds - offset)
    and renders back. *)
Theorem C11_fixed_offset : forall off dst s c, parse_datetime s = Some c ->
  stamp (fixed_zone off dst) s = Stamp (local_secs c - off) /\
  render_text (fixed_zone off dst) (local_secs c - off) = s.
Proof. exact stamp_fixed. Qed.
Print Assumptions C11_fixed_offset.

(** Conversely every instant (years 1..9999 on the zone's clock) renders to a
    text that is a timestamp, exists, and is stored as an instant rendering to
    the same text — the instant itself when no other shares its reading.  So
    the hypotheses above are met by the rendering of every instant. *)
Theorem C11_every_instant : forall z e,
  1 <= c_y (civil_of_secs (local_of z e)) <= 9999 ->
  exists e', stamp z (render_text z e) = Stamp e' /\ local_of z e' = local_of z e /\
             render_text z e' = render_text z e /\
             ((forall e'', local_of z e'' = local_of z e -> e'' = e) -> e' = e).
Proof. exact render_then_stamp. Qed.
Print Assumptions C11_every_instant.

(** A text stored as [Shifted e] denotes no instant of the zone at all (it is
    outside the property's quantifier); what is stored is 6k hours after the
    instant whose reading is 6k hours earlier, for the least k >= 1 for which
    that reading exists. *)
Theorem C11_nonexistent_time : forall z s e, stamp z s = Shifted e ->
  exists c, parse_datetime s = Some c /\
    (forall e', local_of z e' <> local_secs c) /\
    exists k, 1 <= k <= Z.of_nat back_fuel /\
      local_of z (e - k * six_hours) = local_secs c - k * six_hours /\
      forall j, 0 <= j < k -> forall e', local_of z e' <> local_secs c - j * six_hours.
Proof. exact stamp_shifted. Qed.
Print Assumptions C11_nonexistent_time.

(** The calendar arithmetic under it, for every year (no bound, no sweep: linear
    integer arithmetic over the Euclidean-division equations, stage by stage):
    date <-> day number, fields <-> seconds, text <-> fields, each both ways. *)
Theorem C11_calendar_roundtrip : forall y m d, valid_dateb y m d = true ->
  civil_from_days (days_from_civil y m d) = (y, m, d).
Proof. exact civil_roundtrip. Qed.
Print Assumptions C11_calendar_roundtrip.

Theorem C11_calendar_roundtrip_inv : forall z,
  let '(y, m, d) := civil_from_days z in valid_dateb y m d = true /\ days_from_civil y m d = z.
Proof. exact days_roundtrip. Qed.
Print Assumptions C11_calendar_roundtrip_inv.

Theorem C11_fields_of_seconds : forall c, valid_civil c -> civil_of_secs (local_secs c) = c.
Proof. exact civil_of_local_secs. Qed.
Print Assumptions C11_fields_of_seconds.

Theorem C11_seconds_of_fields : forall t,
  local_secs (civil_of_secs t) = t /\
  (1 <= c_y (civil_of_secs t) <= 9999 -> valid_civil (civil_of_secs t)).
Proof. exact secs_of_civil_of_secs. Qed.
Print Assumptions C11_seconds_of_fields.

Theorem C11_text_of_fields : forall s c, parse_datetime s = Some c ->
  render_datetime c = s /\ valid_civil c.
Proof. exact parse_render. Qed.
Print Assumptions C11_text_of_fields.

Theorem C11_fields_of_text : forall c, valid_civil c -> parse_datetime (render_datetime c) = Some c.
Proof. exact parse_of_render. Qed.
Print Assumptions C11_fields_of_text.

(** pytz as an oracle: with ANY localisation function whose answers have the
    asked reading on the zone's clock (tested on the real pytz object in every
    run), the stored instant renders to the original text. *)
Theorem C11_roundtrip_with_oracle : forall pytz_localize : zone -> Z -> option Z,
  (forall z lt e, pytz_localize z lt = Some e -> local_of z e = lt) ->
  forall z s e, stamp_with_oracle pytz_localize z s = Some e -> render_text z e = s.
Proof. exact oracle_roundtrip. Qed.
Print Assumptions C11_roundtrip_with_oracle.

(** ** Refusals

    [load_text_model populated tz z rain et wl]: `spowtd load` of three files of
    (timestamp text, value) rows in zone z; [Err k] = the command raises and
    (the result carrying no table) nothing is stored.  When every text converts
    ([stamp_all]), it is C10's [load_model] on the converted rows. *)

Theorem C11_load_as_epochs : forall pop tz z rain et wl rain' et' wl',
  stamp_all z rain = Some rain' -> stamp_all z et = Some et' -> stamp_all z wl = Some wl' ->
  load_text_model pop tz z rain et wl = load_model pop tz rain' et' wl'.
Proof. exact load_text_as_epochs. Qed.
Print Assumptions C11_load_as_epochs.

(** A data file that already holds tables: ValueError, whatever the input. *)
Theorem C11_refuse_populated : forall tz z rain et wl,
  load_text_model true tz z rain et wl = Err EValue.
Proof. exact text_refuse_populated. Qed.
Print Assumptions C11_refuse_populated.

(** The rainfall instants G within the water-level span are not uniformly
    spaced (no common step d; fewer than two instants included): ValueError. *)
Theorem C11_refuse_nonuniform : forall tz z rain et wl rain' et' wl' G,
  stamp_all z rain = Some rain' -> stamp_all z et = Some et' -> stamp_all z wl = Some wl' ->
  nodup3 rain' et' wl' -> span_grid rain' wl' G -> (forall d, ~ uniform G d) ->
  load_text_model false tz z rain et wl = Err EValue.
Proof. exact text_refuse_nonuniform. Qed.
Print Assumptions C11_refuse_nonuniform.

(** Some grid instant g (a step start or the closing instant) has no
    evapotranspiration row: ValueError. *)
Theorem C11_refuse_et_missing : forall tz z rain et wl rain' et' wl' G d g,
  stamp_all z rain = Some rain' -> stamp_all z et = Some et' -> stamp_all z wl = Some wl' ->
  nodup3 rain' et' wl' -> span_grid rain' wl' G -> uniform G d ->
  In g (G ++ [last_Z G + d]) -> ~ In g (keys et') ->
  load_text_model false tz z rain et wl = Err EValue.
Proof. exact text_refuse_et_missing. Qed.
Print Assumptions C11_refuse_et_missing.

(** Accepted exactly when none of that (nor a repeated instant) is the case. *)
Theorem C11_accepts_iff : forall pop tz z rain et wl rain' et' wl',
  stamp_all z rain = Some rain' -> stamp_all z et = Some et' -> stamp_all z wl = Some wl' ->
  ((exists L, load_text_model pop tz z rain et wl = Ok L) <->
   pop = false /\ nodup3 rain' et' wl' /\ acceptable rain' et' wl').
Proof. exact text_accepts_iff. Qed.
Print Assumptions C11_accepts_iff.

(** A text is refused exactly when it is not a canonical timestamp of an
    existing calendar date, and a file holding such a row is never loaded. *)
Theorem C11_refuse_iff_not_a_timestamp : forall z s, stamp z s = Refuse <-> parse_datetime s = None.
Proof. exact stamp_refuse_iff. Qed.
Print Assumptions C11_refuse_iff_not_a_timestamp.

Theorem C11_refuse_bad_text : forall pop tz z rain et wl,
  has_bad_text rain \/ has_bad_text et \/ has_bad_text wl ->
  exists e, load_text_model pop tz z rain et wl = Err e.
Proof. exact text_refuse_bad_text. Qed.
Print Assumptions C11_refuse_bad_text.

(** ** Non-vacuity *)
Import String.
Local Open Scope string_scope.

(** Africa/Lagos as pytz holds it: LMT +0:14, GMT 1905, LMT 1908, +0:30 1914, WAT 1919. *)
Definition lagos : zone :=
  mk_zone 840 false [(-2035584815, 0, false); (-1940889600, 840, false);
                     (-1767226415, 1800, false); (-1588465800, 3600, false)].

(** America/New_York around 2018. *)
Definition new_york : zone :=
  mk_zone (-18000) false [(1520751600, -14400, true); (1541311200, -18000, false);
                          (1552201200, -14400, true)].

Example C11_ex_lagos : stamp lagos "2020-01-01 00:00:00" = Stamp 1577833200
  /\ render_text lagos 1577833200 = "2020-01-01 00:00:00".
Proof. vm_compute. split; reflexivity. Qed.

(** The classic pytz error dt.replace(tzinfo=tz) would store 1577835960 (LMT, 46 minutes off). *)
Example C11_ex_lagos_lmt_mutant : render_text lagos (1577836800 - 840) <> "2020-01-01 00:00:00".
Proof. vm_compute. discriminate. Qed.

(** An hour that occurs twice: the standard-time (later) instant is stored, and renders back. *)
Example C11_ex_ambiguous : stamp new_york "2018-11-04 01:30:00" = Stamp 1541313000
  /\ local_of new_york 1541309400 = local_of new_york 1541313000
  /\ render_text new_york 1541313000 = "2018-11-04 01:30:00".
Proof. vm_compute. repeat split; reflexivity. Qed.

(** An hour that does not occur: stored as 07:30 UTC, which reads 03:30 on the zone's clock. *)
Example C11_ex_nonexistent : stamp new_york "2018-03-11 02:30:00" = Shifted 1520753400
  /\ render_text new_york 1520753400 = "2018-03-11 03:30:00".
Proof. vm_compute. split; reflexivity. Qed.

Example C11_ex_refuse : stamp new_york "2021-02-29 00:00:00" = Refuse
  /\ stamp new_york "2020-01-01T00:00:00" = Refuse /\ stamp new_york "2020-01-01 24:00:00" = Refuse.
Proof. vm_compute. repeat split; reflexivity. Qed.

(** Files in Lagos time, hourly rainfall 00:00 .. 04:00, water level 00:30 .. 03:30. *)
Definition q (n : Z) : Q := Qmake n 1.
Definition ex_rain : list text_row :=
  [("2020-01-01 00:00:00", q 0); ("2020-01-01 01:00:00", q 1); ("2020-01-01 02:00:00", q 0);
   ("2020-01-01 03:00:00", q 2); ("2020-01-01 04:00:00", q 0)].
Definition ex_et : list text_row :=
  [("2020-01-01 01:00:00", q 1); ("2020-01-01 02:00:00", q 1); ("2020-01-01 03:00:00", q 1);
   ("2020-01-01 04:00:00", q 1)].
Definition ex_wl : list text_row :=
  [("2020-01-01 00:30:00", q (-10)); ("2020-01-01 01:30:00", q (-9)); ("2020-01-01 02:30:00", q (-8));
   ("2020-01-01 03:30:00", q (-7))].

Example C11_ex_loaded :
  match load_text_model false "Africa/Lagos" lagos ex_rain ex_et ex_wl with
  | Ok L => ld_step L = 3600 /\ map fst (ld_grid L) = [1577836800; 1577840400; 1577844000; 1577847600]
  | Err _ => False
  end.
Proof. vm_compute. split; reflexivity. Qed.

Example C11_ex_populated :
  load_text_model true "Africa/Lagos" lagos ex_rain ex_et ex_wl = Err EValue.
Proof. reflexivity. Qed.

(** 02:00 moved to 02:10: steps 4200 and 3000 within the water-level span. *)
Example C11_ex_nonuniform :
  load_text_model false "Africa/Lagos" lagos
    [("2020-01-01 00:00:00", q 0); ("2020-01-01 01:00:00", q 1); ("2020-01-01 02:10:00", q 0);
     ("2020-01-01 03:00:00", q 2); ("2020-01-01 04:00:00", q 0)] ex_et ex_wl = Err EValue.
Proof. vm_compute. reflexivity. Qed.

(** No ET for the closing instant 04:00 / for the step starting 02:00. *)
Example C11_ex_et_missing :
  load_text_model false "Africa/Lagos" lagos ex_rain (removelast ex_et) ex_wl = Err EValue
  /\ load_text_model false "Africa/Lagos" lagos ex_rain
       [("2020-01-01 01:00:00", q 1); ("2020-01-01 03:00:00", q 1); ("2020-01-01 04:00:00", q 1)] ex_wl
     = Err EValue.
Proof. vm_compute. split; reflexivity. Qed.

Example C11_ex_bad_text :
  load_text_model false "Africa/Lagos" lagos ex_rain ex_et (("2020-01-01 00:60:00", q 0) :: ex_wl) = Err EValue.
Proof. vm_compute. reflexivity. Qed.
