(** C08 — master curves do not depend on arbitrary processing choices.

    [master E x h] is the mean over the intervals crossing level h of
    (offset + crossing value): the master curve for offsets x.
    - order: every quantity is invariant under any permutation of the entries;
    - own axis: shifting interval s's values by a constant a(s) is undone by
      offsets x - a: same master curve, same spread, same residual sums;
    - internal zero / labels: any injective renaming of the intervals likewise;
    - and, on a connected overlap graph, ANY two assignments with zero residual
      sums (any two minimisers, C05) give the same master curve measured from
      any reference level: whichever choice the code makes, the curve is the same.
    Partial: that the greedy component search returns exactly the reachability
    classes (main body fully included, nothing else) is checked by correspondence
    and an independent union-find oracle, not proved. *)
From Spowtd Require Import Model.FitOffsets Proofs.QSum Proofs.FitOffsetsSpec Proofs.InvarianceSpec.
From Coq Require Import Permutation.

Theorem C08_order_irrelevant : forall E E' x, Permutation E E' ->
  (forall h, head_mean E' x h == head_mean E x h) /\
  objective E' x == objective E x /\ (forall s, resid_sum E' x s == resid_sum E x s).
Proof.
  intros E E' x HP. split; [intros h; exact (master_perm E E' HP x h)|].
  split; [exact (objective_perm E E' HP x)|intros s; exact (resid_perm E E' HP x s)].
Qed.
Print Assumptions C08_order_irrelevant.

Theorem C08_axis_shift_and_relabelling : forall E (f : entry -> entry) x x' (rho : nat -> nat),
  (forall c, e_head (f c) = e_head c) ->
  (forall c, In c E -> shifted x' (f c) == shifted x c) ->
  (forall a b, rho a = rho b -> a = b) ->
  (forall c, e_series (f c) = rho (e_series c)) ->
  (forall h, head_mean (map f E) x' h == head_mean E x h) /\
  objective (map f E) x' == objective E x /\
  (forall s, resid_sum (map f E) x' (rho s) == resid_sum E x s).
Proof.
  intros E f x x' rho Hh Hs Hinj Hser. split; [intros h; exact (master_transport E f x x' Hh Hs h)|].
  split; [exact (objective_transport E f x x' Hh Hs)|].
  intros s. exact (resid_transport E f x x' Hh Hs rho Hinj Hser s).
Qed.
Print Assumptions C08_axis_shift_and_relabelling.

Theorem C08_master_curve_choice_free : forall E x y,
  connected E ->
  (forall s, In s (ids E) -> resid_sum E x s == 0) ->
  (forall s, In s (ids E) -> resid_sum E y s == 0) ->
  forall h h' c c', In c (at_head E h) -> In c' (at_head E h') ->
    head_mean E y h - head_mean E y h' == head_mean E x h - head_mean E x h'.
Proof. exact master_choice_free. Qed.
Print Assumptions C08_master_curve_choice_free.
