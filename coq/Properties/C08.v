(** C08 — master curves do not depend on arbitrary processing choices.

    [master E x h] is the mean over the intervals crossing level h of
    (offset + crossing value): the master curve for offsets x.
    - order: every quantity is invariant under any permutation of the entries;
    - own axis: shifting interval s's values by a constant a(s) is undone by
      offsets x - a: same master curve, same spread, same residual sums;
    - internal zero / labels: any injective renaming of the intervals likewise;
    - and, on a connected overlap graph, ANY two assignments with zero residual
      sums (any two minimisers, C05) give the same master curve measured from
      any reference level: whichever choice the code makes, the curve is the same.
    Main body (last sentence of the property), proved in Proofs/ComponentsSpec.v
    for EVERY mapping with distinct level keys (any number of levels, any series
    sets), about the executable model of get_connected_components /
    split_mapping_by_keys / the tail of get_series_time_offsets
    (Model/Components.v):
    - [level_linked sah h h']: reflexive-transitive closure of "levels h and h'
      share a series"; the groups built by the greedy fold are exactly its
      classes (sound and complete), they partition the levels, their series sets
      are pairwise disjoint and are the unions of their levels' series;
      [components] = these classes, longest first, ties in dict order;
    - what [offsets_from_mapping] fits is ONE class of maximal level count (levels
      crossed by >= 2 intervals); the intervals that get an offset are exactly
      those crossing a level of that class: every interval linked to the main body
      by a chain of overlaps is included, no other is placed;
    - the entries handed to find_offsets form a [connected] overlap graph, so the
      hypothesis of C05_unique_up_to_shift / C08_master_curve_choice_free is
      discharged for the model of the code (C08_main_body_offsets_unique).
    Last section: the view rising_curve_line_segment (what `plot rise` draws)
    has rows only for rises with an offsets row - left-out rises are not placed
    by the view either - with their own offset, at most one per rise under the
    PRIMARY KEYs (C08_line_segments_only_main_body, Model/Views.v).
    Still by correspondence only: that Model/Components.v computes what the
    Python computes (sampled, every run); ties between equally large components
    are resolved by dict insertion order, which the model reproduces and the
    theorems state ("a class of maximal size", the first such in dict order). *)
From Spowtd Require Import Model.Components Proofs.QSum Proofs.FitOffsetsSpec Proofs.InvarianceSpec
  Proofs.ComponentsSpec.
From Coq Require Import Permutation Relations Sorted.

Theorem C08_order_irrelevant : forall E E' x, Permutation E E' ->
  (forall h, head_mean E' x h == head_mean E x h) /\
  objective E' x == objective E x /\ (forall s, resid_sum E' x s == resid_sum E x s).
Proof.
  intros E E' x HP. split; [intros h; exact (master_perm E E' HP x h)|].
  split; [exact (objective_perm E E' HP x)|intros s; exact (resid_perm E E' HP x s)].
Qed.
Print Assumptions C08_order_irrelevant.

Theorem C08_axis_shift_and_relabelling : forall E (f : entry -> entry) x x' (rho : nat -> nat),
  (forall c, e_head (f c) = e_head c) ->
  (forall c, In c E -> shifted x' (f c) == shifted x c) ->
  (forall a b, rho a = rho b -> a = b) ->
  (forall c, e_series (f c) = rho (e_series c)) ->
  (forall h, head_mean (map f E) x' h == head_mean E x h) /\
  objective (map f E) x' == objective E x /\
  (forall s, resid_sum (map f E) x' (rho s) == resid_sum E x s).
Proof.
  intros E f x x' rho Hh Hs Hinj Hser. split; [intros h; exact (master_transport E f x x' Hh Hs h)|].
  split; [exact (objective_transport E f x x' Hh Hs)|].
  intros s. exact (resid_transport E f x x' Hh Hs rho Hinj Hser s).
Qed.
Print Assumptions C08_axis_shift_and_relabelling.

Theorem C08_master_curve_choice_free : forall E x y,
  connected E ->
  (forall s, In s (ids E) -> resid_sum E x s == 0) ->
  (forall s, In s (ids E) -> resid_sum E y s == 0) ->
  forall h h' c c', In c (at_head E h) -> In c' (at_head E h') ->
    head_mean E y h - head_mean E y h' == head_mean E x h - head_mean E x h'.
Proof. exact master_choice_free. Qed.
Print Assumptions C08_master_curve_choice_free.

(** ** The main body: the greedy component search returns the reachability
    classes.  [sah] is the dict level -> set of series (any list with distinct
    keys); [cc_groups] the dict [groups] at the end of the loop of
    get_connected_components; [components] its return value. *)
Theorem C08_components_are_reachability_classes : forall sah : list (Z * list nat),
  NoDup (map fst sah) ->
  let gs := cc_groups sah in
  Permutation (flat_map fst gs) (map fst sah) /\ NoDup (flat_map fst gs) /\
  (forall g, In g gs -> fst g <> []) /\
  (forall g1 g2 s, In g1 gs -> In g2 gs -> In s (snd g1) -> In s (snd g2) -> g1 = g2) /\
  (forall g s, In g gs -> (In s (snd g) <-> exists h, In h (fst g) /\ at_level sah h s)) /\
  (forall g h, In g gs -> In h (fst g) -> forall h', In h' (fst g) <-> level_linked sah h h') /\
  (forall g1 g2 h1 h2, In g1 gs -> In g2 gs -> In h1 (fst g1) -> In h2 (fst g2) ->
     (g1 = g2 <-> level_linked sah h1 h2)) /\
  Permutation (components sah) (map fst gs) /\
  StronglySorted by_length_desc (components sah) /\
  (forall n, filter (fun ks => Nat.eqb (length ks) n) (components sah)
             = filter (fun ks => Nat.eqb (length ks) n) (map fst gs)) /\
  (forall ks, NoDup ks ->
     (reach_class sah ks <-> exists ks', In ks' (components sah) /\ Permutation ks ks')).
Proof. exact components_are_reachability_classes. Qed.
Print Assumptions C08_components_are_reachability_classes.

(** [hm] is the head mapping (level -> list of (interval, crossing value));
    [offsets_from_mapping] what get_series_time_offsets does with it; [sids] the
    intervals that receive an offset, [levels] the levels of the returned mapping. *)
Theorem C08_main_body_complete_and_exclusive : forall (hm : head_mapping) sids offs levels,
  NoDup (map fst hm) ->
  offsets_from_mapping hm = Ok (sids, offs, levels) ->
  let sah := series_at_head hm in
  NoDup levels /\ reach_class sah levels /\
  (exists rest, exists main, components sah = main :: rest /\ Permutation levels main) /\
  (forall ks, reach_class sah ks -> NoDup ks -> (length ks <= length levels)%nat) /\
  (forall h, In h levels -> exists cs, In (h, cs) hm /\ (1 < length cs)%nat) /\
  (forall s, In s sids <-> exists h, In h levels /\ crosses hm h s) /\
  (forall h0 h s, In h0 levels -> level_linked sah h0 h -> crosses hm h s -> In s sids) /\
  (forall s, In s sids -> forall h0, In h0 levels ->
     exists h, level_linked sah h0 h /\ crosses hm h s).
Proof. exact main_body_complete_and_exclusive. Qed.
Print Assumptions C08_main_body_complete_and_exclusive.

(** The entries that find_offsets receives form a connected overlap graph. *)
Theorem C08_main_body_connected : forall (hm : head_mapping) sids offs levels,
  NoDup (map fst hm) ->
  offsets_from_mapping hm = Ok (sids, offs, levels) ->
  exists main rest,
    components (series_at_head hm) = main :: rest /\
    find_offsets (main_sub hm main) = Ok (sids, offs) /\
    levels = map fst (drop_single (main_sub hm main)) /\
    connected (entries_of (drop_single (main_sub hm main))).
Proof. exact main_body_connected_graph. Qed.
Print Assumptions C08_main_body_connected.

(** Hence, with no connectivity hypothesis: the offsets of the main body have
    zero residual sums and minimise the spread, every other minimiser differs by
    one common constant, and every zero-residual assignment gives the same
    master curve measured from any reference level. *)
Theorem C08_main_body_offsets_unique : forall (hm : head_mapping) sids offs levels,
  NoDup (map fst hm) ->
  offsets_from_mapping hm = Ok (sids, offs, levels) ->
  exists main, find_offsets (main_sub hm main) = Ok (sids, offs) /\
    let E := entries_of (drop_single (main_sub hm main)) in
    let x := assignment sids offs in
    (forall s, In s sids <-> In s (ids E)) /\
    (forall s, resid_sum E x s == 0) /\
    (forall y, objective E x <= objective E y) /\
    (forall y, objective E y == objective E x ->
       forall s s', In s sids -> In s' sids -> y s - x s == y s' - x s') /\
    (forall y, (forall s, In s sids -> resid_sum E y s == 0) ->
       forall h h' c c', In c (at_head E h) -> In c' (at_head E h') ->
         head_mean E y h - head_mean E y h' == head_mean E x h - head_mean E x h').
Proof. exact main_body_offsets_unique. Qed.
Print Assumptions C08_main_body_offsets_unique.

(** Non-vacuity: seven levels; intervals 0,1,2 overlap on levels 5,6,7 (the main
    body, three levels), intervals 3,4 on levels 20,21 (a smaller component, left
    out), interval 5 crosses level 30 alone (isolated, left out), level 8 is
    crossed by interval 2 alone (uninformative, not a level of the result). *)
Definition C08_example_hm : head_mapping :=
  [(5%Z, [(0%nat, 1); (1%nat, 4)]); (20%Z, [(3%nat, 2); (4%nat, 3)]);
   (6%Z, [(0%nat, 2); (1%nat, 5); (2%nat, 9)]); (30%Z, [(5%nat, 1)]);
   (7%Z, [(1%nat, 7); (2%nat, 10)]); (21%Z, [(3%nat, 4); (4%nat, 6)]); (8%Z, [(2%nat, 3)])].

Example C08_example_keys : NoDup (map fst C08_example_hm).
Proof. repeat constructor; simpl; intuition discriminate. Qed.

Example C08_example_components :
  cc_groups (series_at_head C08_example_hm)
  = [([7%Z; 6%Z; 5%Z], [1%nat; 2%nat; 0%nat]); ([21%Z; 20%Z], [3%nat; 4%nat])]
  /\ components (series_at_head C08_example_hm) = [[7%Z; 6%Z; 5%Z]; [21%Z; 20%Z]].
Proof. split; vm_compute; reflexivity. Qed.

Example C08_example_main_body :
  offsets_from_mapping C08_example_hm
  = Ok ([0%nat; 1%nat; 2%nat], [20 # 3; 53 # 15; 0], [5%Z; 6%Z; 7%Z]).
Proof. vm_compute. reflexivity. Qed.

(** ** Left-out rises in the view rising_curve_line_segment (Model/Views.v)

    `spowtd plot rise` draws one line segment per row of this view.  The view
    INNER JOINs storm_total_rise (pairing, interval, the two water levels) with
    storm_total_rain_depth and with rising_interval (the offsets).  Hence, for
    all table contents: every row belongs to a rise that HAS an offsets row - a
    rise left out of the main body is not drawn, at offset 0 or anywhere - and
    carries that rise's own offset; under the PRIMARY KEYs of the five tables a
    rise has at most one row; and every aligned rise whose pairing, interval,
    end levels, storm and rainfall rows exist has its row (exactly one per
    aligned rise when they all do: C08_line_segments_one_per_aligned_rise). *)
From Spowtd Require Import Model.Views Proofs.ViewsSpec.
Import DepthView.

Theorem C08_line_segments_only_main_body : forall pairing zint wl storms rain offsets,
  let V := view_line_segments pairing zint wl storms rain offsets in
  (forall r, In r V -> In (seg_epoch r, seg_offset r) offsets /\ exists s, In (seg_epoch r, s) pairing) /\
  (NoDup (map fst pairing) -> NoDup (map fst zint) -> NoDup (map fst wl) ->
   NoDup (map fst storms) -> NoDup (map fst offsets) -> NoDup (map seg_epoch V)) /\
  (forall e o s thru sthru zi zf,
     In (e, o) offsets -> In (e, s) pairing -> In (e, thru) zint -> In (e, zi) wl -> In (thru, zf) wl ->
     In (s, sthru) storms -> filter (in_storm s sthru) rain <> [] ->
     In (e, o, view_depth s sthru rain, zi, zf) V).
Proof. exact line_segments_only_main_body. Qed.
Print Assumptions C08_line_segments_only_main_body.

Theorem C08_line_segments_one_per_aligned_rise : forall pairing zint wl storms rain offsets,
  NoDup (map fst pairing) -> NoDup (map fst zint) -> NoDup (map fst wl) ->
  NoDup (map fst storms) -> NoDup (map fst offsets) ->
  (forall e o, In (e, o) offsets -> exists s thru sthru zi zf,
     In (e, s) pairing /\ In (e, thru) zint /\ In (e, zi) wl /\ In (thru, zf) wl /\
     In (s, sthru) storms /\ filter (in_storm s sthru) rain <> []) ->
  Permutation (map (fun r => (seg_epoch r, seg_offset r))
                   (view_line_segments pairing zint wl storms rain offsets)) offsets.
Proof. exact line_segments_one_per_aligned_rise. Qed.
Print Assumptions C08_line_segments_one_per_aligned_rise.

(** Non-vacuity: three matched rises (intervals starting 10, 50, 90; storms
    starting 0, 40, 80); the alignment kept the first two (offsets 7/2 and -1)
    and left the third out: two rows, none for the rise starting at 90. *)
Example C08_example_line_segments :
  let pairing := [(10, 0); (50, 40); (90, 80)]%Z in
  let zint := [(10, 20); (20, 50); (50, 60); (60, 90); (90, 100)]%Z in
  let wl := [(10%Z, -30 # 1); (20%Z, -10 # 1); (50%Z, -25 # 1); (60%Z, -5 # 1); (90%Z, 40 # 1); (100%Z, 55 # 1)] in
  let storms := [(0, 20); (40, 60); (80, 100)]%Z in
  let rain := [{| r_from := 0; r_thru := 10; r_mm_h := 36 |}; {| r_from := 10; r_thru := 20; r_mm_h := 72 |};
               {| r_from := 40; r_thru := 50; r_mm_h := 18 |}; {| r_from := 50; r_thru := 60; r_mm_h := 18 |};
               {| r_from := 80; r_thru := 90; r_mm_h := 360 |}; {| r_from := 90; r_thru := 100; r_mm_h := 0 |}] in
  let offsets := [(10%Z, 7 # 2); (50%Z, -1 # 1)] in
  map (fun r => match r with (e, o, d, zi, zf) => (e, Qred o, Qred d, Qred zi, Qred zf) end)
      (view_line_segments pairing zint wl storms rain offsets)
  = [(10%Z, 7 # 2, 3 # 10, -30 # 1, -10 # 1); (50%Z, -1 # 1, 1 # 10, -25 # 1, -5 # 1)].
Proof. vm_compute. reflexivity. Qed.
