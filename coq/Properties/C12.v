(** C12 — level-crossing positions are exact for the piecewise-linear record.
    Statements only; proofs are in Proofs/RegridSpec.v, Proofs/RegridFloatSpec.v.
    Quantification: every finite series of points (x_i, Y_i) with rational
    coordinates, Y_i being the ordinate divided by the step (for the code: the
    binary64 quotient, see [C12_float_layer]); hence all series, rising, falling,
    non-monotone, flat, with samples on a level, and all non-zero steps.
    Items are tagged with the index i of the pair (sample i, sample i+1) that
    produced them; [regrid_Q] = the untagged items in the order yielded. *)
From Spowtd Require Import Model.RegridFloat Proofs.RegridSpec Proofs.RegridFloatSpec.
From Coq Require Import Sorting.Sorted.

(** Each reported crossing lies on the straight-line interpolant at an integer
    level (a multiple of the step in scaled units) and between the two samples
    that bracket it.  [increasing]: abscissae strictly increasing. *)
Theorem C12_on_curve : forall pts i k xs,
  increasing pts -> In (i, (k, xs)) (regrid_tagged pts) ->
  exists p0 p1, nth_error pts i = Some p0 /\ nth_error pts (S i) = Some p1 /\
    fst p0 <= xs /\ xs <= fst p1 /\
    exists v, interp pts xs = Some v /\ v == inject_Z k.
Proof. exact reported_on_curve. Qed.
Print Assumptions C12_on_curve.

(** What is reported, and nothing else: an item (k, x) carries tag i iff samples
    i and i+1 exist, k lies between them (lower value included, upper excluded),
    and x is the crossing of their chord with level k. *)
Theorem C12_reported_iff : forall i k xs pts,
  In (i, (k, xs)) (regrid_tagged pts) <->
  exists p0 p1, nth_error pts i = Some p0 /\ nth_error pts (S i) = Some p1 /\
    between (snd p0) (snd p1) k /\ xs = cross (fst p0) (snd p0) (fst p1) (snd p1) k.
Proof. exact in_regrid_tagged. Qed.
Print Assumptions C12_reported_iff.

(** Exactly once: for the pair (i, i+1) level k is reported once if it lies
    between the samples (half-open), and not at all otherwise. *)
Theorem C12_exact_count : forall pts i p0 p1 k,
  nth_error pts i = Some p0 -> nth_error pts (S i) = Some p1 ->
  let levels := map fst (items_of_pair i (regrid_tagged pts)) in
  (between (snd p0) (snd p1) k -> count_occ Z.eq_dec levels k = 1%nat) /\
  (~ between (snd p0) (snd p1) k -> count_occ Z.eq_dec levels k = 0%nat).
Proof.
  intros pts i p0 p1 k H0 H1. cbv zeta. rewrite items_of_pair_spec, H0, H1, seg_out_levels.
  apply count_targets_ceil.
Qed.
Print Assumptions C12_exact_count.

(** A flat pair reports nothing. *)
Theorem C12_flat_reports_nothing : forall Y0 Y1 k, Y0 == Y1 -> ~ between Y0 Y1 k.
Proof. exact between_flat. Qed.
Print Assumptions C12_flat_reports_nothing.

(** Order of the output: pairs in order; within a pair the levels go up through
    consecutive integers on a rising pair and down on a falling pair. *)
Theorem C12_order : forall pts,
  regrid_Q pts = flat_map (fun s => seg_out (fst s) (snd s)) (segments pts) /\
  (forall p0 p1, snd p0 <= snd p1 -> StronglySorted Z.lt (map fst (seg_out p0 p1))) /\
  (forall p0 p1, snd p1 <= snd p0 -> StronglySorted Z.gt (map fst (seg_out p0 p1))).
Proof.
  intros pts. split; [apply regrid_Q_flat|]. split; intros p0 p1 H; rewrite seg_out_levels.
  - apply targets_ascending, Qceiling_resp_le, H.
  - apply targets_descending, Qceiling_resp_le, H.
Qed.
Print Assumptions C12_order.

(** The float layer supplies only the scaled ordinates: a successful call of
    the model of regrid.regrid(x, y, step) is the rational model on the points
    (x_i, value of the binary64 quotient y_i / step). *)
Theorem C12_float_layer : forall x y step items,
  regrid x y step = Ok items ->
  exists pts, scaled_series x y step pts /\ items = regrid_Q pts.
Proof. exact regrid_ok. Qed.
Print Assumptions C12_float_layer.

(** With an exact quotient the half-open rule reads in the units of the data:
    min(y0, y1) <= k * step < max(y0, y1). *)
Theorem C12_unscaled : forall (y0 y1 s : Q) (k : Z), 0 < s ->
  (between (y0 / s) (y1 / s) k <->
   Qmin y0 y1 <= inject_Z k * s /\ inject_Z k * s < Qmax y0 y1).
Proof. exact between_unscaled. Qed.
Print Assumptions C12_unscaled.

(** build_head_mapping: keys are distinct; series sid has an entry under level
    k iff it crosses k, and the stored value is the arithmetic mean of that
    series' own crossings of k. *)
Theorem C12_mean : forall series step mapping,
  build_head_mapping series step = Ok mapping ->
  NoDup (map fst mapping) /\
  forall k sid m,
    In (sid, m) (dict_lookup k mapping) <->
    exists s items, nth_error series sid = Some s /\
                    regrid (fst s) (snd s) step = Ok items /\
                    crossings_of k items <> [] /\
                    m = qmean (crossings_of k items).
Proof. exact build_head_mapping_entry. Qed.
Print Assumptions C12_mean.

(** Non-vacuity: a series that rises, stays flat, and falls through the same
    levels, with a sample exactly on level 3 (step 1/2, y = 1.5): level 3 is
    reported at the sample itself on the way up (lower value included) and not
    for the pair that ends on it (upper value excluded). *)
Example C12_example :
  let x := [0; 1; 2; 3; 4] in
  let y := [0x1p-2%float; 0x1.8p+0%float; 0x1.4p+1%float; 0x1.4p+1%float; 0x1p-1%float] in
  option_map (map (fun it => (fst it, fst (snd it))))
    (match regrid_prepare x y 0x1p-1%float with
     | Ok pu => Some (regrid_tagged (fst pu)) | Err _ => None end)
  = Some [(0%nat, 1%Z); (0%nat, 2%Z); (1%nat, 3%Z); (1%nat, 4%Z);
          (3%nat, 4%Z); (3%nat, 3%Z); (3%nat, 2%Z); (3%nat, 1%Z)]
  /\ increasing (combine x [1 # 2; 3; 5; 5; 1]).
Proof.
  split; [vm_compute; reflexivity|].
  repeat (constructor; [|repeat (constructor; [reflexivity|]); constructor]). constructor.
Qed.

Example C12_example_mean :
  match build_head_mapping
          [([0; 1; 2], [0%float; 0x1.8p+1%float; 0x1p-1%float])] 1%float with
  | Ok m => map (fun e => (fst e, map (fun p => (fst p, Qred (snd p))) (snd e))) m
  | Err _ => []
  end = [(0%Z, [(0%nat, 0)]); (1%Z, [(0%nat, 16 # 15)]); (2%Z, [(0%nat, 31 # 30)])].
Proof. vm_compute. reflexivity. Qed.
