(** C01 — classification completes; pairs are one-to-one; each pair overlaps.
    Quantification: all boolean vectors [heavy] (one flag per sample: rain above
    the storm threshold) and [jumpf] (one flag per increment: increment above
    jump threshold x step) — hence every loaded stretch and every pair of
    thresholds — and every schedule of the arbitration work set. *)
From Spowtd Require Import Model.Matching Model.Mystery Proofs.RunsSpec Proofs.MysterySpec
  Proofs.MatchingSpec Proofs.MatchStormsSpec Proofs.ClassifySpec.

(** The matching pass never fails an assertion, never indexes out of range and
    never diverges, whatever the pop order of the work set. *)
Theorem C01_matching_total : forall heavy jumpf sched,
  exists r, match_storms_flags heavy jumpf sched = Ok r.
Proof. exact ms_total. Qed.
Print Assumptions C01_matching_total.

(** No storm and no rise appears in two recorded pairs. *)
Theorem C01_one_to_one : forall heavy jumpf sched r,
  match_storms_flags heavy jumpf sched = Ok r -> NoDup (map fst r) /\ NoDup (map snd r).
Proof. exact ms_one_to_one. Qed.
Print Assumptions C01_one_to_one.

(** Each recorded pair is a maximal run of heavy rain and a maximal run of fast
    increments that share a time step i (heavy rain on the step starting at
    sample i, fast increment over that same step). *)
Theorem C01_pairs_overlap : forall heavy jumpf sched r sp rp,
  match_storms_flags heavy jumpf sched = Ok r -> In (sp, rp) r ->
  is_run heavy (fst sp) (snd sp) /\ 1 <= snd rp /\ is_run jumpf (fst rp) (snd rp - 1) /\
  exists i, fst sp <= i /\ i < snd sp /\ fst rp <= i /\ i < snd rp - 1.
Proof. exact ms_pairs. Qed.
Print Assumptions C01_pairs_overlap.

(** The generic loop (any candidate graph with distinct storm keys, any
    preference function, any schedule) ends in a state satisfying the invariant
    with an empty work set. *)
Theorem C01_arbitration_total : forall pref cands, NoDup (map fst cands) -> forall sched,
  exists st, run pref sched (total_cands cands) (init_state cands) = Ok st /\
             Inv pref cands st /\ free st = [] /\ stable_matching pref cands sched = Ok (mt st).
Proof. exact stable_matching_total. Qed.
Print Assumptions C01_arbitration_total.

(** Key constraints of the tables: a rise and an interstorm interval of one
    stretch never claim the same start sample (PRIMARY KEY of zeta_interval),
    given that both passes flag increment i by the same criterion. *)
Theorem C01_no_key_clash : forall rain jumpf a b c,
  length rain = S (length jumpf) ->
  In (a, b) (rises_of jumpf) -> ~ In (a, c) (interstorm_intervals (false :: jumpf) rain).
Proof. exact rise_interstorm_distinct_starts. Qed.
Print Assumptions C01_no_key_clash.

(** Non-vacuity: two bursts contending for one rise, a third burst with its own
    rise, a record that starts in heavy rain and ends in a storm. *)
Example C01_example :
  let heavy := [true; false; true; true; false; false; true; true] in
  let jumpf := [true; true; true; false; false; true; true] in
  match_storms_flags heavy jumpf [] = Ok [((0, 1), (0, 4)); ((6, 8), (5, 8))].
Proof. vm_compute. reflexivity. Qed.
