(** C01 — classification completes; pairs are one-to-one; each pair overlaps.

    Two levels.
    (1) One gap-free stretch in index space: all boolean vectors [heavy] (one
        flag per sample: rain above the storm threshold) and [jumpf] (one flag
        per increment: increment above jump threshold x step) and every schedule
        of the arbitration work set (theorems C01_matching_total ..
        C01_no_key_clash).
    (2) The whole `classify` COMMAND at table level (Model/ClassifyCommand.v):
        every dataset with the structure `load` guarantees ([loaded_ok]: positive
        step, every stretch on the grid with one rain value and one level per
        epoch, all epochs of all stretches in increasing order), all thresholds
        that are not NaN, one arbitrary schedule per stretch.  The model returns
        [Err EIntegrity] when the inserted rows violate a NOT NULL / PRIMARY KEY
        / UNIQUE / CHECK constraint of schema.sql, [Err EAssert] for the code's
        assertions, [Err EValue] for its ValueErrors; the theorems
        C01_command_* say that none of these occurs, within a stretch and across
        stretches, that the (unenforced) foreign keys hold, and that every
        recorded pair overlaps in TIME (epochs, not indices).
        Two hypotheses of C01_command_total are NOT guaranteed by `load`
        (witnesses in notes/C01.md): at least one data interval, finite levels. *)
From Spowtd Require Import Model.Matching Model.Mystery Proofs.RunsSpec Proofs.MysterySpec
  Proofs.MatchingSpec Proofs.MatchStormsSpec Proofs.ClassifySpec.
From Spowtd Require Import Model.ClassifyCommand Proofs.ClassifyCommandSpec.

(** The matching pass never fails an assertion, never indexes out of range and
    never diverges, whatever the pop order of the work set. *)
Theorem C01_matching_total : forall heavy jumpf sched,
  exists r, match_storms_flags heavy jumpf sched = Ok r.
Proof. exact ms_total. Qed.
Print Assumptions C01_matching_total.

(** No storm and no rise appears in two recorded pairs. *)
Theorem C01_one_to_one : forall heavy jumpf sched r,
  match_storms_flags heavy jumpf sched = Ok r -> NoDup (map fst r) /\ NoDup (map snd r).
Proof. exact ms_one_to_one. Qed.
Print Assumptions C01_one_to_one.

(** Each recorded pair is a maximal run of heavy rain and a maximal run of fast
    increments that share a time step i (heavy rain on the step starting at
    sample i, fast increment over that same step). *)
Theorem C01_pairs_overlap : forall heavy jumpf sched r sp rp,
  match_storms_flags heavy jumpf sched = Ok r -> In (sp, rp) r ->
  is_run heavy (fst sp) (snd sp) /\ 1 <= snd rp /\ is_run jumpf (fst rp) (snd rp - 1) /\
  exists i, fst sp <= i /\ i < snd sp /\ fst rp <= i /\ i < snd rp - 1.
Proof. exact ms_pairs. Qed.
Print Assumptions C01_pairs_overlap.

(** The generic loop (any candidate graph with distinct storm keys, any
    preference function, any schedule) ends in a state satisfying the invariant
    with an empty work set. *)
Theorem C01_arbitration_total : forall pref cands, NoDup (map fst cands) -> forall sched,
  exists st, run pref sched (total_cands cands) (init_state cands) = Ok st /\
             Inv pref cands st /\ free st = [] /\ stable_matching pref cands sched = Ok (mt st).
Proof. exact stable_matching_total. Qed.
Print Assumptions C01_arbitration_total.

(** Key constraints of the tables: a rise and an interstorm interval of one
    stretch never claim the same start sample (PRIMARY KEY of zeta_interval),
    given that both passes flag increment i by the same criterion. *)
Theorem C01_no_key_clash : forall rain jumpf a b c,
  length rain = S (length jumpf) ->
  In (a, b) (rises_of jumpf) -> ~ In (a, c) (interstorm_intervals (false :: jumpf) rain).
Proof. exact rise_interstorm_distinct_starts. Qed.
Print Assumptions C01_no_key_clash.

(** Non-vacuity: two bursts contending for one rise, a third burst with its own
    rise, a record that starts in heavy rain and ends in a storm. *)
Example C01_example :
  let heavy := [true; false; true; true; false; false; true; true] in
  let jumpf := [true; true; true; false; false; true; true] in
  match_storms_flags heavy jumpf [] = Ok [((0, 1), (0, 4)); ((6, 8), (5, 8))].
Proof. vm_compute. reflexivity. Qed.

(** * The whole command, at table level *)

(** Totality: on every loaded dataset with at least one data interval and finite
    levels, for all thresholds that are not NaN and all pop orders, the command
    commits: no assertion fails and no key / unique / check / not-null constraint
    is violated by the rows of all stretches together (distinct epochs give
    distinct keys; a rise and an interstorm interval never share a start epoch;
    storm keys and link keys are distinct). *)
Theorem C01_command_total : forall step thr_s thr_j ds scheds,
  loaded_ok step ds = true -> ds <> [] -> levels_finite ds = true ->
  PrimFloat.is_nan thr_s = false -> PrimFloat.is_nan thr_j = false ->
  exists rows, classify_command step thr_s thr_j ds scheds = Ok rows.
Proof. exact command_total_ok. Qed.
Print Assumptions C01_command_total.

(** The rows are those of [classify_stretch], stretch by stretch, concatenated. *)
Theorem C01_command_rows_by_stretch : forall step thr_s thr_j ds scheds c,
  classify_command step thr_s thr_j ds scheds = Ok c ->
  exists rs, c = tables_of thr_s thr_j rs /\
    Forall2 (fun s r => exists sched,
               classify_stretch (s_epochs s) step thr_s thr_j (s_rain s) (s_zeta s) sched = Ok r) ds rs.
Proof. exact command_rows_by_stretch. Qed.
Print Assumptions C01_command_rows_by_stretch.

(** One-to-one at table level: no rise start and no storm start occurs in two
    rows of zeta_interval_storm; every such row has type 'storm' and references
    an existing storm row and an existing zeta_interval row of type 'storm' (the
    foreign keys hold although SQLite does not enforce them here); every storm
    row and every rise row is referenced. *)
Theorem C01_command_one_to_one : forall step thr_s thr_j ds scheds c,
  loaded_ok step ds = true -> classify_command step thr_s thr_j ds scheds = Ok c ->
  NoDup (map zi_start (c_link c)) /\ NoDup (map zi_thru (c_link c)) /\
  (forall l, In l (c_link c) ->
     zi_type l = TStorm /\
     (exists thru, In (zi_thru l, thru) (c_storm c)) /\
     (exists thru, In (zi_start l, TStorm, thru) (c_zeta_interval c))) /\
  (forall st, In st (c_storm c) -> exists a, In (a, TStorm, fst st) (c_link c)) /\
  (forall a thru, In (a, TStorm, thru) (c_zeta_interval c) -> exists s0, In (a, TStorm, s0) (c_link c)).
Proof. exact command_one_to_one. Qed.
Print Assumptions C01_command_one_to_one.

(** Overlap in TIME: for every row of zeta_interval_storm, with the storm row
    [start, thru_s) and the rise row (levels read at start .. thru_r) it
    references, there is a grid step [e, e + step] whose two ends are samples of
    ONE stretch, that lies inside the storm and inside the rise. *)
Theorem C01_command_pairs_overlap_in_time : forall step thr_s thr_j ds scheds c,
  loaded_ok step ds = true -> classify_command step thr_s thr_j ds scheds = Ok c ->
  forall l, In l (c_link c) ->
  forall thru_s thru_r, In (zi_thru l, thru_s) (c_storm c) ->
                        In (zi_start l, TStorm, thru_r) (c_zeta_interval c) ->
  exists s e, In s ds /\ In e (s_epochs s) /\ In (e + step)%Z (s_epochs s) /\
    (zi_thru l <= e)%Z /\ (e + step <= thru_s)%Z /\ (zi_start l <= e)%Z /\ (e + step <= thru_r)%Z.
Proof. exact command_pairs_overlap_in_time. Qed.
Print Assumptions C01_command_pairs_overlap_in_time.

(** What the command refuses: without data intervals a ValueError, with a NaN
    threshold the NOT NULL constraint of table thresholds. *)
Theorem C01_command_no_interval : forall step thr_s thr_j scheds,
  PrimFloat.is_nan thr_s = false -> PrimFloat.is_nan thr_j = false ->
  classify_command step thr_s thr_j [] scheds = Err EValue.
Proof. exact command_no_interval. Qed.
Print Assumptions C01_command_no_interval.

(** A shift of every epoch shifts every row and changes nothing else. *)
Theorem C01_command_shift : forall d step thr_s thr_j ds scheds c,
  loaded_ok step ds = true ->
  classify_command step thr_s thr_j ds scheds = Ok c ->
  classify_command step thr_s thr_j (map (shift_stretch d) ds) scheds = Ok (shift_command d c).
Proof. exact command_shift. Qed.
Print Assumptions C01_command_shift.

(** Non-vacuity: two stretches separated by an outage; the storm of the first
    stretch runs to its last sample and closes at an instant inside the outage;
    the second stretch begins in a storm.  Also the refusals: a level that is
    not finite, epochs off the grid, one epoch in two stretches (key clash). *)
Example C01_command_example :
  loaded_ok 3600 example_dataset = true /\ levels_finite example_dataset = true /\
  classify_command 3600 4 1 example_dataset [] = Ok example_rows.
Proof. vm_compute. repeat split; reflexivity. Qed.

Example C01_command_refusals :
  classify_command 3600 4 1 [mkStretch 1 [0; 3600]%Z [0; 0]%float [0; infinity]%float] [] = Err EAssert
  /\ classify_command 3600 4 1 [mkStretch 1 [0; 3600; 7201]%Z [0; 0; 0]%float [0; 0; 0]%float] [] = Err EValue
  /\ classify_command 3600 4 1 [mkStretch 1 [0; 3600]%Z [0; 0]%float [0; 0]%float;
                                mkStretch 2 [3600; 7200]%Z [0; 0]%float [0; 0]%float] [] = Err EIntegrity
  /\ classify_command 3600 nan 1 example_dataset [] = Err EIntegrity.
Proof. vm_compute. repeat split; reflexivity. Qed.

(** * `load`, then `classify` (Proofs/LoadClassifyLink.v)

    [stretches_of_load fr fz L] = the stretches the command reads from the
    tables [L] that the model of `load` (Model/Load.v, C10) wrote: the SELECT
    DISTINCT data_interval query and, per label, the join of grid_time,
    rainfall_intensity and water_level.  Load.v carries values as exact
    rationals, the stretches as binary64: [fr], [fz : Q -> float] (how a stored
    rainfall intensity / level is read back) are arbitrary, universally
    quantified, so nothing is claimed about the VALUES; the STRUCTURE is derived
    in full. *)
From Spowtd Require Import Model.Load Proofs.LoadSpec Proofs.LoadClassifyLink.

(** Every dataset written by an accepted `load` has the structure assumed by
    the C01_command_* theorems ([loaded_ok], all of it): positive step, epochs
    of a stretch exactly one step apart, one rain value and one level per
    epoch, epochs of all stretches strictly increasing in label order, labels
    strictly increasing. *)
Theorem C01_load_then_classify_structure : forall fr fz pop tz rain et wl L,
  load_model pop tz rain et wl = Ok L ->
  loaded_ok (ld_step L) (stretches_of_load fr fz L) = true.
Proof. exact load_then_classify_structure. Qed.
Print Assumptions C01_load_then_classify_structure.

(** Which instants form the stretch with label k: the starts of grid steps
    (every grid instant but the closing one) that carry label k (by C10: not
    strictly inside a gap, no gap between two of them). *)
Theorem C01_load_stretch_epochs : forall pop tz rain et wl L k e,
  load_model pop tz rain et wl = Ok L ->
  (In e (map ep3 (join_rows L k)) <->
   In (e, Some k) (ld_grid L) /\ In e (removelast (grid_epochs L))).
Proof. exact stretch_epochs_char. Qed.
Print Assumptions C01_load_stretch_epochs.

(** Load, then classify: for every input accepted by the model of `load`, all
    thresholds that are not NaN and all pop orders, the model of `classify` on
    the loaded tables commits - given at least one data interval and finite
    levels (the two known findings: `load` guarantees neither). *)
Theorem C01_load_then_classify_total : forall fr fz pop tz rain et wl L thr_s thr_j scheds,
  load_model pop tz rain et wl = Ok L ->
  stretches_of_load fr fz L <> [] -> levels_finite (stretches_of_load fr fz L) = true ->
  PrimFloat.is_nan thr_s = false -> PrimFloat.is_nan thr_j = false ->
  exists rows, classify_command (ld_step L) thr_s thr_j (stretches_of_load fr fz L) scheds = Ok rows.
Proof. exact load_then_classify_total. Qed.
Print Assumptions C01_load_then_classify_total.

(** Non-vacuity: rainfall every 10 s from -10 to 70 (rows out of order), water
    level every 5 s from 0 to 50 with the samples 20 and 25 missing (a gap
    15..30 around the grid instant 20).  Grid 0..50 plus the closing instant 60;
    stretch 1 = 0, 10; stretch 2 = 30, 40, 50 (60 carries label 2 but no
    rainfall step: not a sample).  Heavy rain on the step starting at 30 with a
    rise of the level over it: one storm, matched with one rise.  Values are
    non-negative integers, read back exactly. *)
Definition ex_q2f (q : Q) : float :=
  PrimFloat.of_uint63 (Uint63.of_Z (Qnum q / Zpos (Qden q))).
Definition ex_load_rain : list row :=
  [(30, 9#1); (-10, 7#1); (0, 0#1); (10, 0#1); (20, 0#1); (40, 0#1); (50, 0#1); (60, 3#1); (70, 8#1)]%Z.
Definition ex_load_et : list row :=
  [(60, 1#1); (0, 1#1); (10, 1#1); (20, 1#1); (30, 1#1); (40, 1#1); (50, 1#1)]%Z.
Definition ex_load_wl : list row :=
  [(0, 100#1); (5, 100#1); (10, 99#1); (15, 99#1); (30, 90#1); (35, 95#1); (40, 100#1); (50, 98#1); (45, 99#1)]%Z.

Example C01_load_then_classify_example :
  match load_model false String.EmptyString ex_load_rain ex_load_et ex_load_wl with
  | Ok L =>
      ld_step L = 10%Z /\
      stretches_of_load ex_q2f ex_q2f L
      = [ mkStretch 1 [0; 10]%Z [0; 0]%float [100; 99]%float;
          mkStretch 2 [30; 40; 50]%Z [9; 0; 0]%float [90; 100; 98]%float ] /\
      levels_finite (stretches_of_load ex_q2f ex_q2f L) = true /\
      match classify_command (ld_step L) 4 1 (stretches_of_load ex_q2f ex_q2f L) [] with
      | Ok c => c_storm c = [(30, 40)]%Z /\ c_link c = [(30, TStorm, 30)]%Z
      | Err _ => False
      end
  | Err _ => False
  end.
Proof. vm_compute. repeat split; reflexivity. Qed.
