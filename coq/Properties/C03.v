(** C03 — storms and rises are exactly maximal above-threshold runs; the rain
    depth of a storm is the sum over exactly its steps.

    Two levels: one gap-free stretch in index space (C03_recorded_intervals_..),
    and the rows written by the whole `classify` command in EPOCH terms
    (C03_command_intervals_are_maximal_runs_of_one_stretch, model
    Model/ClassifyCommand.v): the mapping between epochs and sample indices of
    a stretch is part of the model and of the proof, not of the harness. *)
From Spowtd Require Import Model.Matching Model.Flags Model.DepthView Proofs.RunsSpec
  Proofs.MatchingSpec Proofs.MatchStormsSpec Proofs.ClassifySpec Proofs.FlagsSpec Proofs.DepthViewSpec Proofs.RunsRecordSpec.
From Spowtd Require Import Model.ClassifyCommand Proofs.ClassifyCommandSpec Proofs.DepthCommandSpec.
Close Scope Q_scope.

(** Every recorded storm (s,e) is a maximal run of heavy-rain flags s..e-1 and
    every recorded rise (a,b) (head samples a..b-1) is a maximal run of
    fast-increment flags a..b-2 — of the one stretch whose flags these are. *)
Theorem C03_recorded_intervals_are_maximal_runs : forall heavy jumpf sched r sp rp,
  match_storms_flags heavy jumpf sched = Ok r -> In (sp, rp) r ->
  is_run heavy (fst sp) (snd sp) /\ 1 <= snd rp /\ is_run jumpf (fst rp) (snd rp - 1) /\
  exists i, fst sp <= i /\ i < snd sp /\ fst rp <= i /\ i < snd rp - 1.
Proof. exact ms_pairs. Qed.
Print Assumptions C03_recorded_intervals_are_maximal_runs.

(** The heavy-rain flag of sample i is the strict IEEE comparison thr < rain_i
    (a value equal to the threshold is not heavy). *)
Theorem C03_heavy_flag_strict : forall thr rain i,
  nth i (heavy_flags thr rain) false = true <->
  i < length rain /\ PrimFloat.ltb thr (nth i rain 0%float) = true.
Proof. exact heavy_flag_char. Qed.
Print Assumptions C03_heavy_flag_strict.

(** The fast-increment flag of increment i is the strict IEEE comparison
    thr_j * step_h < zeta_(i+1) - zeta_i. *)
Theorem C03_jump_flag_strict : forall thr step z i,
  nth i (jump_incr_flags thr step z) false = true <->
  S i < length z /\
  PrimFloat.ltb (jump_delta thr step) (PrimFloat.sub (nth (S i) z 0%float) (nth i z 0%float)) = true.
Proof. exact jump_flag_char. Qed.
Print Assumptions C03_jump_flag_strict.

(** Maximal runs, spelled out. *)
Theorem C03_runs_exact : forall l s e, In (s, e) (true_runs l) <-> is_run l s e.
Proof. exact true_runs_spec. Qed.
Print Assumptions C03_runs_exact.

(** Maximal runs on the data, no flag vector in the statement: every step of a
    storm run is strictly above the threshold (IEEE-754 comparison: a value equal
    to the threshold, or a NaN, is not), and neither neighbouring step is; the
    same for rises over the increments, against threshold x step length. *)
Theorem C03_storm_run_on_the_record : forall thr rain s e,
  is_run (heavy_flags thr rain) s e <->
  s < e /\ e <= length rain /\ (forall i, s <= i -> i < e -> heavy_step thr rain i) /\
  (s = 0 \/ ~ heavy_step thr rain (s - 1)) /\ (e = length rain \/ ~ heavy_step thr rain e).
Proof. exact storm_run_on_the_record. Qed.
Print Assumptions C03_storm_run_on_the_record.

Theorem C03_rise_run_on_the_record : forall thr step z s e,
  is_run (jump_incr_flags thr step z) s e <->
  s < e /\ e <= length z - 1 /\ (forall i, s <= i -> i < e -> fast_increment thr step z i) /\
  (s = 0 \/ ~ fast_increment thr step z (s - 1)) /\
  (e = length z - 1 \/ ~ fast_increment thr step z e).
Proof. exact rise_run_on_the_record. Qed.
Print Assumptions C03_rise_run_on_the_record.

(** The depth view sums intensity x step length over exactly the steps
    s <= i < e of the storm [t0 + s*step, t0 + e*step) (exact arithmetic). *)
Theorem C03_depth_is_sum_over_storm_steps : forall t0 step s e vs, (0 < step)%Z ->
  (view_depth (t0 + s * step) (t0 + e * step) (grid_rows t0 step vs)
   == indexed_depth 0 s e step vs)%Q.
Proof. exact view_depth_indexed. Qed.
Print Assumptions C03_depth_is_sum_over_storm_steps.

Example C03_example_depth :
  (view_depth (1000 + 1 * 600) (1000 + 3 * 600) (grid_rows 1000 600 [1; 6; 12; 3]) == 3)%Q.
Proof. vm_compute. reflexivity. Qed.

(** * The whole command, in epoch terms

    Every row [start, thru) of table storm is a maximal run of k >= 1 grid steps
    of ONE stretch with intensity > threshold: the k step starts
    start, start + step, .., start + (k-1) step are samples i .. i+k-1 of that
    stretch, thru = start + k step (= start of the last step + step: it never
    extends across a gap), the flags i .. i+k-1 are on and the run is maximal in
    the stretch.  Every zeta_interval row of type 'storm' (levels read at
    start .. thru) is a maximal run of k >= 1 increments above threshold x step
    between samples i .. i+k of ONE stretch, thru = start + k step.
    (C03_heavy_flag_strict / C03_jump_flag_strict give the float meaning of the
    flags.) *)
Theorem C03_command_intervals_are_maximal_runs_of_one_stretch : forall step thr_s thr_j ds scheds c,
  loaded_ok step ds = true -> classify_command step thr_s thr_j ds scheds = Ok c ->
  (forall start thru, In (start, thru) (c_storm c) ->
     exists s i k, In s ds /\ 1 <= k /\ i + k <= length (s_epochs s) /\
       (forall j, j < k -> nth (i + j) (s_epochs s) 0%Z = (start + Z.of_nat j * step)%Z) /\
       thru = (start + Z.of_nat k * step)%Z /\
       is_run (heavy_flags thr_s (s_rain s)) i (i + k)) /\
  (forall a thru, In (a, TStorm, thru) (c_zeta_interval c) ->
     exists s i k, In s ds /\ 1 <= k /\ i + k < length (s_epochs s) /\
       (forall j, j <= k -> nth (i + j) (s_epochs s) 0%Z = (a + Z.of_nat j * step)%Z) /\
       thru = (a + Z.of_nat k * step)%Z /\
       is_run (jump_incr_flags thr_j step (s_zeta s)) i (i + k)).
Proof. exact command_intervals_are_runs. Qed.
Print Assumptions C03_command_intervals_are_maximal_runs_of_one_stretch.

(** Non-vacuity: the storm of the first stretch runs to the last sample of the
    stretch and closes at 1361332800 = 1361329200 + 3600, an instant inside the
    outage that separates the two stretches. *)
Example C03_command_example :
  loaded_ok 3600 example_dataset = true /\
  classify_command 3600 4 1 example_dataset [] = Ok example_rows /\
  In (1361325600, 1361332800)%Z (c_storm example_rows) /\
  ~ In 1361332800%Z (all_epochs example_dataset).
Proof.
  split; [vm_compute; reflexivity|]. split; [vm_compute; reflexivity|].
  split; [left; reflexivity|]. vm_compute. intuition discriminate.
Qed.

(** * The depth of a storm row of the whole command

    The rainfall table being the dataset's own ([rain_rows_of]: one row per
    sample epoch e of each stretch, from e thru e + step, that sample's
    intensity converted exactly to a rational), the depth the view attributes to
    a storm row (start, thru) written by the command is the sum over j < k of
    intensity(sample i + j) x step / 3600 ([own_steps_depth]), the k samples
    i .. i+k-1 being exactly the steps start + j*step of that storm in its ONE
    stretch: no step of another storm or of another stretch contributes and none
    is missing (Proofs/DepthCommandSpec.v shows that the join of the view
    selects exactly these k rows). *)
Theorem C03_command_depth_is_sum_over_the_storms_own_steps : forall step thr_s thr_j ds scheds c,
  loaded_ok step ds = true -> classify_command step thr_s thr_j ds scheds = Ok c ->
  forall start thru, In (start, thru) (c_storm c) ->
  exists s i k, In s ds /\ 1 <= k /\ i + k <= length (s_epochs s) /\
    (forall j, j < k -> nth (i + j) (s_epochs s) 0%Z = (start + Z.of_nat j * step)%Z) /\
    thru = (start + Z.of_nat k * step)%Z /\
    is_run (heavy_flags thr_s (s_rain s)) i (i + k) /\
    (view_depth start thru (rain_rows_of step ds) == own_steps_depth step s i k)%Q.
Proof. exact command_depth_own_steps. Qed.
Print Assumptions C03_command_depth_is_sum_over_the_storms_own_steps.

(** Non-vacuity: both storms of the example (9 mm/h over two hourly steps of
    stretch 1; 9 mm/h over the first step of stretch 2); the whole rainfall
    table (9 rows) sums to 27.5 mm, so neither depth includes the other storm's
    steps or the 0.5 mm/h step that follows the second storm. *)
Example C03_command_depth_example :
  In (1361325600, 1361332800)%Z (c_storm example_rows) /\
  (view_depth 1361325600 1361332800 (rain_rows_of 3600 example_dataset) == 18)%Q /\
  (own_steps_depth 3600 (nth 0 example_dataset (mkStretch 0 [] [] [])) 2 2 == 18)%Q /\
  (view_depth 1361336400 1361340000 (rain_rows_of 3600 example_dataset) == 9)%Q /\
  (own_steps_depth 3600 (nth 1 example_dataset (mkStretch 0 [] [] [])) 0 1 == 9)%Q /\
  length (rain_rows_of 3600 example_dataset) = 9 /\
  (qsum (map row_depth (rain_rows_of 3600 example_dataset)) == 55 # 2)%Q.
Proof. split; [left; reflexivity|]. vm_compute. repeat split; reflexivity. Qed.
