(** C14 — a spline specific yield passes through its knots, is constant outside
    the knot range, and its integral between any two levels (inside or outside
    the range, either order) is the area under that same clamped function:
    additive over adjacent ranges, sign change when the limits are swapped.

    Statements only; proofs are in Proofs/SplineWrapSpec.v.  The model is
    Model/SplineWrap.v (class Spline of spowtd/spline.py) at the real-number
    instance.  FITPACK enters through the variables [ev] (splev) and [splint]
    and their contract, which the check tests on every tck object of a run. *)
From Coq Require Import Reals Lra.
From Coquelicot Require Import Coquelicot.
From Spowtd Require Import Model.SplineWrap Proofs.SplineWrapSpec.
Local Open Scope R_scope.

(** Constant extrapolation: below the lowest knot the value is the value at
    that knot, above the highest knot the value at that one. *)
Theorem C14_const_outside :
  forall (xmin xmax : R) (ev : R -> R), xmin < xmax ->
  forall x,
    (x <= xmin -> call Rops xmin xmax ev x = ev xmin) /\
    (xmax <= x -> call Rops xmin xmax ev x = ev xmax) /\
    (xmin <= x <= xmax -> call Rops xmin xmax ev x = ev x).
Proof.
  intros xmin xmax ev dom x. split; [|split]; intro H.
  - now apply call_below.
  - now apply call_above.
  - now apply call_inside.
Qed.
Print Assumptions C14_const_outside.

(** [integrate a b] is the increment of ONE function, for all a, b: every
    position of the limits relative to the knot range, both orders. *)
Theorem C14_integrate_char :
  forall (xmin xmax : R) (ev : R -> R) (splint : R -> R -> R) (P : R -> R),
    xmin < xmax ->
    (forall a b, xmin <= a -> a <= b -> b <= xmax -> splint a b = P b - P a) ->
    (forall a, xmax <= a -> splint a xmax = 0) ->
    forall a b,
      integrate Rops xmin xmax ev splint a b = Fc xmin xmax ev P b - Fc xmin xmax ev P a.
Proof. exact integrate_char. Qed.
Print Assumptions C14_integrate_char.

(** Additivity over adjacent ranges: any three levels in any order. *)
Theorem C14_additive :
  forall (xmin xmax : R) (ev : R -> R) (splint : R -> R -> R) (P : R -> R),
    xmin < xmax ->
    (forall a b, xmin <= a -> a <= b -> b <= xmax -> splint a b = P b - P a) ->
    (forall a, xmax <= a -> splint a xmax = 0) ->
    forall a b c,
      integrate Rops xmin xmax ev splint a c =
      integrate Rops xmin xmax ev splint a b + integrate Rops xmin xmax ev splint b c.
Proof. exact integrate_additive. Qed.
Print Assumptions C14_additive.

(** Swapping the limits changes the sign. *)
Theorem C14_antisym :
  forall (xmin xmax : R) (ev : R -> R) (splint : R -> R -> R) (P : R -> R),
    xmin < xmax ->
    (forall a b, xmin <= a -> a <= b -> b <= xmax -> splint a b = P b - P a) ->
    (forall a, xmax <= a -> splint a xmax = 0) ->
    forall a b,
      integrate Rops xmin xmax ev splint b a = - integrate Rops xmin xmax ev splint a b.
Proof. exact integrate_antisym. Qed.
Print Assumptions C14_antisym.

(** Both limits on the same side of the knot range: rectangle. *)
Theorem C14_below_above :
  forall (xmin xmax : R) (ev : R -> R) (splint : R -> R -> R) (P : R -> R),
    xmin < xmax ->
    (forall a b, xmin <= a -> a <= b -> b <= xmax -> splint a b = P b - P a) ->
    (forall a, xmax <= a -> splint a xmax = 0) ->
    forall a b,
      (a <= xmin -> b <= xmin -> integrate Rops xmin xmax ev splint a b = ev xmin * (b - a)) /\
      (xmax <= a -> xmax <= b -> integrate Rops xmin xmax ev splint a b = ev xmax * (b - a)).
Proof.
  intros xmin xmax ev splint P dom Hin Hab a b. split.
  - now apply (integrate_below xmin xmax ev splint P).
  - now apply (integrate_above xmin xmax ev splint P).
Qed.
Print Assumptions C14_below_above.

(** The area: when inside the knot range splint is the integral of splev
    (here: P' = ev, ev continuous), [integrate a b] is the Riemann integral of
    the clamped function [call] from a to b, for all a, b. *)
Theorem C14_area :
  forall (xmin xmax : R) (ev : R -> R) (splint : R -> R -> R) (P : R -> R),
    xmin < xmax ->
    (forall a b, xmin <= a -> a <= b -> b <= xmax -> splint a b = P b - P a) ->
    (forall a, xmax <= a -> splint a xmax = 0) ->
    (forall x, xmin <= x <= xmax -> is_derive P x (ev x)) ->
    (forall x, xmin <= x <= xmax -> continuous ev x) ->
    forall a b,
      is_RInt (call Rops xmin xmax ev) a b (integrate Rops xmin xmax ev splint a b) /\
      integrate Rops xmin xmax ev splint a b = RInt (call Rops xmin xmax ev) a b.
Proof.
  intros xmin xmax ev splint P dom Hin Hab HP Hc a b. split.
  - now apply (integrate_is_RInt xmin xmax ev splint P).
  - now apply (integrate_area xmin xmax ev splint P).
Qed.
Print Assumptions C14_area.
