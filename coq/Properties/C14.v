(** C14 — a spline specific yield passes through its knots, is constant outside
    the knot range, and its integral between any two levels (inside or outside
    the range, either order) is the area under that same clamped function:
    additive over adjacent ranges, sign change when the limits are swapped.

    Statements only; proofs are in Proofs/SplineWrapSpec.v (the wrapper class
    Spline of spowtd/spline.py, Model/SplineWrap.v, with FITPACK as variables
    [ev] = splev, [splint] under a contract that the check tests on every tck
    of a run) and Proofs/SplineWrapPPSpec.v (Model/SplineWrapPP.v: the exact
    interpolating splines, where nothing is assumed).  Real-number instance
    [Rops] of the models; quantification: all knot ranges, all limits. *)
From Coq Require Import Reals List QArith.
From Coquelicot Require Import Coquelicot.
From Spowtd Require Import Model.SplineWrapPP Proofs.SplineWrapSpec Proofs.SplineWrapPPSpec.
Import ListNotations.
Local Open Scope R_scope.

(** Constant extrapolation: below the lowest knot the value is the value at
    that knot, above the highest knot the value at that one. *)
Theorem C14_const_outside :
  forall (xmin xmax : R) (ev : R -> R), xmin < xmax ->
  forall x,
    (x <= xmin -> call Rops xmin xmax ev x = ev xmin) /\
    (xmax <= x -> call Rops xmin xmax ev x = ev xmax) /\
    (xmin <= x <= xmax -> call Rops xmin xmax ev x = ev x).
Proof. exact call_cases. Qed.
Print Assumptions C14_const_outside.

(** [integrate a b] is the increment of ONE function, for all a, b: every
    position of the limits relative to the knot range, both orders. *)
Theorem C14_integrate_char :
  forall (xmin xmax : R) (ev : R -> R) (splint : R -> R -> R) (P : R -> R),
    xmin < xmax ->
    (forall a b, xmin <= a -> a <= b -> b <= xmax -> splint a b = P b - P a) ->
    (forall a, xmax <= a -> splint a xmax = 0) ->
    forall a b,
      integrate Rops xmin xmax ev splint a b = Fc xmin xmax ev P b - Fc xmin xmax ev P a.
Proof. exact integrate_char. Qed.
Print Assumptions C14_integrate_char.

(** Additivity over adjacent ranges: any three levels in any order. *)
Theorem C14_additive :
  forall (xmin xmax : R) (ev : R -> R) (splint : R -> R -> R) (P : R -> R),
    xmin < xmax ->
    (forall a b, xmin <= a -> a <= b -> b <= xmax -> splint a b = P b - P a) ->
    (forall a, xmax <= a -> splint a xmax = 0) ->
    forall a b c,
      integrate Rops xmin xmax ev splint a c =
      integrate Rops xmin xmax ev splint a b + integrate Rops xmin xmax ev splint b c.
Proof. exact integrate_additive. Qed.
Print Assumptions C14_additive.

(** Swapping the limits changes the sign. *)
Theorem C14_antisym :
  forall (xmin xmax : R) (ev : R -> R) (splint : R -> R -> R) (P : R -> R),
    xmin < xmax ->
    (forall a b, xmin <= a -> a <= b -> b <= xmax -> splint a b = P b - P a) ->
    (forall a, xmax <= a -> splint a xmax = 0) ->
    forall a b,
      integrate Rops xmin xmax ev splint b a = - integrate Rops xmin xmax ev splint a b.
Proof. exact integrate_antisym. Qed.
Print Assumptions C14_antisym.

(** Both limits on the same side of the knot range: a rectangle. *)
Theorem C14_below_above :
  forall (xmin xmax : R) (ev : R -> R) (splint : R -> R -> R) (P : R -> R),
    xmin < xmax ->
    (forall a b, xmin <= a -> a <= b -> b <= xmax -> splint a b = P b - P a) ->
    (forall a, xmax <= a -> splint a xmax = 0) ->
    forall a b,
      (a <= xmin -> b <= xmin -> integrate Rops xmin xmax ev splint a b = ev xmin * (b - a)) /\
      (xmax <= a -> xmax <= b -> integrate Rops xmin xmax ev splint a b = ev xmax * (b - a)).
Proof. exact integrate_below_above. Qed.
Print Assumptions C14_below_above.

(** The area: when inside the knot range splint is the integral of splev,
    [integrate a b] is the Riemann integral of the clamped function [call]
    from a to b, for all a, b. *)
Theorem C14_area :
  forall (xmin xmax : R) (ev : R -> R) (splint : R -> R -> R) (P : R -> R),
    xmin < xmax ->
    (forall a b, xmin <= a -> a <= b -> b <= xmax -> splint a b = P b - P a) ->
    (forall a, xmax <= a -> splint a xmax = 0) ->
    (forall a b, xmin <= a -> a <= b -> b <= xmax -> is_RInt ev a b (P b - P a)) ->
    forall a b,
      is_RInt (call Rops xmin xmax ev) a b (integrate Rops xmin xmax ev splint a b) /\
      integrate Rops xmin xmax ev splint a b = RInt (call Rops xmin xmax ev) a b.
Proof. exact integrate_area_pack. Qed.
Print Assumptions C14_area.

(** The same from the usual form of the contract: P' = ev, ev continuous. *)
Theorem C14_area_from_derivative :
  forall (xmin xmax : R) (ev : R -> R) (splint : R -> R -> R) (P : R -> R),
    xmin < xmax ->
    (forall a b, xmin <= a -> a <= b -> b <= xmax -> splint a b = P b - P a) ->
    (forall a, xmax <= a -> splint a xmax = 0) ->
    (forall x, xmin <= x <= xmax -> is_derive P x (ev x)) ->
    (forall x, xmin <= x <= xmax -> continuous ev x) ->
    forall a b,
      integrate Rops xmin xmax ev splint a b = RInt (call Rops xmin xmax ev) a b.
Proof. exact integrate_area_deriv. Qed.
Print Assumptions C14_area_from_derivative.

(** ---- oracle-free: the exact interpolating splines of Model/SplineWrapPP.v *)

(** Order 1 (what PEATCLSM and the transmissivity use), ALL strictly increasing
    knots (two or more) and ALL values: passes through every knot ... *)
Theorem C14_linear_knots :
  forall knots values, (2 <= length knots)%nat -> incr_list knots ->
    length values = length knots ->
    forall i, (i < length knots)%nat ->
      pp_call Rops knots (lin_pp Rops knots values) (nth i knots 0) = nth i values 0.
Proof. exact lin_pp_knots. Qed.
Print Assumptions C14_linear_knots.

(** ... and [integrate] is the Riemann integral of the clamped function. *)
Theorem C14_linear_area :
  forall knots values, (2 <= length knots)%nat -> incr_list knots ->
    length values = length knots ->
    forall a b,
      is_RInt (pp_call Rops knots (lin_pp Rops knots values)) a b
              (pp_integrate Rops knots (lin_pp Rops knots values) a b).
Proof. exact lin_pp_is_RInt. Qed.
Print Assumptions C14_linear_area.

(** Order 3: every piecewise cubic that [nak_check] accepts (breakpoints = the
    knots, 4 or more, strictly increasing; each piece takes the knot values at
    both ends; C2 at interior knots; not-a-knot end conditions) passes through
    every knot ... *)
Theorem C14_cubic_knots :
  forall knots values segs, nak_check Rops knots values segs = true ->
    forall i, (i < length knots)%nat ->
      pp_call Rops knots segs (nth i knots 0) = nth i values 0.
Proof. exact nak_check_knots. Qed.
Print Assumptions C14_cubic_knots.

(** ... and its [integrate] is the Riemann integral of the clamped function,
    for all limits in either order. *)
Theorem C14_cubic_area :
  forall knots values segs, nak_check Rops knots values segs = true ->
    forall a b, is_RInt (pp_call Rops knots segs) a b (pp_integrate Rops knots segs a b).
Proof. exact nak_check_is_RInt. Qed.
Print Assumptions C14_cubic_area.

(** Non-vacuity 1: the FITPACK contract assumed above is satisfiable by a
    non-constant function (the exact linear spline through (0,1),(1,2),(3,0)). *)
Example C14_contract_satisfiable :
  exists (xmin xmax : R) (ev : R -> R) (splint : R -> R -> R) (P : R -> R),
    xmin < xmax /\
    (forall a b, xmin <= a -> a <= b -> b <= xmax -> splint a b = P b - P a) /\
    (forall a, xmax <= a -> splint a xmax = 0) /\
    (forall a b, xmin <= a -> a <= b -> b <= xmax -> is_RInt ev a b (P b - P a)) /\
    ev xmin <> ev xmax.
Proof. exact contract_satisfiable. Qed.

(** Non-vacuity 2 (rational instance, computed): that spline from 1 below the
    knots to 1 above them: 1*1 + (1.5 + 2) + 0*1; and reversed. *)
Example C14_example_linear :
  let knots := [0; 1; 3]%Q in let values := [1; 2; 0]%Q in
  let segs := Qlin_pp knots values in
  (Qeq_bool (Qpp_integrate knots segs (-1) 4) (9 # 2)
   && Qeq_bool (Qpp_integrate knots segs 4 (-1)) (- (9 # 2))
   && Qeq_bool (Qpp_call knots segs (-5)) 1 && Qeq_bool (Qpp_call knots segs 2) 1)%bool = true.
Proof. vm_compute. reflexivity. Qed.

(** Non-vacuity 3: the shipped spline parameter set: the not-a-knot cubic is
    computed, passes [nak_check], and takes the knot values. *)
Example C14_example_cubic :
  let knots := [-2917 # 10; -1831 # 10; -1574 # 100; 1065 # 100; 3878 # 100; 1683 # 10]%Q in
  let values := [1358 # 10000; 1671 # 10000; 2541 # 10000; 2907 # 10000; 2892 # 10000;
                 6857 # 10000]%Q in
  match Qnak_pp knots values with
  | Some segs => forallb (fun kv => Qeq_bool (Qpp_call knots segs (fst kv)) (snd kv))
                         (combine knots values)
  | None => false
  end = true.
Proof. vm_compute. reflexivity. Qed.
