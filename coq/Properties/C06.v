(** C06 — a planted master curve is recovered from its shifted pieces.

    Algebraic core, for every head mapping: if every crossing value is
    T(level) - c(interval) for one curve T (zero-residual data) and the overlap
    graph is connected, the offsets returned by the model of find_offsets equal
    c up to ONE common constant k, so offset + crossing value = T(level) + k for
    every piece at every level: the assembled curve is T up to the origin and all
    aligned pieces coincide.  The composition through load / classify / regrid
    (crossing positions exact on the lattice: C12) is tied by the command-level
    correspondence against planted datasets. *)
From Spowtd Require Import Model.FitOffsets Model.Views Proofs.QSum Proofs.FitOffsetsSpec Proofs.FindOffsetsSpec
  Proofs.ViewsSpec Proofs.PlantedViewSpec.
From Spowtd Require Import Model.Components Proofs.ComponentsSpec Proofs.PlantedMainBodySpec.
From Spowtd Require Import Model.Regrid Proofs.RegridSpec Proofs.PlantedRiseSpec.

Theorem C06_planted_curve_recovered : forall hm sids offs (T : Z -> Q) (cs : nat -> Q),
  find_offsets hm = Ok (sids, offs) ->
  let E := entries_of (drop_single hm) in
  let x := assignment sids offs in
  connected E ->
  (forall c, In c E -> e_val c == T (e_head c) - cs (e_series c)) ->
  exists k, (forall s, In s (ids E) -> x s == cs s + k) /\
            (forall c, In c E -> x (e_series c) + e_val c == T (e_head c) + k).
Proof. exact planted_recovered. Qed.
Print Assumptions C06_planted_curve_recovered.

(** Zero-residual data have spread zero at the planted constants. *)
Theorem C06_planted_has_zero_spread : forall E (T : Z -> Q) (cs : nat -> Q),
  (forall c, In c E -> e_val c == T (e_head c) - cs (e_series c)) ->
  (forall c, In c E -> dev E cs c == 0) /\ objective E cs == 0 /\ forall s, resid_sum E cs s == 0.
Proof. exact planted_is_exact. Qed.
Print Assumptions C06_planted_has_zero_spread.

(** "All aligned pieces coincide wherever they overlap" and "the assembled master
    curve coincides with the underlying curve up to the choice of origin", at the
    level the user reads them: the rows of the view over the tables written from
    the result (average_recession_time / average_rising_depth, Model/Views.v) are
    exactly (level, T(level) + k) on the grid levels that carry data, any two
    aligned pieces agree at every level they share, and no piece deviates from
    the level mean. *)
Theorem C06_view_shows_planted_curve :
  forall (start_of : nat -> Z) hm sids offs grid step (T : Z -> Q) (cs : nat -> Q),
  find_offsets hm = Ok (sids, offs) ->
  NoDup grid ->
  (forall a b, In a sids -> In b sids -> start_of a = start_of b -> a = b) ->
  let E := entries_of (drop_single hm) in
  let x := assignment sids offs in
  let O := written_offsets start_of sids offs in
  let Cr := written_crossings start_of (drop_single hm) in
  connected E ->
  (forall c, In c E -> e_val c == T (e_head c) - cs (e_series c)) ->
  exists k,
    (forall z v, In (z, v) (view_average O Cr grid step) ->
       exists h, In h grid /\ z = inject_Z h * step /\ v == T h + k) /\
    (forall h, In h grid -> (exists c, In c (at_head E h)) ->
       exists v, In (inject_Z h * step, v) (view_average O Cr grid step) /\ v == T h + k) /\
    (forall c1 c2, In c1 E -> In c2 E -> e_head c1 = e_head c2 -> shifted x c1 == shifted x c2) /\
    (forall c, In c E -> dev E x c == 0).
Proof. exact planted_view_rows. Qed.
Print Assumptions C06_view_shows_planted_curve.

(** Origin-free form: differences of the master curve between two levels that
    carry data are the differences of the planted curve, whatever constant the
    alignment picked. *)
Theorem C06_master_curve_differences : forall E x (T : Z -> Q) k,
  (forall c, In c E -> x (e_series c) + e_val c == T (e_head c) + k) ->
  forall h h', (exists c, In c (at_head E h)) -> (exists c, In c (at_head E h')) ->
  head_mean E x h - head_mean E x h' == T h - T h'.
Proof. exact planted_curve_differences. Qed.
Print Assumptions C06_master_curve_differences.

(** "Up to the choice of origin", with the origin the commands actually use: after
    the writers' shift by the level mean at the reference level the constant is
    gone and the view shows T(level) - T(reference) at every listed level
    (hence 0 at the reference, C09). *)
Theorem C06_view_from_reference_is_planted_curve :
  forall offsets crossings grid step ref (T : Z -> Q) (k : Q),
  NoDup grid ->
  let E := aligned_entries offsets crossings in
  let x := offset_of offsets in
  (forall c, In c E -> x (e_series c) + e_val c == T (e_head c) + k) ->
  In ref (view_levels offsets crossings grid) ->
  forall h, In h (view_levels offsets crossings grid) ->
    exists v, In (inject_Z h * step, v)
                 (view_average (store_with_reference offsets crossings ref) crossings grid step) /\
              v == T h - T ref.
Proof. exact planted_view_from_reference. Qed.
Print Assumptions C06_view_from_reference_is_planted_curve.

(** The chain inside the model, end to end: result of the model of find_offsets
    on planted, connected data -> rows written to the offsets and crossings
    tables -> the writers' reference shift -> the view: T(level) - T(reference)
    at every level the view lists, with no hypothesis left about the stored
    values. *)
Theorem C06_solver_to_view_from_reference :
  forall (start_of : nat -> Z) hm sids offs grid step ref (T : Z -> Q) (cs : nat -> Q),
  find_offsets hm = Ok (sids, offs) ->
  NoDup grid ->
  (forall a b, In a sids -> In b sids -> start_of a = start_of b -> a = b) ->
  let E := entries_of (drop_single hm) in
  let O := written_offsets start_of sids offs in
  let Cr := written_crossings start_of (drop_single hm) in
  connected E ->
  (forall c, In c E -> e_val c == T (e_head c) - cs (e_series c)) ->
  In ref (view_levels O Cr grid) ->
  forall h, In h (view_levels O Cr grid) ->
    exists v, In (inject_Z h * step, v)
                 (view_average (store_with_reference O Cr ref) Cr grid step) /\
              v == T h - T ref.
Proof. exact planted_written_view_from_reference. Qed.
Print Assumptions C06_solver_to_view_from_reference.

(** ... and for the path the commands take (get_series_time_offsets: main body of
    the overlap graph first, then find_offsets): no connectivity hypothesis
    remains; data planted on the whole head mapping suffice, whatever smaller
    components and single-interval levels it also contains. *)
Theorem C06_main_body_to_view_from_reference :
  forall (start_of : nat -> Z) (hm : FitOffsets.head_mapping) sids offs levels grid step ref
         (T : Z -> Q) (cs : nat -> Q),
  NoDup (map fst hm) ->
  offsets_from_mapping hm = Ok (sids, offs, levels) ->
  NoDup grid ->
  (forall a b, In a sids -> In b sids -> start_of a = start_of b -> a = b) ->
  (forall c, In c (entries_of hm) -> e_val c == T (e_head c) - cs (e_series c)) ->
  exists main,
    find_offsets (main_sub hm main) = Ok (sids, offs) /\
    let O := written_offsets start_of sids offs in
    let Cr := written_crossings start_of (drop_single (main_sub hm main)) in
    In ref (view_levels O Cr grid) ->
    forall h, In h (view_levels O Cr grid) ->
      exists v, In (inject_Z h * step, v)
                   (view_average (store_with_reference O Cr ref) Cr grid step) /\
                v == T h - T ref.
Proof. exact planted_main_body_view. Qed.
Print Assumptions C06_main_body_to_view_from_reference.

(** Where the planted relation comes from on the rise side: with constant
    specific yield sigma (per grid step) the series rise.py builds for a storm is
    the chord (0, Y0) -> (sigma (Y1 - Y0), Y1); every crossing the regrid model
    (C12) reports for it is sigma k - sigma Y0, i.e. the hypothesis of the
    theorems above with T(k) = sigma k and c(interval) = sigma Y0. *)
Theorem C06_rise_piece_is_planted : forall (sigma Y0 Y1 : Q) (k : Z) (v : Q),
  In (k, v) (seg_out (0, Y0) (sigma * (Y1 - Y0), Y1)) ->
  v == sigma * inject_Z k - sigma * Y0.
Proof. exact rise_piece_is_planted. Qed.
Print Assumptions C06_rise_piece_is_planted.

(** ... and on the recession side: a piece starting at underlying time c, on a
    pair of consecutive samples between which the inverse curve (level -> time)
    is affine (the planted recession curve is linear on every sampling step):
    the reported crossing is the underlying time of the level minus c. *)
Theorem C06_recession_pair_is_planted : forall (c x0 Y0 x1 Y1 TY0 TY1 Tk : Q) (k : Z) (v : Q),
  TY0 == c + x0 -> TY1 == c + x1 ->
  Tk == TY0 + (inject_Z k - Y0) * (TY1 - TY0) / (Y1 - Y0) ->
  In (k, v) (seg_out (x0, Y0) (x1, Y1)) ->
  v == Tk - c.
Proof. exact recession_pair_is_planted. Qed.
Print Assumptions C06_recession_pair_is_planted.

Example C06_example_rise_piece :
  seg_out (0, 3 # 2) ((1 # 4) * ((9 # 2) - (3 # 2)), 9 # 2)
  = [(2%Z, cross 0 (3 # 2) ((1 # 4) * ((9 # 2) - (3 # 2))) (9 # 2) 2);
     (3%Z, cross 0 (3 # 2) ((1 # 4) * ((9 # 2) - (3 # 2))) (9 # 2) 3);
     (4%Z, cross 0 (3 # 2) ((1 # 4) * ((9 # 2) - (3 # 2))) (9 # 2) 4)].
Proof. vm_compute. reflexivity. Qed.

(** Non-vacuity: three pieces of T(h) = 10 - 2h with constants 0, 5, -3. *)
Example C06_example :
  find_offsets [(1%Z, [(0%nat, 8); (1%nat, 3)]); (2%Z, [(0%nat, 6); (1%nat, 1); (2%nat, 9)]);
                (3%Z, [(1%nat, -1); (2%nat, 7)])]
  = Ok ([0%nat; 1%nat; 2%nat], [3; 8; 0]).
Proof. vm_compute. reflexivity. Qed.

(** Non-vacuity of the main-body form: the same three pieces (T(h) = 10 - 2h,
    constants 0, 5, -3; level 9 planted with constants 10 and 8 for pieces 3, 4)
    plus a smaller component on level 9 and a level crossed by one piece alone;
    both are left out and the planted constants come back up to k = 3. *)
Example C06_example_main_body :
  offsets_from_mapping
    [(1%Z, [(0%nat, 8); (1%nat, 3)]); (2%Z, [(0%nat, 6); (1%nat, 1); (2%nat, 9)]);
     (3%Z, [(1%nat, -1); (2%nat, 7)]); (9%Z, [(3%nat, -18); (4%nat, -16)]); (4%Z, [(2%nat, 5)])]
  = Ok ([0%nat; 1%nat; 2%nat], [3; 8; 0], [1%Z; 2%Z; 3%Z]).
Proof. vm_compute. reflexivity. Qed.
