(** C06 — a planted master curve is recovered from its shifted pieces.

    Algebraic core, for every head mapping: if every crossing value is
    T(level) - c(interval) for one curve T (zero-residual data) and the overlap
    graph is connected, the offsets returned by the model of find_offsets equal
    c up to ONE common constant k, so offset + crossing value = T(level) + k for
    every piece at every level: the assembled curve is T up to the origin and all
    aligned pieces coincide.  The composition through load / classify / regrid
    (crossing positions exact on the lattice: C12) is tied by the command-level
    correspondence against planted datasets. *)
From Spowtd Require Import Model.FitOffsets Proofs.QSum Proofs.FitOffsetsSpec Proofs.FindOffsetsSpec.

Theorem C06_planted_curve_recovered : forall hm sids offs (T : Z -> Q) (cs : nat -> Q),
  find_offsets hm = Ok (sids, offs) ->
  let E := entries_of (drop_single hm) in
  let x := assignment sids offs in
  connected E ->
  (forall c, In c E -> e_val c == T (e_head c) - cs (e_series c)) ->
  exists k, (forall s, In s (ids E) -> x s == cs s + k) /\
            (forall c, In c E -> x (e_series c) + e_val c == T (e_head c) + k).
Proof. exact planted_recovered. Qed.
Print Assumptions C06_planted_curve_recovered.

(** Zero-residual data have spread zero at the planted constants. *)
Theorem C06_planted_has_zero_spread : forall E (T : Z -> Q) (cs : nat -> Q),
  (forall c, In c E -> e_val c == T (e_head c) - cs (e_series c)) ->
  (forall c, In c E -> dev E cs c == 0) /\ objective E cs == 0 /\ forall s, resid_sum E cs s == 0.
Proof. exact planted_is_exact. Qed.
Print Assumptions C06_planted_has_zero_spread.

(** Non-vacuity: three pieces of T(h) = 10 - 2h with constants 0, 5, -3. *)
Example C06_example :
  find_offsets [(1%Z, [(0%nat, 8); (1%nat, 3)]); (2%Z, [(0%nat, 6); (1%nat, 1); (2%nat, 9)]);
                (3%Z, [(1%nat, -1); (2%nat, 7)])]
  = Ok ([0%nat; 1%nat; 2%nat], [3; 8; 0]).
Proof. vm_compute. reflexivity. Qed.
