(** C19 — calibration files and simulation output describe the same problem.
    Statements only; proofs in Proofs/PestSpec.v, model in Model/Pest.v.

    Quantification: ALL parameter records (both parameterisations, any number of
    knots, any printed tokens without the template delimiter), ALL lists of
    measured / simulated values as printed tokens (any number of levels), ALL
    level sets.  Float <-> text conversions are oracles: they appear as
    universally quantified printer / reader pairs with a round-trip contract
    (tested on the real functions on every run).  PEST's reading of the three
    file kinds is modelled from the PEST manual (PEST is not installed). *)
From Coq Require Import String List ZArith.
From Spowtd Require Import Model.Util Model.Pest Proofs.PestSpec.
Open Scope string_scope.
Open Scope list_scope.

(** Counts: NPAR, NOBS, NPARGP, NPRIOR (0), NOBSGP read in free format from the
    count line are the numbers of lines of the sections (rise: given that the
    count of distinct levels equals the number of master-curve rows, checked on
    every dataset; NOBS must leave a blank in its 6-character field, i.e. have
    at most 5 digits — with 6 digits the fields run together). *)
Theorem C19_counts_rise : forall p nz obs,
  nz = List.length obs -> String.length (nat_str nz) <= 5 ->
  let f := rise_pst p nz obs in
  pst_counts f = Some [List.length (pst_section "* parameter data" f);
                       List.length (pst_section "* observation data" f);
                       List.length (pst_section "* parameter groups" f);
                       0;
                       List.length (pst_section "* observation groups" f)]
  /\ pst_section "* observation data" f = obs_lines "storageobs" 1 obs
  /\ pst_section "* parameter data" f = rise_par_data (sy_spline (p_sy p)) (rise_npar p).
Proof. exact rise_counts. Qed.
Print Assumptions C19_counts_rise.

Theorem C19_counts_curves : forall p robs cobs f,
  curves_pst p robs cobs = Ok f ->
  String.length (nat_str (List.length robs + List.length cobs)) <= 5 ->
  pst_counts f = Some [List.length (pst_section "* parameter data" f);
                       List.length (pst_section "* observation data" f);
                       List.length (pst_section "* parameter groups" f);
                       0;
                       List.length (pst_section "* observation groups" f)]
  /\ pst_section "* observation data" f
     = obs_lines "storageobs" 1 robs ++ obs_lines "timeobs" (List.length robs + 1) cobs.
Proof. exact curves_counts. Qed.
Print Assumptions C19_counts_curves.

(** Names: the control file's parameter names are the template's placeholders,
    compared as PEST compares names (case-insensitively: the code writes K_knot_i
    in the template and k_knot_i in the control file). *)
Theorem C19_names_rise : forall p nz obs, params_ok p ->
  exists holders, tpl_placeholders (rise_tpl p) = Ok holders
    /\ map lower (pst_par_names (rise_pst p nz obs)) = map lower holders.
Proof. exact rise_names. Qed.
Print Assumptions C19_names_rise.

Theorem C19_names_curves : forall p robs cobs f, params_ok p -> consistent p ->
  curves_pst p robs cobs = Ok f ->
  exists holders, tpl_placeholders (curves_tpl p) = Ok holders
    /\ map lower (pst_par_names f) = map lower holders.
Proof. exact curves_names. Qed.
Print Assumptions C19_names_curves.

(** Order: the control file lists recession observations by level descending,
    the simulator sorts ascending and reverses — the same order on distinct
    levels; rise uses one order on both sides. *)
Theorem C19_obs_order : forall (A : Type) (rows : list (Z * A)),
  pst_rise_order rows = sim_rise_order rows
  /\ (NoDup (map fst rows) -> pst_recession_order rows = sim_recession_order rows).
Proof.
  intros A rows. split; [apply rise_orders_agree | apply recession_orders_agree].
Qed.
Print Assumptions C19_obs_order.

(** The k-th observation of the control file is named e_k and its value reads
    back as the k-th measured value, for any printer / reader pair that
    round-trips and prints without blanks (contract of '{:0.17g}' / float()). *)
Theorem C19_observation_values_rise :
  forall (F : Type) (fmt : F -> string) (parse : string -> option F),
  (forall v, parse (fmt v) = Some v) -> (forall v, clean (fmt v)) ->
  forall p nz vals,
  map (fun o => parse (snd o)) (pst_obs (rise_pst p nz (map fmt vals))) = map Some vals.
Proof. exact rise_obs_values. Qed.
Print Assumptions C19_observation_values_rise.

Theorem C19_observation_values_curves :
  forall (F : Type) (fmt : F -> string) (parse : string -> option F),
  (forall v, parse (fmt v) = Some v) -> (forall v, clean (fmt v)) ->
  forall p rvals cvals f, curves_pst p (map fmt rvals) (map fmt cvals) = Ok f ->
  map (fun o => parse (snd o)) (pst_obs f) = map Some (rvals ++ cvals).
Proof. exact curves_obs_values. Qed.
Print Assumptions C19_observation_values_curves.

(** Lossless extraction under the guard "at most 22 characters": running the
    instruction file over the simulator's output gives, in order, exactly the
    printed values, under the names e_1, e_2, ... *)
Theorem C19_extract_lossless_rise : forall toks,
  Forall fits toks ->
  ins_read (rise_ins (List.length toks)) (sim_output rise_header toks)
  = Ok (combine (map obs_name (seq 1 (List.length toks))) toks).
Proof. exact rise_extract_lossless. Qed.
Print Assumptions C19_extract_lossless_rise.

Theorem C19_extract_lossless_curves : forall rt ct,
  Forall fits rt -> Forall fits ct ->
  ins_read (curves_ins (List.length rt) (List.length ct))
           (sim_output rise_header rt ++ sim_output recession_header ct)
  = Ok (combine (map obs_name (seq 1 (List.length rt + List.length ct))) (rt ++ ct)).
Proof. exact curves_extract_lossless. Qed.
Print Assumptions C19_extract_lossless_curves.

(** ... and the k-th extracted value is the one the control file calls by the
    same name: instruction file and control file agree on names and order. *)
Theorem C19_aligned_curves : forall p robs cobs f rsim csim,
  Forall clean robs -> Forall clean cobs -> curves_pst p robs cobs = Ok f ->
  Forall fits rsim -> Forall fits csim ->
  List.length rsim = List.length robs -> List.length csim = List.length cobs ->
  exists ext,
    ins_read (curves_ins (List.length robs) (List.length cobs))
             (sim_output rise_header rsim ++ sim_output recession_header csim) = Ok ext
    /\ map fst ext = map fst (pst_obs f)
    /\ map snd ext = rsim ++ csim.
Proof. exact curves_aligned. Qed.
Print Assumptions C19_aligned_curves.

Theorem C19_aligned_rise : forall p nz obs sim,
  Forall clean obs -> Forall fits sim -> List.length sim = List.length obs -> nz = List.length obs ->
  exists ext,
    ins_read (rise_ins nz) (sim_output rise_header sim) = Ok ext
    /\ map fst ext = map fst (pst_obs (rise_pst p nz obs))
    /\ map snd ext = sim.
Proof. exact rise_aligned. Qed.
Print Assumptions C19_aligned_rise.

(** Beyond the guard the extraction is NOT lossless (known finding
    C19/ins-width): a 23-character value, as PyYAML prints a negative 17-digit
    float with a two-digit exponent, loses its last character — and what is
    left is still a number, five orders of magnitude away. *)
Theorem C19_extract_lossless_refuted :
  let t := "-1.2345678901234568e-05" in
  String.length t = 23
  /\ ins_read (rise_ins 1) (sim_output rise_header [t]) = Ok [("e1", "-1.2345678901234568e-0")].
Proof. vm_compute. split; reflexivity. Qed.
Print Assumptions C19_extract_lossless_refuted.

(** Template round trip under the printable guard (every value is written as a
    text without blanks or '#', of at most 26 characters): filling succeeds, every
    line without a parameter space is unchanged, every parameter's line reads
    back — as the YAML scalar of that line — as the text written for it. *)
Theorem C19_template_roundtrip_rise : forall (val : string -> string),
  (forall name, printable (val name) /\ String.length (val name) <= 26) ->
  forall p, params_ok p ->
  exists filled, tpl_fill val (rise_tpl p) = Some filled
                 /\ Forall2 (line_ok val) (tl (rise_tpl p)) filled.
Proof. exact rise_tpl_roundtrip. Qed.
Print Assumptions C19_template_roundtrip_rise.

Theorem C19_template_roundtrip_curves : forall (val : string -> string),
  (forall name, printable (val name) /\ String.length (val name) <= 26) ->
  forall p, params_ok p ->
  exists filled, tpl_fill val (curves_tpl p) = Some filled
                 /\ Forall2 (line_ok val) (tl (curves_tpl p)) filled.
Proof. exact curves_tpl_roundtrip. Qed.
Print Assumptions C19_template_roundtrip_curves.

(** Non-vacuity: the repository's spline parameter file (6 + 4 knots) with three
    rise and two recession levels. *)
Definition ex_params : params :=
  {| p_sy := {| sy_spline := true;
                sy_zeta := ["-291.7"; "-183.1"; "-15.74"; "10.65"; "38.78"; "168.3"]; sy_n := 6 |};
     p_tr := TSpline ["-291.7"; "-5.167"; "168.3"; "1000"] ["0.005356"; "1.002"; "6577.0"; "8430.0"]
                     "7.442" |}.

Example C19_example :
  let robs := ["-98.631458750050527"; "-93.218678542710393"; "-89.013054694473084"] in
  let cobs := ["12.5"; "0.25"] in
  match curves_pst ex_params robs cobs with
  | Ok f =>
      pst_counts f = Some [11; 5; 3; 0; 2]
      /\ List.length (pst_section "* parameter data" f) = 11
      /\ map lower (pst_par_names f)
         = ["sy_knot_1"; "sy_knot_2"; "sy_knot_3"; "sy_knot_4"; "sy_knot_5"; "sy_knot_6";
            "k_knot_1"; "k_knot_2"; "k_knot_3"; "k_knot_4"; "t_min"]
      /\ res_eqb strings_eqb (tpl_placeholders (curves_tpl ex_params))
           (Ok ["sy_knot_1"; "sy_knot_2"; "sy_knot_3"; "sy_knot_4"; "sy_knot_5"; "sy_knot_6";
                "K_knot_1"; "K_knot_2"; "K_knot_3"; "K_knot_4"; "T_min"]) = true
      /\ pst_obs f = [("e1", "-98.631458750050527"); ("e2", "-93.218678542710393");
                      ("e3", "-89.013054694473084"); ("e4", "12.5"); ("e5", "0.25")]
      /\ ins_read (curves_ins 3 2)
           (sim_output rise_header ["-97.5"; "-93.0"; "-88.25"]
            ++ sim_output recession_header ["11.75"; "1.0e-05"])
         = Ok [("e1", "-97.5"); ("e2", "-93.0"); ("e3", "-88.25"); ("e4", "11.75"); ("e5", "1.0e-05")]
  | Err _ => False
  end.
Proof. vm_compute. repeat split; reflexivity. Qed.

Example C19_example_guards :
  params_ok ex_params /\ consistent ex_params
  /\ Forall fits ["-97.5"; "-93.0"; "1.0e-05"] /\ Forall clean ["-98.631458750050527"; "12.5"]
  /\ printable "0.13580000000000001" /\ String.length (nat_str 428) <= 5
  /\ sort_desc [(3, "c"); (1, "a"); (2, "b")]%Z = rev (sort_asc [(3, "c"); (1, "a"); (2, "b")]%Z).
Proof.
  assert (Hle : forall n m, Nat.leb n m = true -> n <= m) by (intros n m H; apply Nat.leb_le; exact H).
  split; [|split; [|split; [|split; [|split; [|split]]]]].
  - split; [|split; [|split]]; repeat (apply Forall_cons; [reflexivity|]); try apply Forall_nil; reflexivity.
  - reflexivity.
  - repeat (apply Forall_cons; [split; [apply Hle; reflexivity | reflexivity]|]). apply Forall_nil.
  - repeat (apply Forall_cons; [split; [discriminate | reflexivity]|]). apply Forall_nil.
  - split; [discriminate | split; reflexivity].
  - apply Hle. reflexivity.
  - reflexivity.
Qed.

(** Filled-template example: PEATCLSM curves template filled with PyYAML-style
    texts reads back the same texts. *)
Example C19_example_fill :
  let p := {| p_sy := {| sy_spline := false; sy_zeta := []; sy_n := 0 |};
              p_tr := TPeat "7.3" "3" "1.0" |} in
  let val := fun name => if String.eqb name "sd" then "0.162" else
                         if String.eqb name "Ksmacz0" then "1.0e-05" else "0.5" in
  match tpl_fill val (curves_tpl p) with
  | Some filled => map yaml_scalar filled
                   = [""; "peatclsm"; "0.162"; "0.5"; "0.5"; "0.5"; ""; "peatclsm"; "1.0e-05"; "0.5"; "1.0"]
  | None => False
  end.
Proof. vm_compute. reflexivity. Qed.
