(** C16 — PEATCLSM functions follow the published formulation.  Statements
    only; proofs are in Proofs/PeatclsmSpec.v and Proofs/PeatclsmSpec2.v.

    Model: Model/Peatclsm.v over the reals.  [sy_knot p N i] is the double loop
    of PeatclsmSpecificYield.get_Sy_soil + the surface term as the code writes
    it (accumulator, [1 / (1 * dz[i]) * A]); N = 201 is the Python code, N = 200
    the shipped R script ([sy_knot_R], transcribed - Rscript is not installed);
    [sy_peat p zeta] is the callable (order-1 spline through the 201 knots,
    clamped); [DB_profile] is the discretised Dettmann-Bechtold profile written
    from the paper's equations; [T_peat] is PeatclsmTransmissivity.__call__ on
    a scalar, [T_peat_array] on an array; [T_R] the R script's formula.

    Quantification: every parameter record [p] (the structural theorems need
    no hypothesis; bounds and the R comparison need [admissible p] = the PEST
    calibration bounds), every level index / every real water level; every
    real (Ksmacz0, alpha, zeta_max) and level for the transmissivity
    (positivity and monotonicity need Ksmacz0 > 0, alpha > 1).

    NOT proved here, established per case by certified [interval]/[integral]
    enclosures on every run of ./check C16: that the floats held by the
    implementation are within 1e-9 of [sy_knot p 201 i] (soundness of that
    acceptance test IS proved: C16_case_file_test_sound), and within the stated
    relative tolerance of [T_peat]. *)
From Coq Require Import Reals List ZArith QArith Qreals Lra.
From Coquelicot Require Import Coquelicot.
From Interval Require Import Tactic.
From Spowtd Require Import Model.Util Model.Transm Model.Peatclsm
  Proofs.PeatclsmSpec Proofs.PeatclsmSpec2.
Import ListNotations.
Open Scope R_scope.

(** ** Specific yield *)

(** The tabulated levels are -995, -985, ..., 1005 mm. *)
Theorem C16_tabulated_levels : forall i, knot_mm i = -995 + 10 * IZR i.
Proof. exact knot_mm_val. Qed.
Print Assumptions C16_tabulated_levels.

(** The code's double loop (any number of layers) is the discretised
    Dettmann-Bechtold soil profile plus the microtopography term. *)
Theorem C16_code_loop_is_published_profile : forall p N i, sy_knot p N i = DB_profile p N i.
Proof. exact sy_knot_is_DB_profile. Qed.
Print Assumptions C16_code_loop_is_published_profile.

(** At each of its 201 tabulated levels the callable returns the profile. *)
Theorem C16_sy_at_tabulated_levels : forall p (i : nat),
  (i <= 200)%nat -> sy_peat p (-995 + 10 * INR i) = DB_profile p 201 (Z.of_nat i).
Proof. exact sy_peat_at_knot_DB. Qed.
Print Assumptions C16_sy_at_tabulated_levels.

(** Linear in between (closed segments: both ends included). *)
Theorem C16_sy_linear_between : forall p (i : nat) zeta,
  (i < 200)%nat ->
  -995 + 10 * INR i <= zeta <= -995 + 10 * INR (S i) ->
  sy_peat p zeta
  = DB_profile p 201 (Z.of_nat i)
    + (DB_profile p 201 (Z.of_nat (S i)) - DB_profile p 201 (Z.of_nat i)) / 10
      * (zeta - (-995 + 10 * INR i)).
Proof. exact sy_peat_linear_between_DB. Qed.
Print Assumptions C16_sy_linear_between.

(** Constant beyond the first and the last tabulated level. *)
Theorem C16_sy_constant_below : forall p zeta, zeta <= -995 -> sy_peat p zeta = DB_profile p 201 0.
Proof. exact sy_peat_constant_below_DB. Qed.
Print Assumptions C16_sy_constant_below.

Theorem C16_sy_constant_above : forall p zeta, 1005 <= zeta -> sy_peat p zeta = DB_profile p 201 200.
Proof. exact sy_peat_constant_above_DB. Qed.
Print Assumptions C16_sy_constant_above.

(** The Campbell moisture of the model lies in (0, theta_s] and does not
    decrease as the water level rises (so every layer term is >= 0). *)
Theorem C16_campbell_bounds : forall p d, admissible p -> 0 < theta p d <= theta_s p.
Proof. exact theta_bounds. Qed.
Print Assumptions C16_campbell_bounds.

Theorem C16_campbell_monotone : forall p d1 d2, admissible p -> d1 <= d2 -> theta p d1 <= theta p d2.
Proof. exact theta_monotone. Qed.
Print Assumptions C16_campbell_monotone.

(** At the top level (1005 mm) every layer is saturated: the value is the
    microtopography term alone, for 200 and for 201 layers alike. *)
Theorem C16_top_level_closed_form : forall p N,
  admissible p -> (N <= 201)%nat -> sy_knot p N 200 = Phi_std (1005 / 1000 / sd p).
Proof. exact sy_knot_top. Qed.
Print Assumptions C16_top_level_closed_form.

(** The bottom layer is saturated at every tabulated level and contributes
    nothing (so a loop that skips it computes the same table). *)
Theorem C16_bottom_layer_never_contributes : forall p Phi i,
  admissible p -> (0 <= i)%Z -> layer p Phi i 0 = 0.
Proof. exact bottom_layer_zero. Qed.
Print Assumptions C16_bottom_layer_never_contributes.

(** ** The R reference (200 layers) against the Python code (201 layers) *)

(** Exact difference: the contribution of the 201st layer. *)
Theorem C16_python_minus_R_exact : forall p i,
  sy_knot p 201 i - sy_knot_R p i
  = (1 - Fs p 200) * (theta p (zu i - zm 200) - theta p (zl i - zm 200)).
Proof. exact py_minus_R_exact. Qed.
Print Assumptions C16_python_minus_R_exact.

(** Published parameter set (sd 0.162, theta_s 0.88, b 7.4, psi_s -0.024):
    the two agree within 1e-9 at every level; hence within the tolerance of the
    repository's own test (np.allclose: 1e-8 + 1e-5 |reference|; that form is
    Corollary py_vs_R_published_allclose in Proofs/PeatclsmSpec2.v). *)
Theorem C16_R_reproduced_published : forall i,
  Rabs (sy_knot published 201 i - sy_knot_R published i) <= 1 / 1000000000.
Proof. exact py_vs_R_published. Qed.
Print Assumptions C16_R_reproduced_published.

(** More generally for every admissible parameter set with sd <= 0.162 m
    (Gaussian tail bound + one certified integral). *)
Theorem C16_R_reproduced_small_sd : forall p i,
  admissible p -> sd p <= 162 / 1000 ->
  Rabs (sy_knot p 201 i - sy_knot_R p i) <= 1 / 1000000000.
Proof. exact py_vs_R_small_sd. Qed.
Print Assumptions C16_R_reproduced_small_sd.

(** For any admissible set the difference is at most theta_s |1 - F_s(top layer)|. *)
Theorem C16_R_difference_bound : forall p i,
  admissible p ->
  Rabs (sy_knot p 201 i - sy_knot_R p i) <= theta_s p * Rabs (1 - Fs p 200).
Proof. exact py_vs_R_bound. Qed.
Print Assumptions C16_R_difference_bound.

(** ... and the restriction matters: with sd = 1 m (admissible) the two differ
    by more than 5e-4 at level 985 mm. *)
Theorem C16_R_not_reproduced_for_sd_1 :
  admissible wide /\ 5 / 10000 <= sy_knot wide 201 198 - sy_knot_R wide 198.
Proof. exact py_vs_R_differs_sd_1. Qed.
Print Assumptions C16_R_not_reproduced_for_sd_1.

(** ** Soundness of the acceptance test run on every generated case:
    certified tables of the cdf and Campbell values within eps / eta, exact
    rational evaluation of the loop, error budget eps (1 + N theta_s) + 2 N eta M. *)
Theorem C16_case_file_test_sound : forall p PhiQ ThQ N i eps eta M ths v tol,
  admissible p ->
  (0 <= i < Z.of_nat N)%Z ->
  (forall j, In j (layers N) -> Rabs (Fs p j - Q2R (PhiQ j)) <= Q2R eps) ->
  (forall j, In j (layers N) -> Rabs (1 - Q2R (PhiQ j)) <= Q2R M) ->
  (forall k, In k (offsets N) -> Rabs (theta_at p k - Q2R (ThQ k)) <= Q2R eta) ->
  theta_s p = Q2R ths ->
  knot_checkQ ThQ PhiQ N i eps eta M ths v tol = true ->
  Rabs (sy_knot p N i - Q2R v) <= Q2R tol.
Proof. exact knot_enclosure_Q. Qed.
Print Assumptions C16_case_file_test_sound.

(** ** Transmissivity *)

(** Below the ceiling: Ksmacz0 (zeta_max - zeta)^(1 - alpha) / (100 (alpha - 1)),
    zeta = level in cm = level_mm / 10.  No hypothesis on Ksmacz0 and alpha. *)
Theorem C16_T_formula : forall Ks alpha zmax zeta_mm,
  zeta_mm / 10 < zmax ->
  T_peat Ks alpha zmax zeta_mm
  = Ok (Some (Ks * Rpower (zmax - zeta_mm / 10) (1 - alpha) / (100 * (alpha - 1)))).
Proof. exact T_peat_explicit. Qed.
Print Assumptions C16_T_formula.

(** Refused (ValueError) exactly above the ceiling; no other exception. *)
Theorem C16_T_refused_iff_above_ceiling : forall Ks alpha zmax zeta_mm,
  T_peat Ks alpha zmax zeta_mm = Err EValue <-> zmax < zeta_mm / 10.
Proof. exact T_peat_refused_iff. Qed.
Print Assumptions C16_T_refused_iff_above_ceiling.

Theorem C16_T_only_value_error : forall Ks alpha zmax zeta_mm e,
  T_peat Ks alpha zmax zeta_mm = Err e -> e = EValue.
Proof. exact T_peat_never_other_error. Qed.
Print Assumptions C16_T_only_value_error.

(** At the ceiling itself the code is not refused and returns no finite value
    (0.0 ** (1 - alpha) = inf for alpha > 1): [None]. *)
Theorem C16_T_at_ceiling : forall Ks alpha zmax zeta_mm,
  zeta_mm / 10 = zmax -> T_peat Ks alpha zmax zeta_mm = Ok None.
Proof. exact T_peat_at_ceiling. Qed.
Print Assumptions C16_T_at_ceiling.

Theorem C16_T_positive : forall Ks alpha zmax zeta_mm,
  0 < Ks -> 1 < alpha -> 0 < T_formula Ks alpha zmax zeta_mm.
Proof. exact T_formula_positive. Qed.
Print Assumptions C16_T_positive.

(** alpha > 1: transmissivity grows as the level rises towards the ceiling. *)
Theorem C16_T_increasing : forall Ks alpha zmax z1 z2,
  0 < Ks -> 1 < alpha -> z1 < z2 -> z2 / 10 < zmax ->
  T_formula Ks alpha zmax z1 < T_formula Ks alpha zmax z2.
Proof. exact T_formula_increasing. Qed.
Print Assumptions C16_T_increasing.

(** Array argument: element-wise the scalar result; refused iff some element
    is above the ceiling, and then with ValueError. *)
Theorem C16_T_array_is_elementwise : forall Ks alpha zmax zs vs,
  T_peat_array Ks alpha zmax zs = Ok vs <-> Forall2 (fun z v => T_peat Ks alpha zmax z = Ok v) zs vs.
Proof. exact T_peat_array_ok_iff. Qed.
Print Assumptions C16_T_array_is_elementwise.

Theorem C16_T_array_refused_iff : forall Ks alpha zmax zs,
  (exists e, T_peat_array Ks alpha zmax zs = Err e) <-> Exists (fun z => zmax < z / 10) zs.
Proof. exact T_peat_array_refused_iff. Qed.
Print Assumptions C16_T_array_refused_iff.

Theorem C16_T_array_only_value_error : forall Ks alpha zmax zs e,
  T_peat_array Ks alpha zmax zs = Err e -> e = EValue.
Proof. exact T_peat_array_only_value_error. Qed.
Print Assumptions C16_T_array_only_value_error.

(** The R reference (ceiling 1 cm built in, level in metres) is reproduced
    for every (Ksmacz0, alpha) at every level below 1 cm - in particular on its
    whole table 0, -0.01, ..., -1.5 m. *)
Theorem C16_T_reproduces_R : forall Ks alpha z_m,
  z_m * 100 < 1 -> T_peat Ks alpha 1 (1000 * z_m) = Ok (Some (T_R Ks alpha z_m)).
Proof. exact T_peat_reproduces_R. Qed.
Print Assumptions C16_T_reproduces_R.

(** ** Non-vacuity *)

Example C16_example_published_admissible : admissible published.
Proof. exact published_admissible. Qed.

(** The bounds of [admissible] are attained. *)
Example C16_example_admissible_corners :
  admissible {| sd := 2; theta_s := 1; b_shape := 20; psi_s := -1 |} /\
  admissible {| sd := 1 / 1000; theta_s := 1 / 100; b_shape := 1 / 100; psi_s := -1 / 100 |}.
Proof. unfold admissible; simpl. lra. Qed.

(** Published set, far above the last knot: the callable returns the top
    knot, which is the cdf at 1005/162 standard deviations, within 1e-9 of 1
    (the implementation holds 0.9999999997260833). *)
Example C16_example_value_above :
  Rabs (sy_peat published 5000 - 0.9999999997260833) <= 1 / 1000000000.
Proof.
  rewrite sy_peat_constant_above by lra.
  rewrite (sy_knot_top published 201 published_admissible (le_n _)).
  replace (1005 / 1000 / sd published) with (1005 / 162) by (simpl; field).
  assert (H := Phi_at_top_published). apply Rabs_le. lra.
Qed.

(** Published transmissivity parameters (7.3, 3, 1 cm) at -500 mm:
    7.3 * 51^-2 / 200 (the implementation returns 1.4033064206074586e-05). *)
Example C16_example_T_value :
  exists t, T_peat (73 / 10) 3 1 (-500) = Ok (Some t) /\
            Rabs (t - 1.4033064206074586e-05) <= 1 / 100000000000000000.
Proof.
  eexists. split; [apply T_peat_below_ceiling; lra|].
  unfold T_formula. interval with (i_prec 80).
Qed.

Example C16_example_T_refused : T_peat (73 / 10) 3 1 10.5 = Err EValue.
Proof. apply T_peat_refused_iff. lra. Qed.

Example C16_example_T_array_refused :
  exists e, T_peat_array (73 / 10) 3 1 [-500; 10.5; 0] = Err e.
Proof. apply T_peat_array_refused_iff. apply Exists_cons_tl, Exists_cons_hd. lra. Qed.
