(** C17 — the simulated rise curve is the integral of specific yield.

    Statements only; proofs in Proofs/SimRiseSpec.v (any integrator that is the
    increment of one function) and Proofs/SimRiseSplineSpec.v (the spline
    wrapper of C14 under the FITPACK contract).  Model: Model/SimRise.v
    (compute_rise_curve and the command `spowtd simulate rise`). *)
From Coq Require Import Reals List Sorted Permutation.
From Coquelicot Require Import Coquelicot.
From Coq Require Import QArith.
From Spowtd Require Import Model.SimRise Model.SplineWrapPP Proofs.SplineWrapSpec
  Proofs.SplineWrapPPSpec Proofs.SimRiseSpec Proofs.SimRiseSplineSpec.
Import ListNotations.
Local Open Scope R_scope.

(** Difference of storage between any two grid levels = integrate between
    them; [integrate] is the wrapper of C14 (all positions of the grid
    relative to the knot range). *)
Theorem C17_diff :
  forall (xmin xmax : R) (ev : R -> R) (splint : R -> R -> R) (P : R -> R),
    xmin < xmax ->
    (forall a b, xmin <= a -> a <= b -> b <= xmax -> splint a b = P b - P a) ->
    (forall a, xmax <= a -> splint a xmax = 0) ->
    forall grid m W,
      rise_curve Rops (integrate Rops xmin xmax ev splint) grid m = Ok W ->
      forall i j d, (i < length grid)%nat -> (j < length grid)%nat ->
        nth j W d - nth i W d =
        integrate Rops xmin xmax ev splint (nth i grid d) (nth j grid d).
Proof. exact spline_curve_diff. Qed.
Print Assumptions C17_diff.

(** ... and that is the Riemann integral of the clamped specific yield, when
    inside the knots splint is the integral of splev (FITPACK contract). *)
Theorem C17_diff_is_integral :
  forall (xmin xmax : R) (ev : R -> R) (splint : R -> R -> R) (P : R -> R),
    xmin < xmax ->
    (forall a b, xmin <= a -> a <= b -> b <= xmax -> splint a b = P b - P a) ->
    (forall a, xmax <= a -> splint a xmax = 0) ->
    (forall a b, xmin <= a -> a <= b -> b <= xmax -> is_RInt ev a b (P b - P a)) ->
    forall grid m W,
      rise_curve Rops (integrate Rops xmin xmax ev splint) grid m = Ok W ->
      forall i j d, (i < length grid)%nat -> (j < length grid)%nat ->
        nth j W d - nth i W d =
        RInt (call Rops xmin xmax ev) (nth i grid d) (nth j grid d).
Proof. exact spline_curve_diff_RInt. Qed.
Print Assumptions C17_diff_is_integral.

(** Refinement invariance: two grids (e.g. a grid and any refinement), any
    requested means: differences between shared levels coincide ... *)
Theorem C17_refinement :
  forall (xmin xmax : R) (ev : R -> R) (splint : R -> R -> R) (P : R -> R),
    xmin < xmax ->
    (forall a b, xmin <= a -> a <= b -> b <= xmax -> splint a b = P b - P a) ->
    (forall a, xmax <= a -> splint a xmax = 0) ->
    forall grid1 grid2 m1 m2 W1 W2,
      rise_curve Rops (integrate Rops xmin xmax ev splint) grid1 m1 = Ok W1 ->
      rise_curve Rops (integrate Rops xmin xmax ev splint) grid2 m2 = Ok W2 ->
      forall i j i' j' d,
        (i < length grid1)%nat -> (j < length grid1)%nat ->
        (i' < length grid2)%nat -> (j' < length grid2)%nat ->
        nth i grid1 d = nth i' grid2 d -> nth j grid1 d = nth j' grid2 d ->
        nth j W1 d - nth i W1 d = nth j' W2 d - nth i' W2 d.
Proof. exact spline_curve_shared_levels. Qed.
Print Assumptions C17_refinement.

(** ... and the values themselves move by one common constant (the change of
    the mean shift), the same at every shared level. *)
Theorem C17_refinement_common_shift :
  forall (xmin xmax : R) (ev : R -> R) (splint : R -> R -> R) (P : R -> R),
    xmin < xmax ->
    (forall a b, xmin <= a -> a <= b -> b <= xmax -> splint a b = P b - P a) ->
    (forall a, xmax <= a -> splint a xmax = 0) ->
    forall grid1 grid2 m1 m2 W1 W2,
      rise_curve Rops (integrate Rops xmin xmax ev splint) grid1 m1 = Ok W1 ->
      rise_curve Rops (integrate Rops xmin xmax ev splint) grid2 m2 = Ok W2 ->
      exists c, forall i i' d,
        (i < length grid1)%nat -> (i' < length grid2)%nat ->
        nth i grid1 d = nth i' grid2 d ->
        nth i' W2 d = nth i W1 d + c.
Proof. exact spline_curve_common_shift. Qed.
Print Assumptions C17_refinement_common_shift.

(** Never decreasing with level when specific yield is non-negative. *)
Theorem C17_monotone :
  forall (xmin xmax : R) (ev : R -> R) (splint : R -> R -> R) (P : R -> R),
    xmin < xmax ->
    (forall a b, xmin <= a -> a <= b -> b <= xmax -> splint a b = P b - P a) ->
    (forall a, xmax <= a -> splint a xmax = 0) ->
    (forall a b, xmin <= a -> a <= b -> b <= xmax -> is_RInt ev a b (P b - P a)) ->
    (forall x, xmin <= x <= xmax -> 0 <= ev x) ->
    forall grid m W,
      rise_curve Rops (integrate Rops xmin xmax ev splint) grid m = Ok W ->
      (forall i j d, (i <= j)%nat -> (j < length grid)%nat -> nth i grid d <= nth j grid d) ->
      forall i j d, (i <= j)%nat -> (j < length grid)%nat -> nth i W d <= nth j W d.
Proof. exact spline_curve_monotone. Qed.
Print Assumptions C17_monotone.

(** The mean of the returned curve is the requested mean; no hypothesis on the
    integrator.  (A curve is returned only for a non-empty grid.) *)
Theorem C17_mean :
  forall (integ : R -> R -> R) grid m W,
    rise_curve Rops integ grid m = Ok W -> fmean Rops W = m.
Proof. exact curve_mean. Qed.
Print Assumptions C17_mean.

(** The same three facts for ANY integrator that is the increment of one
    function (covers every specific-yield class, e.g. PEATCLSM). *)
Theorem C17_diff_generic :
  forall (integ : R -> R -> R) (G : R -> R),
    (forall a b, integ a b = G b - G a) ->
    forall grid m W, rise_curve Rops integ grid m = Ok W ->
    forall i j d, (i < length grid)%nat -> (j < length grid)%nat ->
      nth j W d - nth i W d = integ (nth i grid d) (nth j grid d).
Proof. exact curve_diff. Qed.
Print Assumptions C17_diff_generic.

Theorem C17_refinement_generic :
  forall (integ : R -> R -> R) (G : R -> R),
    (forall a b, integ a b = G b - G a) ->
    forall grid1 grid2 m1 m2 W1 W2,
      rise_curve Rops integ grid1 m1 = Ok W1 -> rise_curve Rops integ grid2 m2 = Ok W2 ->
      forall i j i' j' d,
        (i < length grid1)%nat -> (j < length grid1)%nat ->
        (i' < length grid2)%nat -> (j' < length grid2)%nat ->
        nth i grid1 d = nth i' grid2 d -> nth j grid1 d = nth j' grid2 d ->
        nth j W1 d - nth i W1 d = nth j' W2 d - nth i' W2 d.
Proof. exact curve_shared_levels. Qed.
Print Assumptions C17_refinement_generic.

Theorem C17_refinement_common_shift_generic :
  forall (integ : R -> R -> R) (G : R -> R),
    (forall a b, integ a b = G b - G a) ->
    forall grid1 grid2 m1 m2 W1 W2,
      rise_curve Rops integ grid1 m1 = Ok W1 -> rise_curve Rops integ grid2 m2 = Ok W2 ->
      exists c, forall i i' d,
        (i < length grid1)%nat -> (i' < length grid2)%nat ->
        nth i grid1 d = nth i' grid2 d -> nth i' W2 d = nth i W1 d + c.
Proof. exact curve_common_shift. Qed.
Print Assumptions C17_refinement_common_shift_generic.

Theorem C17_monotone_generic :
  forall (integ : R -> R -> R) (G : R -> R),
    (forall a b, integ a b = G b - G a) ->
    (forall a b, a <= b -> 0 <= integ a b) ->
    forall grid m W, rise_curve Rops integ grid m = Ok W ->
      (forall i j d, (i <= j)%nat -> (j < length grid)%nat -> nth i grid d <= nth j grid d) ->
      forall i j d, (i <= j)%nat -> (j < length grid)%nat -> nth i W d <= nth j W d.
Proof. exact curve_monotone. Qed.
Print Assumptions C17_monotone_generic.

(** The command's table: one row per level of the measured master curve,
    ascending, (level, measured, simulated); the simulated column is the curve
    on those levels centred on the mean of the measured column. *)
Theorem C17_rows :
  forall (integ : R -> R -> R) view rows,
    simulate_rise Rops integ view = Ok rows ->
    Permutation view (sort_rows Rops view) /\ Sorted by_level (sort_rows Rops view) /\
    map (fun r : R * R * R => (fst (fst r), snd (fst r))) rows = sort_rows Rops view /\
    rise_curve Rops integ (map fst (sort_rows Rops view))
               (fmean Rops (map snd (sort_rows Rops view))) = Ok (map snd rows).
Proof. exact simulate_rise_rows. Qed.
Print Assumptions C17_rows.

(** --observations writes the third column of that table. *)
Theorem C17_observations :
  forall (integ : R -> R -> R) view rows,
    simulate_rise Rops integ view = Ok rows ->
    simulate_rise_observations Rops integ view = Ok (map snd rows).
Proof. exact simulate_rise_observations_spec. Qed.
Print Assumptions C17_observations.

(** ---- oracle-free, over the exact splines of Model/SplineWrapPP.v *)

(** Any piecewise polynomial starting each piece at its knot and taking the
    knot values at the ends of each piece (both the order-1 spline and every
    cubic accepted by [nak_check] do): storage differences ARE the Riemann
    integral of the clamped specific yield; nothing is assumed. *)
Theorem C17_diff_exact :
  forall (knots values : list R) (segs : list (seg (F:=R))),
    (2 <= length knots)%nat -> incr_list knots -> interp_spec knots values segs ->
    forall grid m W,
      rise_curve Rops (pp_integrate Rops knots segs) grid m = Ok W ->
      forall i j d, (i < length grid)%nat -> (j < length grid)%nat ->
        nth j W d - nth i W d = RInt (pp_call Rops knots segs) (nth i grid d) (nth j grid d).
Proof. exact exact_curve_diff_RInt. Qed.
Print Assumptions C17_diff_exact.

Theorem C17_monotone_exact :
  forall (knots values : list R) (segs : list (seg (F:=R))),
    (2 <= length knots)%nat -> incr_list knots -> interp_spec knots values segs ->
    (forall x, pp_xmin Rops knots <= x <= pp_xmax Rops knots -> 0 <= pp_eval Rops segs x) ->
    forall grid m W,
      rise_curve Rops (pp_integrate Rops knots segs) grid m = Ok W ->
      (forall i j d, (i <= j)%nat -> (j < length grid)%nat -> nth i grid d <= nth j grid d) ->
      forall i j d, (i <= j)%nat -> (j < length grid)%nat -> nth i W d <= nth j W d.
Proof. exact exact_curve_monotone. Qed.
Print Assumptions C17_monotone_exact.

(** Order 1, all knots and values: the shape of the PEATCLSM specific yield. *)
Theorem C17_diff_linear :
  forall knots values, (2 <= length knots)%nat -> incr_list knots ->
    length values = length knots ->
    forall grid m W,
      rise_curve Rops (pp_integrate Rops knots (lin_pp Rops knots values)) grid m = Ok W ->
      forall i j d, (i < length grid)%nat -> (j < length grid)%nat ->
        nth j W d - nth i W d
        = RInt (pp_call Rops knots (lin_pp Rops knots values)) (nth i grid d) (nth j grid d).
Proof. exact linear_curve_diff_RInt. Qed.
Print Assumptions C17_diff_linear.

(** Non-vacuity (rational instance, computed): the linear spline through
    (0,1),(1,2),(3,0) on a grid straddling both ends, requested mean 10:
    increments 1, 3/2, 3/2, 1/2, 0; the curve and its mean. *)
Example C17_example_curve :
  let knots := [0; 1; 3]%Q in
  let integ := Qpp_integrate knots (Qlin_pp knots [1; 2; 0]%Q) in
  match rise_curve Qops integ [-1; 0; 1; 2; 3; 5]%Q 10%Q with
  | Ok W => (list_eqb Qeq_bool W [29 # 4; 33 # 4; 39 # 4; 45 # 4; 47 # 4; 47 # 4]%Q
             && Qeq_bool (fmean Qops W) 10)%bool
  | Err _ => false
  end = true.
Proof. vm_compute. reflexivity. Qed.

(** Non-vacuity: the command on a three-level master curve handed over out of
    order; and the failure without any level. *)
Example C17_example_command :
  let knots := [0; 1; 3]%Q in
  let integ := Qpp_integrate knots (Qlin_pp knots [1; 2; 0]%Q) in
  (match simulate_rise Qops integ [(1, 8); (-1, 5); (0, 2)]%Q with
   | Ok rows => list_eqb (fun a b => match a, b with (x, y, z), (x', y', z') =>
                            Qeq_bool x x' && Qeq_bool y y' && Qeq_bool z z' end)
                         rows [(-1, 5, 23 # 6); (0, 2, 29 # 6); (1, 8, 19 # 3)]%Q
   | Err _ => false
   end
   && match simulate_rise Qops integ [] with Err EValue => true | _ => false end
   && match rise_curve Qops integ [] 0%Q with Err EIndex => true | _ => false end)%bool = true.
Proof. vm_compute. reflexivity. Qed.
