(** C10 — loaded series reproduce the source data on one uniform time grid.

    Statements only; proofs are in Proofs/Load*.v.  Quantification: all triples
    of input files as lists of (epoch, value) rows in any order, all values
    (exact rationals; a binary64 value is one), all offsets between the three
    records, any water-level sampling, any number and position of gaps.
    [load_model false tz rain et wl = Ok L] says that the load into a fresh
    data file succeeded and produced the tables L.

    Vocabulary (Proofs/LoadSpec.v, Proofs/LoadLevel.v, Proofs/LoadGrid.v):
    - [in_span (keys wl) e]: e lies between the smallest and the largest
      water-level epoch;  [span_grid rain wl G]: G is the increasing list of the
      rainfall epochs within that span;
    - [adjacent wl ra rb]: ra, rb are source samples, ra before rb, no sample
      strictly between them;
    - [is_gap wl u v]: u, v are the epochs of adjacent samples further apart than
      some other pair of adjacent samples (than the smallest source step);
    - [in_a_gap wl g]: g lies strictly inside a gap. *)
From Spowtd Require Import Model.Load Proofs.LoadStage Proofs.LoadGrid Proofs.LoadLevel Proofs.LoadSpec.
From Coq Require Import Permutation QArith Lia.
From Coq Require String.
Local Open Scope Z_scope.

(** The time grid = the rainfall timestamps within the span of the water-level
    record, in time order, plus one closing instant one step after the last. *)
Theorem C10_grid : forall pop tz rain et wl L, load_model pop tz rain et wl = Ok L ->
  exists G, span_grid rain wl G /\ grid_epochs L = G ++ [last_Z G + ld_step L].
Proof. exact load_grid. Qed.
Print Assumptions C10_grid.

(** ... uniformly spaced by the recorded (positive) step, closing instant
    included; at least two steps' starts. *)
Theorem C10_uniform : forall pop tz rain et wl L, load_model pop tz rain et wl = Ok L ->
  0 < ld_step L /\ (3 <= length (grid_epochs L))%nat /\
  forall i, (i < length (grid_epochs L))%nat ->
            nth i (grid_epochs L) 0 = nth 0 (grid_epochs L) 0 + Z.of_nat i * ld_step L.
Proof. exact load_uniform. Qed.
Print Assumptions C10_uniform.

(** Rainfall: exactly one row per grid step [f, f + step), in time order,
    carrying unchanged the value of the source row with timestamp f. *)
Theorem C10_rain_verbatim : forall pop tz rain et wl L, load_model pop tz rain et wl = Ok L ->
  (forall f t v, In (f, t, v) (ld_rain L) <->
                 In (f, v) rain /\ In f (removelast (grid_epochs L)) /\ t = f + ld_step L) /\
  map (fun r : step_row => fst (fst r)) (ld_rain L) = removelast (grid_epochs L).
Proof. exact load_rain_verbatim. Qed.
Print Assumptions C10_rain_verbatim.

(** Evapotranspiration: the same. *)
Theorem C10_et_verbatim : forall pop tz rain et wl L, load_model pop tz rain et wl = Ok L ->
  (forall f t v, In (f, t, v) (ld_et L) <->
                 In (f, v) et /\ In f (removelast (grid_epochs L)) /\ t = f + ld_step L) /\
  map (fun r : step_row => fst (fst r)) (ld_et L) = removelast (grid_epochs L).
Proof. exact load_et_verbatim. Qed.
Print Assumptions C10_et_verbatim.

(** Water level stored at grid instant g: the source value itself when g is a
    source instant; otherwise za + (g - ta)(zb - za)/(tb - ta) for the adjacent
    source samples (ta,za), (tb,zb) around g, computed as the code computes it
    ([lerp]), and those two samples are not the two sides of a gap.  One of the
    two cases always applies (never an extrapolation). *)
Theorem C10_interp : forall pop tz rain et wl L g z, load_model pop tz rain et wl = Ok L ->
  In (g, z) (ld_wl L) ->
  (forall zs, In (g, zs) wl -> z = zs) /\
  (forall ra rb, adjacent wl ra rb -> fst ra < g < fst rb ->
     z = lerp ra rb g /\
     (z == snd ra + inject_Z (g - fst ra) * (snd rb - snd ra) / inject_Z (fst rb - fst ra))%Q /\
     ~ is_gap wl (fst ra) (fst rb)) /\
  ((exists zs, In (g, zs) wl) \/ (exists ra rb, adjacent wl ra rb /\ fst ra < g < fst rb)).
Proof. exact load_interp. Qed.
Print Assumptions C10_interp.

(** Which instants receive a water level: exactly the starts of the grid steps
    that do not lie strictly inside a gap (one row each, in time order).  The
    closing instant never receives one. *)
Theorem C10_wl_rows : forall pop tz rain et wl L, load_model pop tz rain et wl = Ok L ->
  incr (keys (ld_wl L)) /\
  forall g, In g (keys (ld_wl L)) <-> In g (removelast (grid_epochs L)) /\ ~ in_a_gap wl g.
Proof. exact load_wl_rows. Qed.
Print Assumptions C10_wl_rows.

(** No water level and no label strictly inside a gap. *)
Theorem C10_no_value_in_gap : forall pop tz rain et wl L g, load_model pop tz rain et wl = Ok L ->
  in_a_gap wl g ->
  ~ In g (keys (ld_wl L)) /\ forall lab, In (g, lab) (ld_grid L) -> lab = None.
Proof. exact load_no_value_in_gap. Qed.
Print Assumptions C10_no_value_in_gap.

(** Each grid instant has one grid_time row; it is unlabelled iff it lies
    strictly inside a gap. *)
Theorem C10_unlabelled_iff : forall pop tz rain et wl L g, load_model pop tz rain et wl = Ok L ->
  NoDup (grid_epochs L) /\
  (In (g, None) (ld_grid L) <-> In g (grid_epochs L) /\ in_a_gap wl g).
Proof. exact load_unlabelled_iff. Qed.
Print Assumptions C10_unlabelled_iff.

(** Labels are equal within a stretch and distinct across a gap. *)
Theorem C10_labels : forall pop tz rain et wl L g g' k k', load_model pop tz rain et wl = Ok L ->
  In (g, Some k) (ld_grid L) -> In (g', Some k') (ld_grid L) -> g <= g' ->
  (k = k' <-> ~ exists u v, is_gap wl u v /\ g <= u /\ v <= g').
Proof. exact load_labels. Qed.
Print Assumptions C10_labels.

(** The order of the rows in the three files is irrelevant — for the tables
    and for a refusal alike. *)
Theorem C10_row_order_irrelevant : forall pop tz rain et wl rain' et' wl',
  Permutation rain rain' -> Permutation et et' -> Permutation wl wl' ->
  load_model pop tz rain et wl = load_model pop tz rain' et' wl'.
Proof. exact load_row_order_irrelevant. Qed.
Print Assumptions C10_row_order_irrelevant.

(** Non-vacuity: rainfall every 10 s from -10 to 70; water level every 4 s from
    -2 to 54 with the samples 22 and 26 missing (a gap 18..30 around the grid
    instant 20); rows out of order.  The grid is 0..60 (the closing instant 60
    is past the last sample 54); 20 carries neither a label nor a value; 0, 10
    are interpolated between off-grid samples; labels 1 | 2. *)
Import String.
Local Open Scope string_scope.
Definition R (t n : Z) (d : positive) : row := (t, Qmake n d).
Definition S3 (f t n : Z) (d : positive) : step_row := (f, t, Qmake n d).
Definition ex_rain : list row :=
  [R 30 2 1; R (-10) 9 1; R 0 0 1; R 10 1 2; R 20 0 1; R 40 0 1; R 50 3 4; R 60 7 1; R 70 8 1].
Definition ex_et : list row :=
  [R 60 1 10; R 0 1 10; R 10 2 10; R 20 3 10; R 30 4 10; R 40 5 10; R 50 6 10].
Definition ex_wl : list row :=
  [R (-2) (-100) 1; R 2 (-96) 1; R 6 (-90) 1; R 10 (-91) 1; R 14 (-92) 1; R 18 (-93) 1;
   R 30 (-80) 1; R 34 (-81) 1; R 38 (-82) 1; R 42 (-85) 1; R 54 (-70) 1; R 46 (-84) 1; R 50 (-83) 1].

Example C10_example :
  match load_model false "UTC" ex_rain ex_et ex_wl with
  | Ok L =>
      ld_step L = 10 /\
      ld_grid L = [(0, Some 1); (10, Some 1); (20, None); (30, Some 2); (40, Some 2);
                   (50, Some 2); (60, Some 2)] /\
      ld_rain L = [S3 0 10 0 1; S3 10 20 1 2; S3 20 30 0 1; S3 30 40 2 1; S3 40 50 0 1; S3 50 60 3 4] /\
      map (fun r => (fst r, Qred (snd r))) (ld_wl L)
      = [R 0 (-98) 1; R 10 (-91) 1; R 30 (-80) 1; R 40 (-167) 2; R 50 (-83) 1]
  | Err _ => False
  end.
Proof. vm_compute. repeat split. Qed.

Example C10_example_gap : is_gap ex_wl 18 30 /\ in_a_gap ex_wl 20.
Proof.
  assert (G : is_gap ex_wl 18 30).
  { split.
    - exists (-93#1)%Q, (-80#1)%Q. unfold adjacent, ex_wl, R. simpl. repeat split; try tauto; try lia.
      intros r Hr. repeat (destruct Hr as [<-|Hr]; [simpl; lia|]). destruct Hr.
    - exists (R (-2) (-100) 1), (R 2 (-96) 1). split; [|simpl; lia].
      unfold adjacent, ex_wl, R. simpl. repeat split; try tauto; try lia.
      intros r Hr. repeat (destruct Hr as [<-|Hr]; [simpl; lia|]). destruct Hr. }
  split; [exact G|]. exists 18, 30. split; [exact G|lia].
Qed.
