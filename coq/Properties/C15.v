(** C15 — spline transmissivity is the minimum plus the integral of a
    conductivity whose logarithm is linear between knots.  Statements only;
    proofs are in Proofs/TransmSpec.v.  Quantification: every strictly
    increasing knot list (any length >= 1) with positive conductivities, every
    real minimum transmissivity, every real level. *)
From Coq Require Import Reals List Lra.
From Coquelicot Require Import Coquelicot.
From Interval Require Import Tactic.
From Spowtd Require Import Model.Util Model.Transm Proofs.TransmSpec.
Import ListNotations.
Open Scope R_scope.

(** The conductivity that is integrated: its logarithm is the straight line
    through (z_i, ln K_i), (z_i+1, ln K_i+1) between two consecutive knots. *)
Theorem C15_log_conductivity_linear_between_knots : forall pre z0 k0 z1 k1 post z,
  increasing (pre ++ (z0, k0) :: (z1, k1) :: post) -> z0 <= z <= z1 ->
  ln (K_math (pre ++ (z0, k0) :: (z1, k1) :: post) z)
  = ln k0 + (ln k1 - ln k0) / (z1 - z0) * (z - z0).
Proof. exact K_math_log_linear. Qed.
Print Assumptions C15_log_conductivity_linear_between_knots.

(** From the lowest knot up to any level z the conductivity is integrable and
    its integral is the closed form (sum over the segments below z of
    (K_i exp(b_i (z' - z_i)) - K_i) / b_i, or K_i (z' - z_i) when b_i = 0). *)
Theorem C15_integral_closed_form : forall z0 k0 rest z,
  increasing ((z0, k0) :: rest) -> positive_K ((z0, k0) :: rest) -> z0 <= z ->
  is_RInt (K_math ((z0, k0) :: rest)) z0 z (closed_above z0 k0 rest z).
Proof. exact K_math_is_RInt. Qed.
Print Assumptions C15_integral_closed_form.

(** Minimum + integral = the closed form the case files evaluate, all levels. *)
Theorem C15_closed_form : forall knots Tmin z,
  increasing knots -> positive_K knots -> knots <> [] ->
  T_math knots Tmin z = T_closed knots Tmin z.
Proof. exact T_math_closed. Qed.
Print Assumptions C15_closed_form.

(** At and below the lowest knot: the minimum. *)
Theorem C15_min_below : forall knots Tmin z, z <= zmin knots -> T_math knots Tmin z = Tmin.
Proof. exact T_math_below. Qed.
Print Assumptions C15_min_below.

(** Never decreases as the level rises (all pairs of levels). *)
Theorem C15_monotone : forall knots Tmin a b,
  increasing knots -> positive_K knots -> knots <> [] -> a <= b ->
  T_math knots Tmin a <= T_math knots Tmin b.
Proof. exact T_math_monotone. Qed.
Print Assumptions C15_monotone.

(** Strictly increasing from the lowest knot upwards. *)
Theorem C15_strictly_increasing_above_lowest_knot : forall knots Tmin a b,
  increasing knots -> positive_K knots -> knots <> [] -> zmin knots <= a -> a < b ->
  T_math knots Tmin a < T_math knots Tmin b.
Proof. exact T_math_strict. Qed.
Print Assumptions C15_strictly_increasing_above_lowest_knot.

(** Increments are bounded by the extreme knot conductivities: Lipschitz, hence
    continuous everywhere (also across the lowest knot and across each knot). *)
Theorem C15_lipschitz : forall knots Tmin lo hi a b,
  increasing knots -> positive_K knots -> knots <> [] -> 0 < lo ->
  Forall (fun p => lo <= snd p <= hi) knots ->
  Rabs (T_math knots Tmin b - T_math knots Tmin a) <= hi * Rabs (b - a).
Proof. exact T_math_lipschitz. Qed.
Print Assumptions C15_lipschitz.

Theorem C15_continuous : forall knots Tmin z,
  increasing knots -> positive_K knots -> knots <> [] ->
  continuous (T_math knots Tmin) z.
Proof. exact T_math_continuous. Qed.
Print Assumptions C15_continuous.

(** The code path (call_scalar), with scipy.integrate.quad as an oracle that
    evaluates its integrand strictly inside the interval and returns the
    integral: at or below the highest knot the result is minimum + integral. *)
Theorem C15_code_returns_min_plus_integral :
  forall quad : (R -> res R) -> R -> R -> res R,
  (forall f g a b, a < b -> (forall x, a < x < b -> f x = Ok (g x)) -> ex_RInt g a b ->
                   quad f a b = Ok (RInt g a b)) ->
  forall knots Tmin z,
  increasing knots -> positive_K knots -> knots <> [] -> z <= zmax knots ->
  call_scalar quad knots Tmin z = Ok (T_math knots Tmin z).
Proof. exact call_scalar_spec. Qed.
Print Assumptions C15_code_returns_min_plus_integral.

(** The only exception call_scalar can raise is NotImplementedError, and only
    for a level strictly above the highest knot (T(z_n) itself is returned:
    the integrand refuses z >= z_n but quad never evaluates the end point). *)
Theorem C15_only_refusal_is_above_highest_knot :
  forall quad : (R -> res R) -> R -> R -> res R,
  (forall f a b e, a < b -> quad f a b = Err e -> exists x, a < x < b /\ f x = Err e) ->
  forall knots Tmin z e,
  knots <> [] -> call_scalar quad knots Tmin z = Err e -> e = ENotImpl /\ zmax knots < z.
Proof. exact call_scalar_error. Qed.
Print Assumptions C15_only_refusal_is_above_highest_knot.

(** Array argument = scalar path element by element (values and refusals). *)
Theorem C15_scalar_array : forall quad knots Tmin zs vs,
  call_array quad knots Tmin zs = Ok vs <->
  Forall2 (fun z v => call_scalar quad knots Tmin z = Ok v) zs vs.
Proof. exact call_array_ok_iff. Qed.
Print Assumptions C15_scalar_array.

Theorem C15_array_values :
  forall quad : (R -> res R) -> R -> R -> res R,
  (forall f g a b, a < b -> (forall x, a < x < b -> f x = Ok (g x)) -> ex_RInt g a b ->
                   quad f a b = Ok (RInt g a b)) ->
  forall knots Tmin zs,
  increasing knots -> positive_K knots -> knots <> [] ->
  Forall (fun z => z <= zmax knots) zs ->
  call_array quad knots Tmin zs = Ok (map (T_math knots Tmin) zs).
Proof. exact call_array_spec. Qed.
Print Assumptions C15_array_values.

(** The constructor accepts exactly the quantified knot sets. *)
Theorem C15_constructor_accepts : forall knots,
  construct knots = Ok knots <->
  (increasing knots /\ positive_K knots /\ (2 <= length knots)%nat).
Proof. exact construct_ok_iff. Qed.
Print Assumptions C15_constructor_accepts.

(** Non-vacuity. The shipped parameter file's knot set meets the hypotheses;
    the quad contract has an instance; the closed form at the second knot is
    enclosed (62.0285...: the implementation returns 62.02853122747966). *)
Definition C15_sample_knots : list (R * R) :=
  [(-2917/10, 5356/1000000); (-5167/1000, 1002/1000); (1683/10, 6577); (1000, 8430)].

Example C15_example_hypotheses :
  increasing C15_sample_knots /\ positive_K C15_sample_knots /\ C15_sample_knots <> [].
Proof.
  unfold C15_sample_knots. simpl. repeat split; try lra; try discriminate.
  repeat constructor; simpl; lra.
Qed.

Example C15_example_quad_contract :
  (forall f g a b, a < b -> (forall x, a < x < b -> f x = Ok (g x)) -> ex_RInt g a b ->
                   quad_ideal f a b = Ok (RInt g a b)) /\
  (forall f a b e, a < b -> quad_ideal f a b = Err e -> exists x, a < x < b /\ f x = Err e).
Proof. split; [exact quad_ideal_value|exact quad_ideal_error]. Qed.

Example C15_example_value :
  Rabs (T_math C15_sample_knots (7442/1000) (-5167/1000) - 62.02853122747966) <= 1/10000000.
Proof.
  rewrite T_math_closed by apply C15_example_hypotheses.
  unfold C15_sample_knots, T_closed, closed_above, seg.
  destruct (Rle_dec (-5167 / 1000) (-2917 / 10)) as [H|_]; [exfalso; lra|].
  destruct (Rle_dec (-5167 / 1000) (-5167 / 1000)) as [_|H]; [|exfalso; lra].
  destruct (Req_EM_T (5356 / 1000000) (1002 / 1000)) as [H|_]; [exfalso; lra|].
  interval with (i_prec 60).
Qed.
