(** C05 — alignment offsets minimise the squared spread of crossing values;
    equivalently every interval's residuals against the master curve sum to
    zero; the minimiser is unique up to a common shift.

    [E] is any list of entries (water level id, interval id, crossing value);
    [x] any assignment of offsets; [dev E x c] = x(interval) + value - mean at
    that level of (offset + value); [objective] = sum of squared deviations;
    [resid_sum E x s] = sum of the deviations of interval s.  Exact rational
    arithmetic; the floating-point implementation is tied to it within a
    tolerance by the correspondence check.

    What is proved here, in order:
    - zero residual sums <=> global minimiser; invariance under a common shift;
      uniqueness up to a common shift on a connected overlap graph;
    - EXISTENCE: every collection of entries whatsoever has an assignment with
      zero residual sums, hence a global minimiser (no hypothesis: not even
      connectedness; Proofs/ExistenceSpec.v, the zero-residual conditions are a
      weighted graph-Laplacian system, solved by induction on the intervals);
      on a connected graph: there is a minimiser and it is unique up to a shift;
    - SOLVER COMPLETENESS of the model: the Gauss-Jordan elimination of
      Model/FitOffsets.v returns the solution of every uniquely solvable square
      system (Proofs/GaussSpec.v); the normal equations the code assembles have
      exactly one solution when the mapping is a dict (distinct levels), every
      level lists distinct intervals and the overlap graph is connected
      (Proofs/FindOffsetsComplete.v); hence [find_offsets] returns offsets there
      (never [Err ELinAlg]), they minimise, and they are the minimiser up to a
      shift; carried to the main body chosen by get_series_time_offsets
      (Proofs/MainBodyComplete.v), where connectedness is itself a theorem (C08).
    - VIEWS (last section): the SQL views average_rising_depth /
      average_recession_time, modelled as SQL computes them (Model/Views.v), list
      at each level exactly [head_mean E x h] for E = the entries of the aligned
      intervals and x = the stored offsets (C05_view_is_level_mean), and over the
      tables written from find_offsets' result they show the minimiser's curve
      (C05_view_shows_minimiser_curve): the theorems above are statements about
      what the user sees.
    Still by correspondence only: that numpy.linalg.solve on the floating-point
    system stays within the tolerance of the exact rational solution. *)
From Spowtd Require Import Model.FitOffsets Model.Components Proofs.QSum Proofs.FitOffsetsSpec
  Proofs.FindOffsetsSpec Proofs.ExistenceSpec Proofs.GaussSpec Proofs.FindOffsetsComplete
  Proofs.MainBodyComplete.
From Coq Require Import Relations.

Theorem C05_zero_residuals_minimise : forall E x,
  (forall s, In s (ids E) -> resid_sum E x s == 0) -> forall y, objective E x <= objective E y.
Proof. exact zero_resid_minimises. Qed.
Print Assumptions C05_zero_residuals_minimise.

Theorem C05_minimiser_has_zero_residuals : forall E x,
  (forall y, objective E x <= objective E y) -> forall s, resid_sum E x s == 0.
Proof. exact minimiser_zero_resid. Qed.
Print Assumptions C05_minimiser_has_zero_residuals.

Theorem C05_common_shift_changes_nothing : forall E x y k,
  (forall s, y s == x s + k) ->
  objective E y == objective E x /\ forall s, resid_sum E y s == resid_sum E x s.
Proof.
  intros E x y k H. split; [exact (objective_shift_invariant E x y k H)|].
  intros s. exact (resid_shift_invariant E x y k s H).
Qed.
Print Assumptions C05_common_shift_changes_nothing.

(** Two minimisers differ by one constant on all intervals when the overlap
    graph (intervals sharing a level) is connected. *)
Theorem C05_unique_up_to_shift : forall E x y,
  connected E ->
  (forall s, In s (ids E) -> resid_sum E x s == 0) ->
  objective E y == objective E x ->
  forall s s', In s (ids E) -> In s' (ids E) -> y s - x s == y s' - x s'.
Proof. exact minimisers_differ_by_shift. Qed.
Print Assumptions C05_unique_up_to_shift.

(** The model of find_offsets (system built as the code builds it, levels with
    one interval dropped, reference interval last and fixed at 0) returns a
    global minimiser with zero residual sums for every interval. *)
Theorem C05_find_offsets_minimises : forall hm sids offs,
  find_offsets hm = Ok (sids, offs) ->
  let E := entries_of (drop_single hm) in
  let x := assignment sids offs in
  sids = sorted_ids E /\
  (forall s, resid_sum E x s == 0) /\
  (forall y, objective E x <= objective E y).
Proof. exact find_offsets_sound. Qed.
Print Assumptions C05_find_offsets_minimises.

(** ** Existence *)

(** Every collection of entries has offsets whose residual sums all vanish.
    No hypothesis: an interval may occur several times at a level, the overlap
    graph may fall into pieces. *)
Theorem C05_zero_residual_offsets_exist : forall E,
  exists x, forall s, resid_sum E x s == 0.
Proof. exact zero_resid_exists. Qed.
Print Assumptions C05_zero_residual_offsets_exist.

(** ... hence a global minimiser of the squared spread always exists. *)
Theorem C05_minimiser_exists : forall E,
  exists x, (forall s, resid_sum E x s == 0) /\ (forall y, objective E x <= objective E y).
Proof. exact minimiser_exists. Qed.
Print Assumptions C05_minimiser_exists.

(** ... and one of the minimisers gives offset 0 to any chosen reference interval. *)
Theorem C05_minimiser_exists_with_reference : forall E ref,
  exists x, x ref == 0 /\ (forall s, resid_sum E x s == 0) /\
            (forall y, objective E x <= objective E y).
Proof. exact minimiser_exists_pinned. Qed.
Print Assumptions C05_minimiser_exists_with_reference.

(** For every connected collection there is a minimiser, and it is unique up to
    a common shift. *)
Theorem C05_minimiser_exists_unique_up_to_shift : forall E,
  connected E ->
  exists x, (forall s, resid_sum E x s == 0) /\
            (forall y, objective E x <= objective E y) /\
            (forall y, (forall z, objective E y <= objective E z) ->
               forall s s', In s (ids E) -> In s' (ids E) -> y s - x s == y s' - x s').
Proof. exact minimiser_exists_unique. Qed.
Print Assumptions C05_minimiser_exists_unique_up_to_shift.

(** The linear-algebra core of existence: a weighted graph-Laplacian system
    (symmetric non-negative weights [w]) whose right-hand side is the divergence
    of an antisymmetric flow [f] carried by the edges is solvable over Q. *)
Theorem C05_laplacian_solvable : forall (vs : list nat), NoDup vs -> forall (w f : nat -> nat -> Q),
  (forall a b, w a b == w b a) -> (forall a b, 0 <= w a b) ->
  (forall a b, f a b == - f b a) -> (forall a b, w a b == 0 -> f a b == 0) ->
  exists x, forall a, In a vs ->
    qsum (map (fun b => w a b * (x a - x b)) vs) == qsum (map (f a) vs).
Proof.
  intros vs Hnd w f H1 H2 H3 H4.
  exact (laplacian_solvable vs Hnd w f (Build_lap_ok w f H1 H2 H3 H4)).
Qed.
Print Assumptions C05_laplacian_solvable.

(** The residual sum of an interval is its row of that Laplacian system
    ([ov_w]: sum over shared levels of 1/n; [ov_f]: of (value' - value)/n). *)
Theorem C05_residuals_are_laplacian_rows : forall E x s,
  resid_sum E x s
  == qsum (map (fun s' => ov_w E s s' * (x s - x s')) (ids E)) - qsum (map (ov_f E s) (ids E)).
Proof. exact resid_as_laplacian. Qed.
Print Assumptions C05_residuals_are_laplacian_rows.

(** ** Solver completeness of the model *)

(** Gauss-Jordan with row search, as in Model/FitOffsets.v: on a square system
    with one and only one solution [y] it finds a pivot in every column and
    returns [y]. *)
Theorem C05_gauss_jordan_complete : forall (m : list (list Q)) (rhs : list Q) (y : nat -> Q),
  let n := length m in
  length rhs = n -> (forall r, In r m -> length r = n) ->
  let aug := map (fun p => fst p ++ [snd p]) (combine m rhs) in
  (forall r, In r aug -> row_sat n y r) ->
  (forall z, (forall r, In r aug -> row_sat n z r) -> forall j, (j < n)%nat -> z j == y j) ->
  exists sol, solve m rhs = Some sol /\ length sol = n /\
              forall i, (i < n)%nat -> nth i sol 0 == y i.
Proof. exact solve_complete. Qed.
Print Assumptions C05_gauss_jordan_complete.

(** The model of find_offsets returns offsets on every connected, non-empty
    collection given as a dict whose levels list distinct intervals. *)
Theorem C05_find_offsets_complete : forall hm,
  NoDup (map fst hm) ->
  (forall p, In p hm -> NoDup (map fst (snd p))) ->
  connected (entries_of (drop_single hm)) ->
  entries_of (drop_single hm) <> [] ->
  exists offs, find_offsets hm = Ok (sorted_ids (entries_of (drop_single hm)), offs).
Proof. exact find_offsets_complete. Qed.
Print Assumptions C05_find_offsets_complete.

Theorem C05_find_offsets_never_singular : forall hm,
  NoDup (map fst hm) ->
  (forall p, In p hm -> NoDup (map fst (snd p))) ->
  connected (entries_of (drop_single hm)) ->
  find_offsets hm <> Err ELinAlg.
Proof. exact find_offsets_never_linalg. Qed.
Print Assumptions C05_find_offsets_never_singular.

(** Completeness, soundness and uniqueness in one statement. *)
Theorem C05_find_offsets_total : forall hm,
  NoDup (map fst hm) ->
  (forall p, In p hm -> NoDup (map fst (snd p))) ->
  connected (entries_of (drop_single hm)) ->
  entries_of (drop_single hm) <> [] ->
  let E := entries_of (drop_single hm) in
  exists offs,
    find_offsets hm = Ok (sorted_ids E, offs) /\
    let x := assignment (sorted_ids E) offs in
    (forall s, resid_sum E x s == 0) /\
    (forall y, objective E x <= objective E y) /\
    (forall y, (forall z, objective E y <= objective E z) ->
       forall s s', In s (ids E) -> In s' (ids E) -> y s - x s == y s' - x s').
Proof. exact find_offsets_total. Qed.
Print Assumptions C05_find_offsets_total.

(** The same for what get_series_time_offsets does (main body of the mapping):
    no connectivity hypothesis is left, it is a theorem (C08). *)
Theorem C05_main_body_offsets_exist : forall hm : head_mapping,
  NoDup (map fst hm) ->
  (forall p, In p hm -> NoDup (map fst (snd p))) ->
  components (series_at_head hm) <> [] ->
  exists sids offs levels, offsets_from_mapping hm = Ok (sids, offs, levels).
Proof. exact main_body_offsets_exist. Qed.
Print Assumptions C05_main_body_offsets_exist.

Theorem C05_main_body_never_singular : forall hm : head_mapping,
  NoDup (map fst hm) ->
  (forall p, In p hm -> NoDup (map fst (snd p))) ->
  offsets_from_mapping hm <> Err ELinAlg.
Proof. exact main_body_never_linalg. Qed.
Print Assumptions C05_main_body_never_singular.

(** Non-vacuity: three intervals, four levels (one of them crossed by a single
    interval and dropped); every hypothesis of the theorems above holds for this
    mapping. *)
Definition C05_example_hm : head_mapping :=
  [(5%Z, [(0%nat, 1); (1%nat, 4)]); (6%Z, [(0%nat, 2); (1%nat, 5); (2%nat, 9)]);
   (7%Z, [(1%nat, 7); (2%nat, 10)]); (8%Z, [(2%nat, 3)])].

Example C05_example :
  find_offsets C05_example_hm = Ok ([0%nat; 1%nat; 2%nat], [20 # 3; 53 # 15; 0]).
Proof. vm_compute. reflexivity. Qed.

Example C05_example_levels_distinct : NoDup (map fst C05_example_hm).
Proof. repeat constructor; simpl; intuition discriminate. Qed.

Example C05_example_intervals_distinct :
  forall p, In p C05_example_hm -> NoDup (map fst (snd p)).
Proof.
  intros p Hp. simpl in Hp.
  repeat (destruct Hp as [<-|Hp]; [repeat constructor; simpl; intuition discriminate|]).
  destruct Hp.
Qed.

Example C05_example_nonempty : entries_of (drop_single C05_example_hm) <> [].
Proof. vm_compute. discriminate. Qed.

Example C05_example_connected : connected (entries_of (drop_single C05_example_hm)).
Proof.
  set (E := entries_of (drop_single C05_example_hm)).
  assert (L01 : linked E 0%nat 1%nat).
  { exists {| e_head := 5; e_series := 0; e_val := 1 |}, {| e_head := 5; e_series := 1; e_val := 4 |}.
    vm_compute. intuition. }
  assert (L12 : linked E 1%nat 2%nat).
  { exists {| e_head := 7; e_series := 1; e_val := 7 |}, {| e_head := 7; e_series := 2; e_val := 10 |}.
    vm_compute. intuition. }
  assert (Lsym : forall a b, linked E a b -> linked E b a).
  { intros a b (c & c' & H1 & H2 & H3 & H4 & H5). exists c', c. intuition. }
  intros s s' Hs Hs'. vm_compute in Hs, Hs'.
  destruct Hs as [<-|[<-|[<-|[]]]]; destruct Hs' as [<-|[<-|[<-|[]]]];
    first [ apply rt_refl
          | apply rt_step; first [exact L01|exact L12|apply Lsym; first [exact L01|exact L12]]
          | apply rt_trans with 1%nat; apply rt_step;
            first [exact L01|exact L12|apply Lsym; first [exact L01|exact L12]] ].
Qed.

(** the residuals of the offsets returned do sum to zero, interval by interval *)
Example C05_example_zero_residuals :
  let E := entries_of (drop_single C05_example_hm) in
  forallb (fun s => Qeq_bool (resid_sum E (assignment [0%nat; 1%nat; 2%nat] [20 # 3; 53 # 15; 0]) s) 0)
          [0%nat; 1%nat; 2%nat] = true.
Proof. vm_compute. reflexivity. Qed.

(** ** What the user sees: the views average_rising_depth / average_recession_time
    (Model/Views.v: INNER JOIN of the offsets table, the crossing table and the
    grid levels, GROUP BY level, AVG(offset + crossing), ascending levels).

    [offsets] = rows (start_epoch, offset), [crossings] = rows (start_epoch,
    zeta_number, mean crossing), [grid] = discrete_zeta (a PRIMARY KEY: no level
    twice).  [E] = the entries of the ALIGNED intervals (those with an offsets
    row; interval id = position of that row), [x] = the stored offsets.  The
    view lists level k iff k is a grid level and an aligned interval has a
    crossing row there, and the value it lists IS [head_mean E x k]: every
    statement of this file about [head_mean] / [dev] / [objective] with these E
    and x is a statement about the curve the view shows. *)
From Spowtd Require Import Model.Views Proofs.ViewsSpec Proofs.ViewsFitSpec.
From Coq Require Import Sorted.

Theorem C05_view_is_level_mean : forall offsets crossings grid step,
  NoDup grid ->
  let E := aligned_entries offsets crossings in
  let x := offset_of offsets in
  view_average offsets crossings grid step
  = map (fun k => (inject_Z k * step, head_mean E x k)) (view_levels offsets crossings grid) /\
  StronglySorted Z.lt (view_levels offsets crossings grid) /\
  (forall k, In k (view_levels offsets crossings grid) <->
             In k grid /\ exists c, In c (at_head E k)) /\
  (forall k, (exists c, In c (at_head E k)) <->
             exists e o v, In (e, o) offsets /\ In (e, k, v) crossings).
Proof. exact view_is_level_mean. Qed.
Print Assumptions C05_view_is_level_mean.

(** The tables a writer produces from find_offsets' result ([start_of]: start
    epoch of the interval with a given id, distinct for distinct intervals):
    the view over them shows, at every grid level crossed by two or more
    intervals, the level mean under the minimising offsets, and nothing else. *)
Theorem C05_view_shows_minimiser_curve : forall (start_of : nat -> Z) hm sids offs grid step,
  find_offsets hm = Ok (sids, offs) ->
  NoDup grid ->
  (forall x y, In x sids -> In y sids -> start_of x = start_of y -> x = y) ->
  let E := entries_of (drop_single hm) in
  let x := assignment sids offs in
  let O := written_offsets start_of sids offs in
  let Cr := written_crossings start_of (drop_single hm) in
  (forall s, resid_sum E x s == 0) /\
  (forall y, objective E x <= objective E y) /\
  (forall z v, In (z, v) (view_average O Cr grid step) ->
     exists k, In k grid /\ z = inject_Z k * step /\ (exists c, In c (at_head E k)) /\
               v == head_mean E x k) /\
  (forall k, In k grid -> (exists c, In c (at_head E k)) ->
     exists v, In (inject_Z k * step, v) (view_average O Cr grid step) /\ v == head_mean E x k).
Proof. exact view_shows_minimiser_curve. Qed.
Print Assumptions C05_view_shows_minimiser_curve.

(** Non-vacuity: the tables written from [C05_example] (start epochs 100, 200,
    300; level 8 is crossed by one interval and not stored), grid 4..8, step
    1/2: the view's rows are (level * step, level mean under the fitted offsets). *)
Example C05_example_view :
  let sids := [0%nat; 1%nat; 2%nat] in
  let offs := [20 # 3; 53 # 15; 0] in
  let start_of := fun s => (100 * Z.of_nat (S s))%Z in
  let O := written_offsets start_of sids offs in
  let Cr := written_crossings start_of (drop_single C05_example_hm) in
  O = [(100%Z, 20 # 3); (200%Z, 53 # 15); (300%Z, 0)] /\
  map (fun r => (Qred (fst r), Qred (snd r))) (view_average O Cr [4; 5; 6; 7; 8]%Z (1 # 2))
  = [(5 # 2, 38 # 5); (3, 131 # 15); (7 # 2, 154 # 15)] /\
  map (fun k => Qred (head_mean (entries_of (drop_single C05_example_hm)) (assignment sids offs) k))
      [5; 6; 7]%Z = [38 # 5; 131 # 15; 154 # 15].
Proof. vm_compute. repeat split; reflexivity. Qed.
