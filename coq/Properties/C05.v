(** C05 — alignment offsets minimise the squared spread of crossing values;
    equivalently every interval's residuals against the master curve sum to
    zero; the minimiser is unique up to a common shift.

    [E] is any list of entries (water level id, interval id, crossing value);
    [x] any assignment of offsets; [dev E x c] = x(interval) + value - mean at
    that level of (offset + value); [objective] = sum of squared deviations;
    [resid_sum E x s] = sum of the deviations of interval s.  Exact rational
    arithmetic; the floating-point implementation is tied to it within a
    tolerance by the correspondence check. *)
From Spowtd Require Import Model.FitOffsets Proofs.QSum Proofs.FitOffsetsSpec Proofs.FindOffsetsSpec.
From Coq Require Import Relations.

Theorem C05_zero_residuals_minimise : forall E x,
  (forall s, In s (ids E) -> resid_sum E x s == 0) -> forall y, objective E x <= objective E y.
Proof. exact zero_resid_minimises. Qed.
Print Assumptions C05_zero_residuals_minimise.

Theorem C05_minimiser_has_zero_residuals : forall E x,
  (forall y, objective E x <= objective E y) -> forall s, resid_sum E x s == 0.
Proof. exact minimiser_zero_resid. Qed.
Print Assumptions C05_minimiser_has_zero_residuals.

Theorem C05_common_shift_changes_nothing : forall E x y k,
  (forall s, y s == x s + k) ->
  objective E y == objective E x /\ forall s, resid_sum E y s == resid_sum E x s.
Proof.
  intros E x y k H. split; [exact (objective_shift_invariant E x y k H)|].
  intros s. exact (resid_shift_invariant E x y k s H).
Qed.
Print Assumptions C05_common_shift_changes_nothing.

(** Two minimisers differ by one constant on all intervals when the overlap
    graph (intervals sharing a level) is connected. *)
Theorem C05_unique_up_to_shift : forall E x y,
  connected E ->
  (forall s, In s (ids E) -> resid_sum E x s == 0) ->
  objective E y == objective E x ->
  forall s s', In s (ids E) -> In s' (ids E) -> y s - x s == y s' - x s'.
Proof. exact minimisers_differ_by_shift. Qed.
Print Assumptions C05_unique_up_to_shift.

(** The model of find_offsets (system built as the code builds it, levels with
    one interval dropped, reference interval last and fixed at 0) returns a
    global minimiser with zero residual sums for every interval. *)
Theorem C05_find_offsets_minimises : forall hm sids offs,
  find_offsets hm = Ok (sids, offs) ->
  let E := entries_of (drop_single hm) in
  let x := assignment sids offs in
  sids = sorted_ids E /\
  (forall s, resid_sum E x s == 0) /\
  (forall y, objective E x <= objective E y).
Proof. exact find_offsets_sound. Qed.
Print Assumptions C05_find_offsets_minimises.

(** Non-vacuity: three intervals, four levels (one of them crossed by a single
    interval and dropped); the hypotheses of uniqueness hold for this graph. *)
Example C05_example :
  find_offsets [(5%Z, [(0%nat, 1); (1%nat, 4)]); (6%Z, [(0%nat, 2); (1%nat, 5); (2%nat, 9)]);
                (7%Z, [(1%nat, 7); (2%nat, 10)]); (8%Z, [(2%nat, 3)])]
  = Ok ([0%nat; 1%nat; 2%nat], [20 # 3; 53 # 15; 0]).
Proof. vm_compute. reflexivity. Qed.
