(** C13 — every master-curve row traces back to a classified interval and its
    data; levels belong to the grid; the grid covers the observed range.
    Statements only; proofs are in Proofs/CurvesSpec.v, Proofs/ZetaGridSpec.v,
    Proofs/CurvesGridSpec.v (and Proofs/RegridFlocq.v for the monotonicity of the
    binary64 division).
    Quantification: all contents of the tables water_level, storm,
    zeta_interval, zeta_interval_storm, rainfall_intensity, zeta_grid (whether or
    not they satisfy the foreign keys: SQLite does not enforce them in these
    commands), hence all classified datasets, and all finite positive steps.
    [rise_rows t] / [recession_rows t] = Ok (start epochs written to the offsets
    table, triples (start_epoch, zeta_number, mean crossing) written to the
    crossing table).
    Last section: the views average_rising_depth / average_recession_time
    (Model/Views.v, Proofs/ViewsSpec.v, Proofs/ViewsCommandSpec.v), which INNER
    JOIN the crossing table with discrete_zeta, show EVERY stored level for the
    model of the commands (C13_view_shows_every_stored_level). *)
From Spowtd Require Import Model.Curves Proofs.RegridSpec Proofs.RegridFloatSpec
  Proofs.CurvesSpec Proofs.ZetaGridSpec Proofs.CurvesGridSpec
  Generated.ZetaGridGen Proofs.ZetaGridGenSpec.

(** Rise curve: each row's interval is paired with a storm (the pairing, the
    storm and the interval all exist); its value is the mean of the crossings of
    level k by the straight segment from depth 0 at the interval's initial level
    to its own storm's total rain depth at its final level. *)
Theorem C13_rise_rows : forall t ivs rows,
  rise_rows t = Ok (ivs, rows) ->
  forall e k m, In (e, k, m) rows ->
    exists s_start s_thru z_thru ty step epochs zetas a b depth items,
      In (s_start, s_thru) (t_storm t) /\ In (e, s_start) (t_pairing t) /\
      In (e, z_thru, ty) (t_zeta_interval t) /\
      t_grid t = Some step /\
      read_levels t = Ok (epochs, zetas) /\
      nth_error epochs a = Some e /\ nth_error epochs b = Some z_thru /\ (a < b)%nat /\
      storm_depth t s_start s_thru = Ok depth /\
      regrid (shift_min [0; depth]) [nth a zetas 0%float; nth b zetas 0%float] step = Ok items /\
      crossings_of k items <> [] /\
      m = qmean (crossings_of k items).
Proof. intros t ivs rows H. exact (proj1 (rise_command_rows regrid qmean t ivs rows H)). Qed.
Print Assumptions C13_rise_rows.

(** Recession curve: each row's interval is recorded as 'interstorm'; its value
    is the mean of the crossings of level k by the series made of exactly the
    water-level samples whose epoch lies within that interval (time counted
    from the first of them). *)
Theorem C13_recession_rows : forall t ivs rows,
  recession_rows t = Ok (ivs, rows) ->
  forall e k m, In (e, k, m) rows ->
    exists thru step items,
      In (e, thru, false) (t_zeta_interval t) /\
      t_grid t = Some step /\
      let sel := filter (fun r => Z.leb e (fst r) && Z.leb (fst r) thru) (water_levels t) in
      regrid (shift_min (map (fun r => inject_Z (fst r)) sel)) (map snd sel) step = Ok items /\
      crossings_of k items <> [] /\
      m = qmean (crossings_of k items).
Proof. intros t ivs rows H. exact (proj1 (recession_command_rows regrid qmean t ivs rows H)). Qed.
Print Assumptions C13_recession_rows.

(** The offsets table and the crossing table list the same intervals. *)
Theorem C13_same_intervals : forall t ivs rows,
  (rise_rows t = Ok (ivs, rows) \/ recession_rows t = Ok (ivs, rows)) ->
  forall e, In e ivs <-> exists k m, In (e, k, m) rows.
Proof.
  intros t ivs rows [H|H].
  - exact (proj2 (rise_command_rows regrid qmean t ivs rows H)).
  - exact (proj2 (recession_command_rows regrid qmean t ivs rows H)).
Qed.
Print Assumptions C13_same_intervals.

(** The instance evaluated by the generated case files (positions with
    tolerances) obeys the same provenance statement. *)
Theorem C13_checked_instance : forall t ivs rows,
  rise_rows_tol t = Ok (ivs, rows) ->
  forall e k w, In (e, k, w) rows ->
    exists s_start s_thru z_thru ty step epochs zetas a b depth items,
      In (s_start, s_thru) (t_storm t) /\ In (e, s_start) (t_pairing t) /\
      In (e, z_thru, ty) (t_zeta_interval t) /\
      t_grid t = Some step /\
      read_levels t = Ok (epochs, zetas) /\
      nth_error epochs a = Some e /\ nth_error epochs b = Some z_thru /\ (a < b)%nat /\
      storm_depth t s_start s_thru = Ok depth /\
      regrid_with_tol (shift_min [0; depth]) [nth a zetas 0%float; nth b zetas 0%float] step
        = Ok items /\
      crossings_of k items <> [] /\
      w = summ_tol (crossings_of k items).
Proof.
  intros t ivs rows H. exact (proj1 (rise_command_rows regrid_with_tol summ_tol t ivs rows H)).
Qed.
Print Assumptions C13_checked_instance.

(** Contents of the grid: floor(min/step) .. ceil(max/step) - 1 with binary64
    quotients, min and max attained in the table, and every stored level's
    scaled value between the two bounds (division by a positive step is
    monotone in binary64). *)
Theorem C13_grid_contents : forall zetas step qs g,
  populate_zeta_grid zetas step = Ok g ->
  float_to_Q step = Some qs -> 0 < qs ->
  exists lo hi,
    (forall k, In k g <-> (Qfloor lo <= k < Qceiling hi)%Z) /\
    (forall z zq Y, In z zetas -> float_to_Q z = Some zq ->
                    float_to_Q (PrimFloat.div z step) = Some Y -> lo <= Y /\ Y <= hi) /\
    (exists zlo zhi, In zlo zetas /\ In zhi zetas /\
                     float_to_Q (PrimFloat.div zlo step) = Some lo /\
                     float_to_Q (PrimFloat.div zhi step) = Some hi).
Proof. exact populate_zeta_grid_spec. Qed.
Print Assumptions C13_grid_contents.

(** Every level regrid reports for any series whose ordinates are water levels
    of the table lies in the grid (also when min/step or max/step is an integer:
    a level equal to max/step is never reported, the upper value being excluded). *)
Theorem C13_levels_in_grid : forall zetas step qs g x y items,
  populate_zeta_grid zetas step = Ok g ->
  float_to_Q step = Some qs -> 0 < qs ->
  forallb finiteb zetas = true ->
  (forall v, In v y -> In v zetas) ->
  regrid x y step = Ok items ->
  forall k xs, In (k, xs) items -> In k g.
Proof. exact regrid_levels_in_grid. Qed.
Print Assumptions C13_levels_in_grid.

(** ... in particular every level stored in the two crossing tables. *)
Theorem C13_stored_levels_in_grid : forall t ivs rows step qs g,
  (rise_rows t = Ok (ivs, rows) \/ recession_rows t = Ok (ivs, rows)) ->
  t_grid t = Some step -> float_to_Q step = Some qs -> 0 < qs ->
  populate_zeta_grid (map snd (water_levels t)) step = Ok g ->
  forall e k m, In (e, k, m) rows -> In k g.
Proof.
  intros t ivs rows step qs g [H|H].
  - exact (rise_levels_in_grid t ivs rows step qs g H).
  - exact (recession_levels_in_grid t ivs rows step qs g H).
Qed.
Print Assumptions C13_stored_levels_in_grid.

(** The grid covers the observed range: every integer k with
    min/step <= k < max/step is a grid level; every sample lies between the
    lowest grid level and the highest plus one; and, when the grid is not empty,
    in a cell [k, k+1] of some grid level k. *)
Theorem C13_grid_covers : forall zetas step qs g,
  populate_zeta_grid zetas step = Ok g ->
  float_to_Q step = Some qs -> 0 < qs ->
  exists lo hi,
    (forall k, lo <= inject_Z k -> inject_Z k < hi -> In k g) /\
    (forall z zq Y, In z zetas -> float_to_Q z = Some zq ->
       float_to_Q (PrimFloat.div z step) = Some Y ->
       inject_Z (Qfloor lo) <= Y /\ Y <= inject_Z (Qceiling hi)) /\
    (forall z zq Y, In z zetas -> float_to_Q z = Some zq ->
       float_to_Q (PrimFloat.div z step) = Some Y -> g <> [] ->
       exists k, In k g /\ inject_Z k <= Y /\ Y <= inject_Z (k + 1)).
Proof. exact grid_covers. Qed.
Print Assumptions C13_grid_covers.

(** Tie to the code by TRANSLATION (in addition to the correspondence check):
    the two bounds of range(...) in zeta_grid.populate_zeta_grid are regenerated
    from the Python source on every run (harness/translate.py, fail closed) as
    [gen_grid_lo] / [gen_grid_hi], functions of the exact values of the binary64
    quotients min/step and max/step; they are floor and ceiling, i.e. the model
    [grid_of_bounds] is what the translated code computes.  (An int() truncation,
    a floor division or an off-by-one in the source makes this theorem fail.) *)
Theorem C13_translated_grid_bounds : forall zmin zmax step : PrimFloat.float,
  grid_of_bounds zmin zmax step =
  match float_to_Q (PrimFloat.div zmin step), float_to_Q (PrimFloat.div zmax step) with
  | Some lo, Some hi => Ok (zrange (gen_grid_lo lo hi) (gen_grid_hi lo hi))
  | _, _ => Err EOther
  end.
Proof. exact generated_grid_is_model. Qed.
Print Assumptions C13_translated_grid_bounds.

(** Non-vacuity.  Two storms, each followed by a recession; both rises cross
    levels 1 and 2 (step 1); both recessions cross level 1; level 2 is crossed by
    the second recession only (the first starts exactly on it: upper value
    excluded) and is therefore not stored. *)
Definition ex_tables : tables :=
  let f := fun (e : Z) (z : float) => (e, z) in
  let r := fun (a b : Z) (v : float) => (a, b, v) in
  mk_tables
    [f 0%Z 0x1p-1%float; f 10%Z 0x1.4p+1%float; f 20%Z 0x1p+1%float; f 30%Z 0x1.8p+0%float;
     f 40%Z 0x1p-1%float; f 50%Z 0x1.8p+1%float; f 60%Z 0x1.4p+1%float; f 70%Z 0x1p+0%float;
     f 80%Z 0x1p-1%float]
    [(0, 10); (40, 50)]%Z
    [(0, 10, true); (20, 40, false); (40, 50, true); (60, 80, false)]%Z
    [(0, 0); (40, 40)]%Z
    [r 0%Z 10%Z 0x1.2p+3%float; r 10%Z 20%Z 0%float; r 40%Z 50%Z 0x1.2p+4%float]
    (Some 1%float).

Example C13_example_rows :
  match rise_rows ex_tables, recession_rows ex_tables with
  | Ok (iv1, r1), Ok (iv2, r2) =>
      (iv1, map (fun r => (fst r, Qred (snd r))) r1, iv2, map (fun r => (fst r, Qred (snd r))) r2)
  | _, _ => ([], [], [], [])
  end =
  ([0; 40]%Z,
   [(0%Z, 1%Z, 1 # 160); (40%Z, 1%Z, 1 # 100); (0%Z, 2%Z, 3 # 160); (40%Z, 2%Z, 3 # 100)],
   [20; 60]%Z,
   [(20%Z, 1%Z, 15 # 1); (60%Z, 1%Z, 10 # 1)]).
Proof. vm_compute. reflexivity. Qed.

(** The grid of that table: min/step = 1/2, max/step = 3 exactly: levels 0, 1, 2;
    level 3 = max/step is not a grid level and is not reported either. *)
Example C13_example_grid :
  populate_zeta_grid (map snd (water_levels ex_tables)) 1%float = Ok [0; 1; 2]%Z
  /\ (match regrid [0; 1] [0x1p-1%float; 0x1.8p+1%float] 1%float with
      | Ok items => map fst items | Err _ => [] end) = [1; 2]%Z.
Proof. vm_compute. split; reflexivity. Qed.

(** Remarks (not part of the quantification, which is over positive steps).
    A record that stays on one grid level has an empty grid; and
    `set-zeta-grid -d` accepts a negative step, for which the grid is empty
    while regrid still reports levels: the hypothesis 0 < step of
    [C13_levels_in_grid] cannot be dropped. *)
Example C13_constant_record_empty_grid :
  populate_zeta_grid [0x1p+1%float; 0x1p+1%float] 1%float = Ok [].
Proof. vm_compute. reflexivity. Qed.

Example C13_negative_step_counterexample :
  populate_zeta_grid [1%float; 0x1.8p+1%float] (-1)%float = Ok []
  /\ (match regrid [0; 1] [1%float; 0x1.8p+1%float] (-1)%float with
      | Ok items => map fst items | Err _ => [] end) = [-2; -3]%Z.
Proof. vm_compute. split; reflexivity. Qed.

(** ** The views through which the curves are read (Model/Views.v)

    The user, plotting and the PEST files read the master curve from the views
    average_rising_depth / average_recession_time, which INNER JOIN the crossing
    table with discrete_zeta: a stored level that is not a grid level would
    silently vanish from the curve.  For the model of the commands it cannot:
    [offsets] is the offsets table (one row per interval of [ivs], any values),
    [view_levels] the level numbers of the view's rows in the view's order,
    [view_average] its rows (level * step, AVG(offset + crossing)).  The view
    lists EVERY level of the crossing table, in ascending order, each with the
    level mean of Model/FitOffsets.v; in particular its last row is the highest
    level of the assembled curve. *)
From Spowtd Require Import Model.Views Proofs.ViewsSpec Proofs.ViewsCommandSpec.

Theorem C13_view_shows_every_stored_level : forall t ivs rows step qs g,
  (rise_rows t = Ok (ivs, rows) \/ recession_rows t = Ok (ivs, rows)) ->
  t_grid t = Some step -> float_to_Q step = Some qs -> 0 < qs ->
  populate_zeta_grid (map snd (water_levels t)) step = Ok g ->
  forall offsets : list (Z * Q),
  (forall e, In e ivs <-> In e (map fst offsets)) ->
  NoDup g /\
  view_levels offsets rows g = group_keys (map (fun r => snd (fst r)) rows) /\
  (forall e k m, In (e, k, m) rows ->
     In (inject_Z k * qs, head_mean (aligned_entries offsets rows) (offset_of offsets) k)
        (view_average offsets rows g qs)) /\
  (forall e k m, In (e, k, m) rows -> (k <= last (view_levels offsets rows g) 0)%Z).
Proof. exact view_shows_every_stored_level. Qed.
Print Assumptions C13_view_shows_every_stored_level.

(** The same at table level, for any tables: the view lists level k iff k is a
    grid level and an interval with an offset row has a crossing row there; if
    every such level is a grid level, none is dropped. *)
Theorem C13_view_complete_when_levels_in_grid : forall offsets crossings grid,
  (forall e o k v, In (e, o) offsets -> In (e, k, v) crossings -> In k grid) ->
  view_levels offsets crossings grid = curve_levels offsets crossings.
Proof. exact view_complete. Qed.
Print Assumptions C13_view_complete_when_levels_in_grid.

(** Non-vacuity: the tables of [ex_tables] (rises crossing levels 1 and 2, the
    top level is positive), offsets 0 and 1/2: the view over the grid computed
    by the model of set-zeta-grid, [0; 1; 2], shows both levels ... *)
Example C13_example_view :
  match rise_rows ex_tables with
  | Ok (ivs, rows) =>
      (view_levels [(0%Z, 0); (40%Z, 1 # 2)] rows [0; 1; 2]%Z,
       map (fun r => (Qred (fst r), Qred (snd r))) (view_average [(0%Z, 0); (40%Z, 1 # 2)] rows [0; 1; 2]%Z 1))
  | Err _ => ([], [])
  end = ([1; 2]%Z, [(1, 413 # 1600); (2, 439 # 1600)]).
Proof. vm_compute. reflexivity. Qed.

(** ... whereas over a grid that stops one level short (what truncating
    max/step = 2.5 instead of taking its ceiling produces) the view silently
    loses the top point: the hypothesis "stored levels are grid levels" is what
    carries the statement. *)
Example C13_example_view_truncated_grid :
  match rise_rows ex_tables with
  | Ok (ivs, rows) => (view_levels [(0%Z, 0); (40%Z, 1 # 2)] rows [-1; 0; 1]%Z, curve_levels [(0%Z, 0); (40%Z, 1 # 2)] rows)
  | Err _ => ([], [])
  end = ([1]%Z, [1; 2]%Z).
Proof. vm_compute. reflexivity. Qed.

(** The per-rise view rising_curve_line_segment (what `plot rise` draws) on the
    tables of the model of [rise] ([tables_wl], [tables_rain]: the binary64
    columns read as the rationals they denote): every interval given an offset
    has a row, every row belongs to such an interval and carries its offset;
    under the PRIMARY KEYs exactly one row each (C08_line_segments_only_main_body
    is the statement for arbitrary tables). *)
Theorem C13_rise_line_segments : forall t ivs rows (offsets : list (Z * Q)),
  rise_rows t = Ok (ivs, rows) ->
  (forall e, In e ivs <-> In e (map fst offsets)) ->
  let V := view_line_segments (t_pairing t) (tables_zint t) (tables_wl t) (t_storm t) (tables_rain t) offsets in
  (forall e o, In (e, o) offsets -> exists d zi zf, In (e, o, d, zi, zf) V) /\
  (forall r, In r V -> In (seg_epoch r) ivs /\ In (seg_epoch r, seg_offset r) offsets) /\
  (NoDup (map fst (t_pairing t)) -> NoDup (map fst (tables_zint t)) -> NoDup (map fst (tables_wl t)) ->
   NoDup (map fst (t_storm t)) -> NoDup (map fst offsets) ->
   Permutation.Permutation (map (fun r => (seg_epoch r, seg_offset r)) V) offsets).
Proof. exact rise_line_segments. Qed.
Print Assumptions C13_rise_line_segments.

Example C13_example_line_segments :
  map (fun r => match r with (e, o, d, zi, zf) => (e, Qred o, Qred d, Qred zi, Qred zf) end)
      (view_line_segments (t_pairing ex_tables) (tables_zint ex_tables) (tables_wl ex_tables)
                          (t_storm ex_tables) (tables_rain ex_tables) [(0%Z, 0); (40%Z, 1 # 2)])
  = [(0%Z, 0, 1 # 40, 1 # 2, 5 # 2); (40%Z, 1 # 2, 1 # 20, 1 # 2, 3)].
Proof. vm_compute. reflexivity. Qed.
