(** C07, pre-repair behaviour (fixed in /repo; kept as the machine-checked record
    of the defect): the jump flag of classify_interstorms was computed from a
    rate over hours derived from the ABSOLUTE epoch, (z1 - z0) / (t1/3600 - t0/3600)
    > threshold.  For a 20-minute step and an increment exactly equal to
    threshold x step the flag depends on the time origin. *)
From Spowtd Require Import Model.ClassifyEpochs.

Theorem C07_old_rate_flag_depends_on_origin :
  exists (t0 : Z) (z0 z1 thr : float),
    old_rate_flag thr t0 (t0 + 1200) z0 z1 = true /\
    old_rate_flag thr (t0 + 1200) (t0 + 2400) z0 z1 = false /\
    (* while the repaired criterion (increment > threshold x step) has no origin in it *)
    fgt (PrimFloat.sub z1 z0) (jump_delta thr 1200) = false.
Proof.
  exists 1361318400%Z, 0%float, 0x1.aaaaaaaaaaaaap+0%float, 5%float.
  vm_compute. repeat split; reflexivity.
Qed.
Print Assumptions C07_old_rate_flag_depends_on_origin.
