(** C02 refuted for the recorded-duration reading (known finding
    C02/duration-off-by-one): with durations counted in time steps on both sides
    ([dur_key_steps]), the matching produced by the faithful model has a blocking
    pair. A 3-step storm overlaps a 3-step rise and a 2-step rise and is matched
    to the 2-step one, although the 3-step rise is free. *)
From Spowtd Require Import Model.Matching.

Definition dur_key_steps (storm rise : nat * nat) : Z :=
  Z.abs ((Z.of_nat (snd storm) - Z.of_nat (fst storm))
         - (Z.of_nat (snd rise) - 1 - Z.of_nat (fst rise))).

Theorem C02_recorded_duration_refuted :
  exists heavy jumpf r sp rp rp0,
    match_storms_flags heavy jumpf [] = Ok r /\
    overlaps sp rp = true /\ In sp (true_runs heavy) /\ In rp (rises_of jumpf) /\
    ~ In (sp, rp) r /\
    In (sp, rp0) r /\ (dur_key_steps sp rp < dur_key_steps sp rp0)%Z /\
    (forall sp', ~ In (sp', rp) r).
Proof.
  exists [false; false; true; true; true; false; false],
         [true; true; true; false; true; true],
         [((2, 5), (4, 7))], (2, 5), (0, 4), (4, 7).
  split; [vm_compute; reflexivity|].
  split; [vm_compute; reflexivity|].
  split; [vm_compute; auto|].
  split; [vm_compute; auto|].
  split; [intros [H|[]]; inversion H|].
  split; [left; reflexivity|].
  split; [vm_compute; reflexivity|].
  intros sp' [H|[]]. inversion H.
Qed.
Print Assumptions C02_recorded_duration_refuted.
