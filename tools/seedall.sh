#!/bin/sh
# tools/seedall.sh [glob] : regression - every stored seeded change against the CURRENT quick checks (no test suite),
# 10 at a time; prints the seeds that are NOT reported (or whose demo no longer behaves), then a count.
cd "$(dirname "$0")/.." || exit 2
G="${1:-*}"
n=0
for d in seeded/$G/; do
  id=$(basename $d); p=${id%-*}
  ( TESTS=0 tools/seedcheck.sh /verif/seeded/$id reg_$(echo $id | tr '-' '_') $p > /dev/null 2>&1 ) &
  n=$((n+1)); if [ $n -ge 10 ]; then wait; n=0; fi
done
wait
bad=0; tot=0
for d in seeded/$G/; do
  id=$(basename $d); l=work/seedlogs/reg_$(echo $id | tr '-' '_').log; tot=$((tot+1))
  v=$(grep -c '^VIOLATION' $l); e=$(grep -o 'exit=[0-9]*' $l | tr '\n' ' ')
  if [ "$v" -lt 1 ] || [ "$e" != "exit=1 exit=0 " ]; then echo "NOT OK $id: $v violation lines, demo $e"; bad=$((bad+1)); fi
done
echo "seeds checked: $tot, not reported: $bad"
