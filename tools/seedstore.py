#!/usr/bin/env python3
"""tools/seedstore.py SRC_DIR ID PROP 'caught by ...' [extra note]
Copy a confirmed seeded change (patch.diff, demo.py, meta.json written by the sub-agent) to /verif/seeded/<ID>/ and
record what the lead ran to confirm it (test-suite line from work/seedlogs/tests_*.txt, demo exits and check result
from work/seedlogs/<name>.log)."""
import json
import os
import re
import shutil
import sys

VERIF = os.path.dirname(os.path.dirname(os.path.abspath(__file__)))


def main():
    src, sid, prop, caught = sys.argv[1:5]
    note = sys.argv[5] if len(sys.argv) > 5 else ''
    logname = sys.argv[6] if len(sys.argv) > 6 else None
    dst = os.path.join(VERIF, 'seeded', sid)
    os.makedirs(dst, exist_ok=True)
    for f in ('patch.diff', 'demo.py'):
        shutil.copyfile(os.path.join(src, f), os.path.join(dst, f))
    try:
        meta = json.load(open(os.path.join(src, 'meta.json')))
    except Exception:  # pylint: disable=broad-except
        meta = {}
    name = logname or sid.replace('-', '_')
    tests = ''
    for fn in sorted(os.listdir(os.path.join(VERIF, 'work', 'seedlogs'))):
        if fn.startswith('tests_'):
            for line in open(os.path.join(VERIF, 'work', 'seedlogs', fn)):
                if line.startswith(name + ':'):
                    tests = line.strip()
    log = ''
    lp = os.path.join(VERIF, 'work', 'seedlogs', name + '.log')
    if os.path.exists(lp):
        log = open(lp).read()
    exits = re.findall(r'exit=(\d+)', log)
    viol = [l for l in log.split('\n') if l.startswith('VIOLATION')]
    summary = [l for l in log.split('\n') if re.match(r'^C\d\d (quick|thorough):', l)]
    out = dict(
        property=prop,
        summary=meta.get('summary', ''),
        needs=meta.get('needs', ''),
        why_tests_pass=meta.get('why_tests_pass', ''),
        author='fresh sub-agent given only the property text and a scratch worktree',
        agent_ran=meta.get('ran', ''),
        lead_confirmed=dict(
            test_suite_with_change=tests or 'see DESIGN.md',
            test_suite_baseline='2 failed (Rscript missing: test_specific_yield[peatclsm-None], '
                                'test_transmissivity[peatclsm-None]), 54 passed',
            demo_exit_with_change=int(exits[0]) if exits else None,
            demo_exit_unchanged=int(exits[1]) if len(exits) > 1 else None,
            check=caught,
            check_violation_lines=len(viol),
            check_summary=summary[-1] if summary else '',
            how='tools/seedcheck.sh (private copy of /repo with the patch applied, SPOWTD_REPO=<copy> ./check <id> --no-proofs) '
                'and tools/seedtests.sh (pytest -n 8 on the patched copy)',
            note=note,
        ),
    )
    json.dump(out, open(os.path.join(dst, 'meta.json'), 'w'), indent=1)
    print('stored', dst)


if __name__ == '__main__':
    main()
