#!/bin/sh
# tools/thorough_all.sh : setup + thorough tier of every claimed property, two streams; summary on stdout
cd "$(dirname "$0")/.." || exit 2
/venv/bin/python -m harness.setup > thorough_setup.log 2>&1 || { tail -20 thorough_setup.log; exit 2; }
run() { for p in "$@"; do /usr/bin/time -f "%e s" -o thorough_$p.time ./check $p --tier thorough > thorough_$p.log 2>&1; echo "$p rc=$? $(cat thorough_$p.time) | $(tail -1 thorough_$p.log)"; grep -E "^VIOLATION|^  " thorough_$p.log | head -5 | cut -c1-400; done; }
run C01 C03 C05 C07 C09 C11 C13 C15 C17 C19 &
run C02 C04 C06 C08 C10 C12 C14 C16 C18 C20 &
wait
