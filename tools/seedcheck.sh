#!/bin/sh
# tools/seedcheck.sh SEEDDIR NAME PROP...  : confirm a seeded change (patch.diff + demo.py in SEEDDIR) and run checks on it.
# - applies the patch to a private copy of /repo, runs the repository test suite, the demo with and without the
#   change, then ./check (no proof re-check) for each property against the changed copy, everything the run writes
#   going below /tmp/seedcheck_NAME.out (VERIF_SCRATCH). Leaves nothing behind except LOG=/verif/work/seedlogs/NAME.log.
SD="$1"; NAME="$2"; shift 2
M=/tmp/seedcheck_$NAME
S=/tmp/seedcheck_$NAME.out
mkdir -p /verif/work/seedlogs
LOG=/verif/work/seedlogs/$NAME.log
{
rm -rf $M $S && cp -r /repo $M && rm -rf $M/.git && mkdir -p $S
( cd $M && patch -p1 -s < "$SD/patch.diff" ) || { echo "PATCH DOES NOT APPLY"; rm -rf $M $S; exit 2; }
if [ "${TESTS:-1}" = 1 ]; then echo "== tests with change (baseline: 54 passed, 2 failed [Rscript]):"; ( cd $M && /venv/bin/python -m pytest -q -p no:cacheprovider -n 6 --timeout=900 2>&1 | tail -1 ); fi
echo "== demo with change (expect non-zero):"; ( cd $M && PYTHONPATH=$M PYTHONDONTWRITEBYTECODE=1 /venv/bin/python "$SD/demo.py" >$S/demo.out 2>&1; echo "exit=$?"; tail -3 $S/demo.out | cut -c1-300 )
echo "== demo on unchanged tree (expect 0):"; ( cd /repo && PYTHONPATH=/repo PYTHONDONTWRITEBYTECODE=1 /venv/bin/python "$SD/demo.py" >$S/demo.out 2>&1; echo "exit=$?"; tail -1 $S/demo.out | cut -c1-300 )
for P in "$@"; do
  echo "== check $P on changed tree:"
  VERIF_SCRATCH=$S SPOWTD_REPO=$M /verif/check $P --no-proofs ${TIER:+--tier $TIER} 2>&1 | grep -E "^VIOLATION|^KNOWN|quick:|thorough:|^  " | cut -c1-400 | head -8
done
rm -rf $M $S
} > $LOG 2>&1
cat $LOG
