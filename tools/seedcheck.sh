#!/bin/sh
# tools/seedcheck.sh SEEDDIR NAME PROP...  : confirm a seeded change (patch.diff + demo.py in SEEDDIR) and run checks on it.
# - applies the patch to a private copy of /repo, runs the repository test suite, the demo with and without the
#   change, then ./check for each property against the changed copy. Leaves nothing behind.
SD="$1"; NAME="$2"; shift 2
M=/tmp/seedcheck_$NAME
rm -rf $M && cp -r /repo $M
( cd $M && git apply "$SD/patch.diff" ) || { echo "PATCH DOES NOT APPLY"; rm -rf $M; exit 2; }
echo "== tests with change:"; ( cd $M && /venv/bin/python -m pytest -q -p no:cacheprovider -n 8 --timeout=900 2>&1 | tail -1 )
echo "== demo with change (expect non-zero):"; ( cd $M && /venv/bin/python "$SD/demo.py" >/tmp/seedcheck_demo.out 2>&1; echo "exit=$?"; tail -2 /tmp/seedcheck_demo.out )
echo "== demo on unchanged tree (expect 0):"; ( cd /repo && PYTHONDONTWRITEBYTECODE=1 /venv/bin/python "$SD/demo.py" >/tmp/seedcheck_demo.out 2>&1; echo "exit=$?"; tail -1 /tmp/seedcheck_demo.out )
for P in "$@"; do
  echo "== check $P on changed tree:"
  SPOWTD_REPO=$M /verif/check $P 2>&1 | grep -E "^VIOLATION|^KNOWN|quick:|^  " | cut -c1-240 | head -6
done
rm -rf $M /tmp/seedcheck_demo.out
