#!/usr/bin/env python3
"""Print the markdown catch matrix of DESIGN.md section 13 from seeded/*/meta.json."""
import glob
import json
import os

VERIF = os.path.dirname(os.path.dirname(os.path.abspath(__file__)))


def short(s, n):
    s = ' '.join(str(s).split())
    return s if len(s) <= n else s[:n - 1].rstrip() + '…'


def main():
    print('| seed | file(s) changed | what it needs to manifest | caught by | missed at first? |')
    print('|---|---|---|---|---|')
    for d in sorted(glob.glob(os.path.join(VERIF, 'seeded', '*'))):
        m = json.load(open(os.path.join(d, 'meta.json')))
        files = sorted({l.split(' b/')[-1].strip() for l in open(os.path.join(d, 'patch.diff')) if l.startswith('diff --git')})
        lc = m.get('lead_confirmed', {})
        print('| %s | %s | %s | %s | %s |' % (
            os.path.basename(d), ', '.join(f.replace('spowtd/', '') for f in files),
            short(m.get('needs', ''), 230).replace('|', '/'), short(lc.get('check', ''), 200).replace('|', '/'),
            short(lc.get('note', '') or 'no', 160).replace('|', '/')))


if __name__ == '__main__':
    main()
