#!/usr/bin/env python3
"""tools/mutsweep.py list|run : systematic one-token mutants of the spowtd package against the quick checks.

  list [--per-file N] [--seed S]   print the sampled mutants (json lines) to stdout
  run  JSONLINE                    apply one mutant to a private copy of /repo and run the checks mapped to its file
                                   (quick tier, --no-proofs, own VERIF_SCRATCH); prints one json line with the verdict

Mutation operators (on the `ast`, applied textually at the node's position): comparison flips (< <=, > >=, == !=),
+ / -, and / or, dropped `not`, integer constants 0/1/2 -> +1, True <-> False.  Docstrings, asserts, logging and
raise statements are skipped.  This is a measurement of what the checks see, not part of any check."""
import ast
import json
import os
import random
import shutil
import subprocess
import sys

REPO = '/repo'
FILES = {
    'classify.py': ['C01', 'C02', 'C03', 'C04'],
    'fit_offsets.py': ['C05', 'C08', 'C12'],
    'regrid.py': ['C12', 'C13'],
    'load.py': ['C10', 'C11'],
    'rise.py': ['C13', 'C09', 'C05'],
    'recession.py': ['C13', 'C09', 'C05'],
    'zeta_grid.py': ['C13', 'C09'],
    'spline.py': ['C14', 'C17'],
    'specific_yield.py': ['C14', 'C16', 'C17'],
    'transmissivity.py': ['C15', 'C16'],
    'simulate_rise.py': ['C17', 'C19'],
    'simulate_recession.py': ['C18', 'C19'],
    'pestfiles.py': ['C19'],
    'set_curvature.py': ['C20', 'C18'],
    'user_interface.py': ['C20', 'C17', 'C18', 'C19'],
}
CMP = {ast.Lt: '<=', ast.LtE: '<', ast.Gt: '>=', ast.GtE: '>', ast.Eq: '!=', ast.NotEq: '=='}


def sites(path):
    src = open(path).read()
    lines = src.split('\n')
    tree = ast.parse(src)
    skip = set()
    for node in ast.walk(tree):
        if isinstance(node, (ast.Assert, ast.Raise)):
            for sub in ast.walk(node):
                skip.add(id(sub))
        if isinstance(node, ast.Expr) and isinstance(node.value, ast.Call):
            f = ast.unparse(node.value.func)
            if f.startswith('LOG.') or f.startswith('logging.'):
                for sub in ast.walk(node):
                    skip.add(id(sub))
        if isinstance(node, ast.Expr) and isinstance(node.value, ast.Constant) and isinstance(node.value.value, str):
            skip.add(id(node.value))

    def between(a, b):
        """(line, col_start, col_end) of the text between node a's end and node b's start, if on one line"""
        if a.end_lineno == b.lineno:
            return (a.end_lineno, a.end_col_offset, b.col_offset)
        return None

    out = []
    for node in ast.walk(tree):
        if id(node) in skip:
            continue
        if isinstance(node, ast.Compare) and len(node.ops) == 1 and type(node.ops[0]) in CMP:
            span = between(node.left, node.comparators[0])
            if span:
                out.append(dict(kind='cmp', span=span, new=' %s ' % CMP[type(node.ops[0])]))
        elif isinstance(node, ast.BinOp) and isinstance(node.op, (ast.Add, ast.Sub)):
            if isinstance(node.left, ast.Constant) and isinstance(node.left.value, str):
                continue
            span = between(node.left, node.right)
            if span:
                out.append(dict(kind='arith', span=span, new=' - ' if isinstance(node.op, ast.Add) else ' + '))
        elif isinstance(node, ast.BoolOp) and len(node.values) == 2:
            span = between(node.values[0], node.values[1])
            if span:
                out.append(dict(kind='bool', span=span, new=' or ' if isinstance(node.op, ast.And) else ' and '))
        elif isinstance(node, ast.UnaryOp) and isinstance(node.op, ast.Not) and node.lineno == node.operand.lineno:
            out.append(dict(kind='not', span=(node.lineno, node.col_offset, node.operand.col_offset), new=''))
        elif isinstance(node, ast.Constant) and node.lineno == node.end_lineno:
            if isinstance(node.value, bool):
                out.append(dict(kind='const', span=(node.lineno, node.col_offset, node.end_col_offset),
                                new=str(not node.value)))
            elif isinstance(node.value, int) and node.value in (0, 1, 2):
                out.append(dict(kind='const', span=(node.lineno, node.col_offset, node.end_col_offset),
                                new=str(node.value + 1)))
    for o in out:
        ln, a, b = o['span']
        o['old'] = lines[ln - 1][a:b]
        o['line'] = lines[ln - 1].strip()[:100]
    return out


SQL_FLIPS = [(' >= ', ' > '), (' <= ', ' < '), (' > ', ' >= '), (' < ', ' <= '), (' AND ', ' OR '), ('min(', 'max('),
             ('max(', 'min('), ('avg(', 'sum('), ('JOIN ', 'LEFT JOIN '), (' / 3600', ' / 360'), (' DESC', ' ASC'),
             ('count(distinct ', 'count('), (' = 1', ' = 0'), ('ORDER BY zeta_mm', 'ORDER BY zeta_mm DESC')]
SCHEMA_PROPS = ['C13', 'C09', 'C03', 'C18', 'C19', 'C10', 'C20', 'C17']


def sql_sites(path, is_python):
    """One-token mutants inside SQL text: the schema file, or string constants of a Python file that look like SQL."""
    src = open(path).read()
    lines = src.split('\n')
    spans = []
    if is_python:
        for node in ast.walk(ast.parse(src)):
            if isinstance(node, ast.Constant) and isinstance(node.value, str) and \
                    any(k in node.value.upper() for k in ('SELECT ', 'INSERT ', 'UPDATE ', 'DELETE ')):
                spans.append((node.lineno, node.end_lineno))
    else:
        spans.append((1, len(lines)))
    out = []
    for a, b in spans:
        for ln in range(a, b + 1):
            text = lines[ln - 1]
            if text.strip().startswith('--'):
                continue
            for old, new in SQL_FLIPS:
                col = text.find(old)
                if col >= 0 and not (old == 'JOIN ' and 'LEFT' in text):
                    out.append(dict(kind='sql', span=(ln, col, col + len(old)), new=new, old=old, line=text.strip()[:100]))
    return out


def cmd_list_sql(per_file, seed):
    rng = random.Random(seed)
    for fn in ['schema.sql'] + list(FILES):
        path = os.path.join(REPO, 'spowtd', fn)
        ss = sql_sites(path, fn.endswith('.py'))
        rng.shuffle(ss)
        props = SCHEMA_PROPS if fn == 'schema.sql' else FILES[fn]
        for s in ss[:per_file * (3 if fn == 'schema.sql' else 1)]:
            print(json.dumps(dict(file=fn, props=props, **s)))


def cmd_list(per_file, seed):
    rng = random.Random(seed)
    for fn, props in FILES.items():
        path = os.path.join(REPO, 'spowtd', fn)
        ss = sites(path)
        rng.shuffle(ss)
        for s in ss[:per_file]:
            print(json.dumps(dict(file=fn, props=props, **s)))


def cmd_run(m):
    tag = '%s_%d_%d_%s' % (m['file'].replace('.py', '').replace('.', '_'), m['span'][0], m['span'][1], m['kind'])
    copy = '/tmp/mut_%s' % tag
    scratch = '/tmp/mut_%s.out' % tag
    shutil.rmtree(copy, ignore_errors=True)
    shutil.rmtree(scratch, ignore_errors=True)
    shutil.copytree(REPO, copy, ignore=shutil.ignore_patterns('.git', '__pycache__'))
    path = os.path.join(copy, 'spowtd', m['file'])
    lines = open(path).read().split('\n')
    ln, a, b = m['span']
    lines[ln - 1] = lines[ln - 1][:a] + m['new'] + lines[ln - 1][b:]
    open(path, 'w').write('\n'.join(lines))
    res = dict(file=m['file'], line=ln, kind=m['kind'], old=m['old'], new=m['new'], text=m['line'], caught_by=[],
               silent=[])
    rc = 0 if not m['file'].endswith('.py') else subprocess.call(
        ['/venv/bin/python', '-c', 'import spowtd.%s' % m['file'][:-3]],
        env=dict(os.environ, PYTHONPATH=copy), stdout=subprocess.DEVNULL, stderr=subprocess.DEVNULL)
    if rc != 0:
        res['verdict'] = 'does-not-import'
    else:
        for p in m['props']:
            out = subprocess.run(['/verif/check', p, '--no-proofs'], capture_output=True, text=True,
                                 env=dict(os.environ, SPOWTD_REPO=copy, VERIF_SCRATCH=scratch)).stdout
            if 'VIOLATION' in out:
                res['caught_by'].append(p)
                break     # one check reporting it is enough for the measurement
            res['silent'].append(p)
        res['verdict'] = 'caught' if res['caught_by'] else 'NOT-CAUGHT'
    shutil.rmtree(copy, ignore_errors=True)
    shutil.rmtree(scratch, ignore_errors=True)
    print(json.dumps(res), flush=True)


if __name__ == '__main__':
    if sys.argv[1] == 'list-sql':
        per = int(sys.argv[sys.argv.index('--per-file') + 1]) if '--per-file' in sys.argv else 6
        sd = int(sys.argv[sys.argv.index('--seed') + 1]) if '--seed' in sys.argv else 0
        cmd_list_sql(per, sd)
    elif sys.argv[1] == 'list':
        per = int(sys.argv[sys.argv.index('--per-file') + 1]) if '--per-file' in sys.argv else 10
        sd = int(sys.argv[sys.argv.index('--seed') + 1]) if '--seed' in sys.argv else 0
        cmd_list(per, sd)
    else:
        cmd_run(json.loads(sys.argv[2]))
