#!/bin/sh
# tools/mut.sh FILE 'python-expr-old' 'new' PROP...   : apply a textual mutation to a private copy of /repo and run checks
# usage: tools/mut.sh spowtd/classify.py 'rain > rain_threshold' 'rain >= rain_threshold' C03
F="$1"; OLD="$2"; NEW="$3"; shift 3
M=/tmp/lead_mut_repo
rm -rf $M && cp -r /repo $M && rm -rf $M/.git
/venv/bin/python - "$M/$F" "$OLD" "$NEW" <<'PY' || exit 2
import sys
p, old, new = sys.argv[1:4]
s = open(p).read()
if s.count(old) != 1:
    print('pattern occurs %d times' % s.count(old)); sys.exit(2)
open(p, 'w').write(s.replace(old, new))
PY
for P in "$@"; do
  SPOWTD_REPO=$M /verif/check $P 2>&1 | grep -E "^VIOLATION|^KNOWN|quick:" | cut -c1-200 | head -4
done
rm -rf $M
