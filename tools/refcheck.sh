#!/bin/sh
# tools/refcheck.sh REFDIR NAME PROP... : a behaviour-preserving change (patch.diff in REFDIR) must leave the checks silent.
SD="$1"; NAME="$2"; shift 2
M=/tmp/refcheck_$NAME; S=/tmp/refcheck_$NAME.out
mkdir -p /verif/work/reflogs; LOG=/verif/work/reflogs/$NAME.log
{
rm -rf $M $S && cp -r /repo $M && rm -rf $M/.git && mkdir -p $S
( cd $M && patch -p1 -s < "$SD/patch.diff" ) || { echo "PATCH DOES NOT APPLY"; rm -rf $M $S; exit 2; }
for P in "$@"; do
  echo "== check $P on refactored tree:"
  VERIF_SCRATCH=$S SPOWTD_REPO=$M /verif/check $P --no-proofs 2>&1 | grep -E "^VIOLATION|quick:|^  " | cut -c1-600 | head -6
done
rm -rf $M $S
} > $LOG 2>&1
