#!/bin/sh
# tools/seedtests.sh SEEDDIR NAME : repository test suite on a private copy of /repo with the seeded change applied
SD="$1"; NAME="$2"
M=/tmp/seedtests_$NAME
rm -rf $M && cp -r /repo $M && rm -rf $M/.git
( cd $M && patch -p1 -s < "$SD/patch.diff" ) || { echo "$NAME PATCH DOES NOT APPLY"; rm -rf $M; exit 2; }
R=$( cd $M && /venv/bin/python -m pytest -q -p no:cacheprovider -n 8 --timeout=900 2>&1 | grep -E "^FAILED|passed|failed" | tr '\n' ' ' )
echo "$NAME: $R"
rm -rf $M
